"""Bounded conformance of the ASSUMED models against the installed libraries (labelled bounded,
never proof).  Each check restates an axiom the verifier assumes (pyvc/models/*.py,
contracts/assumed/*.py) as an executable predicate and runs it over a finite grammar of inputs.

    /venv/bin/python bounded/conf_models.py [--tier quick|thorough]   -> JSON on stdout, exit 0/1
"""
import configparser
import hashlib
import io
import itertools
import json
import posixpath
import sys
import urllib.parse

TIER = "thorough" if "--tier=thorough" in sys.argv or (len(sys.argv) > 2 and sys.argv[2] == "thorough") else "quick"
results = []


def check(name, cases, pred):
    n = 0
    for c in cases:
        n += 1
        try:
            ok = pred(*c) if isinstance(c, tuple) else pred(c)
        except Exception as e:  # a model that says "total" while the library raises
            ok = False
            c = (c, f"{type(e).__name__}: {e}")
        if not ok:
            results.append({"axiom": name, "holds": False, "tried": n, "counterexample": repr(c)})
            return
    results.append({"axiom": name, "holds": True, "tried": n})


def strings(alphabet, maxlen):
    for k in range(maxlen + 1):
        for t in itertools.product(alphabet, repeat=k):
            yield "".join(t)


L = 4 if TIER == "quick" else 6
SEGS = ["", "a", "..", ".", "b c", "%41", "é"]
paths = ["/" + "/".join(t) for k in range(0, 4) for t in itertools.product(SEGS, repeat=k)] + ["//x", "///x", "x", "x/../y", "./x", ""]


def has_seg(p, seg):
    return seg in p.split("/")


# ---- posixpath.normpath (pyvc/models/pathmodels.py)
NP = posixpath.normpath
check("normpath: result non-empty", paths, lambda p: len(NP(p)) > 0)
check("normpath: absolute iff absolute", paths, lambda p: p.startswith("/") == NP(p).startswith("/"))
check("normpath: absolute result has no '..' segment", paths, lambda p: not NP(p).startswith("/") or not has_seg(NP(p), ".."))
check("normpath: no '.' segment unless the result is '.'", paths, lambda p: NP(p) == "." or not has_seg(NP(p), "."))
check("normpath: no trailing slash except '/' and '//'", paths, lambda p: not NP(p).endswith("/") or NP(p) in ("/", "//"))
check("normpath: no '//' after the first character", paths, lambda p: "//" not in NP(p)[1:])
check("normpath: idempotent", paths, lambda p: NP(NP(p)) == NP(p))
check("normpath: '//' prefix kept only for exactly two leading slashes", paths,
      lambda p: not NP(p).startswith("//") or (p.startswith("//") and not p.startswith("///")))
check("posixpath.join(a, b)", [(a, b) for a in ["", "/", "/r", "/r/", "r"] for b in ["", "x", "/x", "x/y", "../x"]],
      lambda a, b: posixpath.join(a, b) == (b if b.startswith("/") else (a + b if a == "" or a.endswith("/") else a + "/" + b)))
def split_model(p):
    i = p.rfind("/")
    h0, tail = p[:i + 1], p[i + 1:]
    return (h0 if set(h0) <= {"/"} else h0.rstrip("/")), tail


check("posixpath.split: tail is what follows the last '/', head is the rest without trailing slashes (unless all slashes)", paths,
      lambda p: posixpath.split(p) == split_model(p) and "/" not in posixpath.split(p)[1])

# ---- urllib.parse (href codec, contracts/webdav_hrefs.py)
ALPH = ["a", "/", " ", "%", "?", "#", ";", "+", ":", "é", "&", "=", "@", "."]
plain = [p for p in ("/" + s for s in strings(ALPH, L - 1)) if not p.startswith("//")]
Q, UQ, US = urllib.parse.quote, urllib.parse.unquote, urllib.parse.urlsplit
check("unquote(quote(p)) == p", plain, lambda p: UQ(Q(p)) == p)
check("urlsplit(quote(p)).path == quote(p) for a plain absolute path", plain, lambda p: US(Q(p)).path == Q(p))
check("quote(p) has no '?', '#', ' '", plain, lambda p: not any(c in Q(p) for c in "?# "))
check("quote is the identity on unreserved characters and '/'", ["/abc/d-e_f.g~h", "/", "/a/b"], lambda p: Q(p) == p)
check("unquote is the identity without '%'", [s for s in strings(["a", "/", " ", "?", "é"], L)], lambda s: UQ(s) == s)

# ---- hashlib.md5 (pyvc/models/fsmodels.py): chunking is not observable
datas = [b"", b"a", b"ab", b"abc" * 50]
check("md5 of concatenation == md5 of chunk-wise updates", [(a, b) for a in datas for b in datas],
      lambda a, b: hashlib.md5(a + b).hexdigest() == (lambda m: (m.update(a), m.update(b), m.hexdigest())[2])(hashlib.md5()))

# ---- configparser with interpolation=None (pyvc/models/configmodels.py)
VALUES = ["", "x", "a%b", "a%%b", "50% off", "%(color)s", " lead", "trail ", "two words", "é", "a=b", "a:b", "#c", ";c"]
if TIER == "thorough":
    VALUES += ["line1\n line2", "[sec]", "%", "%%", "100%"]


def cp_roundtrip(v):
    cp = configparser.ConfigParser(interpolation=None)
    cp["DEFAULT"]["displayname"] = v
    f = io.StringIO()
    cp.write(f)
    cp2 = configparser.ConfigParser(interpolation=None)
    cp2.read_string(f.getvalue())
    return cp2["DEFAULT"]["displayname"] == v.strip() if v != v.strip() else cp2["DEFAULT"]["displayname"] == v


check("ConfigParser(interpolation=None): set; write; read gives the value back (modulo outer whitespace)", VALUES, cp_roundtrip)
check("ConfigParser(interpolation=None): get returns the raw value", VALUES,
      lambda v: (lambda cp: (cp["DEFAULT"].__setitem__("k", v), cp["DEFAULT"]["k"] == v)[1])(configparser.ConfigParser(interpolation=None)))


# ---- dulwich object model (pyvc/models/dulwichmodels.py)
def dulwich_checks():
    import stat

    from dulwich.objects import Blob, Tree

    blobs = [b"", b"a", b"b", b"a\n", b"BEGIN:VCALENDAR\r\nEND:VCALENDAR\r\n"]
    ids = [Blob.from_string(b).id for b in blobs]
    check("blob id is a function of the bytes and injective on the sample", [0], lambda _: len(set(ids)) == len(blobs)
          and all(Blob.from_string(b).id == i for b, i in zip(blobs, ids)))

    def chunked_same(b):
        x = Blob()
        x.chunked = [b[:1], b[1:]]
        return x.id == Blob.from_string(b).id
    check("blob id does not depend on chunking", blobs, chunked_same)

    def tree_of(entries):
        t = Tree()
        for n, i in entries:
            t[n] = (0o644 | stat.S_IFREG, i)
        return t

    names = [b"a.ics", b"b.ics", b"c.vcf"]
    combos = [tuple(zip(ns, perm)) for k in range(0, 3) for ns in itertools.combinations(names, k) for perm in itertools.permutations(ids[:3], k)]
    tids = {}
    ok = True
    for c in combos:
        tid = tree_of(c).id
        key = tuple(sorted(c))
        if tids.setdefault(tid, key) != key:
            ok = False
    check("tree id is a function of the (name -> id) map and injective on the sample", [0],
          lambda _: ok and all(tree_of(c).id == tree_of(tuple(reversed(c))).id for c in combos))
    check("deleting an entry and re-adding it gives the original tree id", combos,
          lambda *c: True if not c else (lambda t: (t.__delitem__(c[0][0]), t.__setitem__(c[0][0], (0o644 | stat.S_IFREG, c[0][1])), t.id == tree_of(c).id)[2])(tree_of(c)))


dulwich_checks()


# ---- icalendar (contracts/assumed/icalendar_props.py, C14 fixed point)
def ical_checks():
    import datetime

    from icalendar.cal import Calendar
    from icalendar.prop import vDDDTypes

    vals = [datetime.date(2024, 1, 1), datetime.datetime(2024, 1, 1, 12, 0), datetime.datetime(2024, 1, 1, 12, 0, tzinfo=datetime.timezone.utc),
            datetime.timedelta(0), datetime.timedelta(hours=1)]
    check("a present date / duration property object is truthy", vals, lambda v: bool(vDDDTypes(v)))
    check("getattr(dt, 'time', None) is not None  <=>  DATE-TIME", vals[:3],
          lambda v: (getattr(vDDDTypes(v).dt, "time", None) is not None) == isinstance(v, datetime.datetime))
    check("timedelta(1) is 86400 seconds", [0], lambda _: datetime.timedelta(1).total_seconds() == 86400)
    bodies = []
    for summary in ["x", "a, b; c\\n", "é", "long " * 30]:
        for extra in ["", "CATEGORIES:a,b\r\n", "DTEND:20240102T000000Z\r\n", "RRULE:FREQ=DAILY;COUNT=2\r\n"]:
            bodies.append(("BEGIN:VCALENDAR\r\nVERSION:2.0\r\nPRODID:x\r\nBEGIN:VEVENT\r\nUID:u\r\nDTSTAMP:20240101T000000Z\r\n"
                           f"DTSTART:20240101T000000Z\r\nSUMMARY:{summary}\r\n{extra}END:VEVENT\r\nEND:VCALENDAR\r\n").encode())
    check("to_ical(from_ical(x)) is a fixed point of itself (C14: re-uploading the served bytes changes nothing)", bodies,
          lambda b: Calendar.from_ical(Calendar.from_ical(b).to_ical()).to_ical() == Calendar.from_ical(b).to_ical())


ical_checks()

bad = [r for r in results if not r["holds"]]
json.dump({"tier": TIER, "axioms": len(results), "violated": bad, "results": results}, sys.stdout, indent=1, ensure_ascii=False)
sys.exit(1 if bad else 0)
