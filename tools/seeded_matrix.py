"""Run the registered checks against every seeded change (scratch copy of /repo + patch,
via VERIF_REPO) and print the detection matrix.   python3-vt tools/seeded_matrix.py [ids...]"""
import json, os, shutil, subprocess, sys, tempfile, time
from concurrent.futures import ThreadPoolExecutor

ROOT = os.path.dirname(os.path.dirname(os.path.abspath(__file__)))
sys.path.insert(0, ROOT)
from pyvc import props as P

KF = json.load(open(os.path.join(ROOT, "known_findings.json")))
REVERTS = {"R-" + k["commit"]: k for k in KF if k.get("kind") == "fixed"}
ids = sys.argv[1:] or (sorted(d for d in os.listdir(os.path.join(ROOT, "seeded")) if os.path.isfile(os.path.join(ROOT, "seeded", d, "meta.json")))
                       + sorted(REVERTS))
out = {}


def run(sid):
    tmp = tempfile.mkdtemp(prefix="verif-seed-")
    if sid in REVERTS:
        # the inverse of a fix: commit must be detected by the property it was made for
        k = REVERTS[sid]
        meta = {"property": k["property"], "summary": "revert of fix " + k["commit"] + ": " + k["what"][:80], "functions": []}
        pfile = os.path.join(tmp, "revert.diff")
        with open(pfile, "w") as f:
            f.write(subprocess.run(["git", "-C", "/repo", "diff", k["commit"], k["commit"] + "~1", "--", "xandikos"],
                                   capture_output=True, text=True).stdout)
    else:
        d = os.path.join(ROOT, "seeded", sid)
        meta = json.load(open(os.path.join(d, "meta.json")))
        pfile = os.path.join(d, "patch.diff")
    prop = meta["property"]
    try:
        shutil.copytree("/repo/xandikos", os.path.join(tmp, "xandikos"), ignore=shutil.ignore_patterns("__pycache__"))
        r = subprocess.run(["patch", "-p1", "-s", "-F5", "-i", pfile], cwd=tmp, capture_output=True, text=True)
        if r.returncode != 0:
            return sid, {"property": prop, "result": "PATCH-FAILED", "detail": r.stdout[-200:]}
        res = {}
        # the property the change was written against first, then every other claimed property
        order = [prop] + [p for p in sorted(P.PROPS) if p != prop]
        for p in order:
            if p not in P.PROPS:
                res[p] = "not-claimed"
                continue
            if p != prop and os.environ.get("MATRIX_ALL") is None:
                continue
            env = dict(os.environ, VERIF_REPO=tmp, PYVC_PROCS="6")
            t0 = time.time()
            try:
                rr = subprocess.run(["python3-vt", "-m", "pyvc.check", p], cwd=ROOT, env=env, capture_output=True, text=True, timeout=5400)
            except subprocess.TimeoutExpired:
                res[p] = {"exit": "timeout", "lines": [], "s": round(time.time() - t0)}
                continue
            lines = [l for l in rr.stdout.splitlines() if l.startswith(("VIOLATION", "UNDECIDED", "CHECKER-ERROR", "KNOWN"))]
            lines.sort(key=lambda l: 0 if l.startswith("VIOLATION") else 1)
            res[p] = {"exit": rr.returncode, "lines": [l[:220] for l in lines[:4]], "s": round(time.time() - t0)}
        return sid, {"property": prop, "summary": meta.get("summary", "")[:100], "functions": meta.get("functions"), "checks": res}
    finally:
        shutil.rmtree(tmp, ignore_errors=True)


with ThreadPoolExecutor(3) as ex:
    for sid, r in ex.map(run, ids):
        out[sid] = r
        c = r.get("checks", {}).get(r["property"])
        status = "n/a" if c == "not-claimed" else ("DETECTED" if isinstance(c, dict) and c["exit"] == 1 and any(l.startswith("VIOLATION") for l in c["lines"]) else f"missed({c})" if c else r.get("result"))
        print(sid, status, (c or {}).get("lines", [""])[:1] if isinstance(c, dict) else "", flush=True)
mp = os.path.join(ROOT, "seeded", "MATRIX.json")
try:
    allr = json.load(open(mp))
except Exception:
    allr = {}
allr.update(out)   # partial runs refresh their own entries only
json.dump(allr, open(mp, "w"), indent=1, sort_keys=True)
