#!/bin/sh
# regenerate the obligation lock for every claimed property (run after any contract change)
cd "$(dirname "$0")/.." || exit 3
for p in $(python3-vt -c "import sys; sys.path.insert(0,'.'); from pyvc import props as P; print(' '.join(sorted(P.PROPS)))"); do
  ./check $p --update-lock 2>&1 | tail -1
done
python3-vt tools/gen_manifest.py
