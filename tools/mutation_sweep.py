"""Mutation sweep over every function under contract: python3-vt tools/mutation_sweep.py [--max N] [ids...]
Writes mutants/REPORT.json: per function the mutants that were killed by a failing obligation,
left the accepted subset (undecided: the bounded stand-in of the function decides), or survived
(coverage gaps of the contracts - listed, never hidden)."""
import json, os, subprocess, sys, time

ROOT = os.path.dirname(os.path.dirname(os.path.abspath(__file__)))
sys.path.insert(0, ROOT)
from pyvc import props as P

mx = 8
args = sys.argv[1:]
if args and args[0] == "--max":
    mx = int(args[1]); args = args[2:]
fns = []
for pid, sp in sorted(P.PROPS.items()):
    if args and pid not in args:
        continue
    for f in sp["functions"]:
        if f not in fns:
            fns.append(f)
report = {}
os.makedirs(os.path.join(ROOT, "mutants"), exist_ok=True)
for f in fns:
    base = f.split("@")[0]
    t0 = time.time()
    r = subprocess.run(["python3-vt", "tools/mutate.py", base, "--verify", f, "--max", str(mx), "--jobs", "4"], cwd=ROOT,
                       capture_output=True, text=True, timeout=7200)
    try:
        res = json.load(open(os.path.join(ROOT, "scratch_mut.json")))
    except Exception:
        res = []
    killed = [m for m in res if m["killed"] and not all(b.startswith("unsupported:") for b in m["by"])]
    undecided = [m for m in res if m["killed"] and all(b.startswith("unsupported:") for b in m["by"])]
    survived = [m for m in res if not m["killed"]]
    report[f] = {"mutants": len(res), "killed": len(killed), "undecided": len(undecided), "survived": [m["mutant"] for m in survived],
                 "seconds": round(time.time() - t0)}
    print(f, report[f]["killed"], "/", len(res), "survivors:", report[f]["survived"], flush=True)
    json.dump(report, open(os.path.join(ROOT, "mutants", "REPORT.json"), "w"), indent=1)
tot = sum(v["mutants"] for v in report.values())
print("TOTAL", sum(v["killed"] for v in report.values()), "killed,", sum(v["undecided"] for v in report.values()), "undecided,",
      sum(len(v["survived"]) for v in report.values()), "survived of", tot)
