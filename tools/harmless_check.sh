#!/bin/sh
# Behaviour-preserving edits of functions under contract (seeded/harmless/*.diff: temporaries, reordered
# independent statements, inlined helpers, swapped branches, renamed locals, an added log line) must not
# raise an alarm: every listed check has to exit 0 on the edited tree.
#   tools/harmless_check.sh            (needs no network; ~15 min)
cd "$(dirname "$0")/.." || exit 3
rc=0
run() {  # <diff> <property ids...>
  d=$1; shift
  for p in "$@"; do
    out=$(tools/with_patch.sh "$PWD/seeded/harmless/$d" ./check "$p" --tier quick 2>&1); e=$?
    echo "$d $p exit=$e $(echo "$out" | grep -c '^VIOLATION') violation line(s)"
    [ $e -eq 0 ] || { rc=1; echo "$out" | grep '^VIOLATION\|^UNDECIDED' | head -5; }
  done
}
run set_a.diff C17 C09 C06 C11 C03 C01
run set_b.diff C13 C16 C15 C12 C07 C02
run set_c.diff C16 C17 C07 C15 C09 C03
exit $rc
