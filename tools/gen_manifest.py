"""Regenerate MANIFEST.json from pyvc/props.py (run with python3-vt)."""
import json, os, sys
sys.path.insert(0, os.path.dirname(os.path.dirname(os.path.abspath(__file__))))
from pyvc import props as P

ROOT = os.path.dirname(os.path.dirname(os.path.abspath(__file__)))
allp = [json.loads(l) for l in open(os.path.join(ROOT, "properties.jsonl"))]
checks = []
GENERIC = ("Every obligation (postconditions, exceptional postconditions, loop invariants, callee preconditions, frames, vacuity guards) "
           "generated from the current source of the listed functions against sidecar contracts is discharged by z3/cvc5 for all inputs "
           "and iteration counts; the property is a lemma over those contracts.")
for pid in sorted(P.PROPS):
    sp = P.PROPS[pid]
    text = GENERIC if sp.get("level", "proof") == "proof" else (
        "PARTLY deductive. " + sp.get("explanation", "") + " For the functions under contract: " + GENERIC[0].lower() + GENERIC[1:])
    if sp.get("gap"):
        text += " NOT under contract (covered only by the bounded explorers below): " + sp["gap"]
    ba = sp.get("bounded_always", {})
    if ba:
        text += (" Bounded (labelled bounded, run on every check, never counted as proved): " +
                 "; ".join(f"{q} via replay/{d['driver']}" for q, d in sorted(ba.items())) + ".")
    sp = dict(sp, level_text=text)
    checks.append({
        "property_id": pid,
        "quick_cmd": f"./check {pid} --tier quick",
        "thorough_cmd": f"./check {pid} --tier thorough",
        "evidence_file": f"evidence/{pid}.json",
        "replay_cmd_template": f"./check {pid} --replay {{path}}",
        "engine": "pyvc",
        "level_claimed": {
            "category": sp.get("level", "proof"),
            "text": sp.get("level_text", "Every obligation (postconditions, exceptional postconditions, loop invariants, callee "
                    "preconditions, frames) generated from the current source of the listed functions against sidecar contracts "
                    "is discharged by z3/cvc5 for all inputs and iteration counts; the property is a lemma over those contracts."),
            "design_ref": sp.get("design_ref", "DESIGN.md 0.10 (as built) and 6/" + pid + " (plan)"),
        },
        "level_note": sp.get("level_note", "Trusted: pyvc's encoding of Python (DESIGN 2.3), the ASSUMED contracts on "
                     "dependencies listed in the evidence file, z3/cvc5, hash injectivity where used."),
        "technique": sp.get("technique", "contract-based deductive verification: VCs generated from the real AST against sidecar "
                     "contracts, discharged by z3/cvc5; counterexamples replayed natively"
                     + ("; plus a bounded native explorer for the parts no per-call contract can decide (labelled bounded)" if ba else "")),
    })
na = []
for p in allp:
    if p["id"] not in P.PROPS:
        na.append({"property_id": p["id"], "reason": P.NOT_APPLICABLE.get(p["id"], "obligations not built yet in this round; not claimed")})
m = {
    "version": 1,
    "setup_cmd": "python3-vt -m compileall -q pyvc replay tools >/dev/null 2>&1; mkdir -p evidence replays; true",
    "hooks": {
        "guard": "XANDIKOS_VERIF",
        "enable": "none needed: contracts and instrumentation are sidecar files under /verif; /repo is only parsed (python3-vt) or imported unmodified (/venv/bin/python) by replays",
        "baseline_off_cmd": "cd /repo && /venv/bin/python -m pytest -ra -q -p no:cacheprovider --timeout=900 --continue-on-collection-errors",
        "source_commits": [],
        "add_only": True,
    },
    "engines": [{"name": "pyvc", "path": "pyvc/", "serves_properties": sorted(P.PROPS),
                 "kind_free_text": "verification-condition generator over the real Python AST + sidecar contracts, z3/cvc5 back ends, native replay"}],
    "checks": checks,
    "not_applicable": na,
    "notes": "See DESIGN.md. fix: commits in /repo are listed in known_findings.json (kind=fixed).",
}
json.dump(m, open(os.path.join(ROOT, "MANIFEST.json"), "w"), indent=1)
import jsonschema
jsonschema.validate(m, json.load(open("/root/.vp/MANIFEST.schema.json")))
for c in checks:
    ev = os.path.join(ROOT, c["evidence_file"])
    if os.path.exists(ev):
        jsonschema.validate(json.load(open(ev)), json.load(open("/root/.vp/EVIDENCE.schema.json")))
print("MANIFEST ok:", [c["property_id"] for c in checks], "n/a:", len(na))
