#!/bin/sh
# tools/with_patch.sh <patch.diff> <command...>   : run command with VERIF_REPO = scratch copy of /repo with the patch applied
P=$1; shift
T=$(mktemp -d /tmp/verif-patched-XXXXXX)
cp -r /repo/xandikos $T/xandikos
(cd $T && patch -p1 -s -F5 < $P) || { echo "PATCH FAILED"; rm -rf $T; exit 9; }
VERIF_REPO=$T "$@"; rc=$?
rm -rf $T
exit $rc
