#!/bin/sh
# run the thorough tier of every claimed property once (about 2 h); prints one summary line per property
cd "$(dirname "$0")/.." || exit 3
for p in $(python3-vt -c "import sys; sys.path.insert(0,'.'); from pyvc import props as P; print(' '.join(sorted(P.PROPS)))"); do
  t0=$(date +%s)
  out=$(VERIF_SEED=${VERIF_SEED:-1} ./check $p --tier thorough 2>&1); e=$?
  echo "$p exit=$e $(( $(date +%s) - t0 ))s $(echo "$out" | grep -c '^VIOLATION') violation(s) | $(echo "$out" | tail -1)"
  echo "$out" | grep '^VIOLATION\|^UNDECIDED\|error' | head -5
done
