"""Must-fail mutants: AST mutations of a target function, each verified against the
unchanged contracts.  A mutant that still verifies is a *survivor* (weak contract or
equivalent mutant) and is listed.   python3-vt tools/mutate.py <qualname> [--max N] [--seed S]
"""
import ast, copy, json, os, random, shutil, subprocess, sys, tempfile, time
from concurrent.futures import ThreadPoolExecutor

ROOT = os.path.dirname(os.path.dirname(os.path.abspath(__file__)))
sys.path.insert(0, ROOT)
from pyvc.loader import Repo

FLIP = {ast.Eq: ast.NotEq, ast.NotEq: ast.Eq, ast.Lt: ast.LtE, ast.LtE: ast.Lt, ast.Gt: ast.GtE, ast.GtE: ast.Gt,
        ast.Is: ast.IsNot, ast.IsNot: ast.Is, ast.In: ast.NotIn, ast.NotIn: ast.In}


def is_logging(node):
    if isinstance(node, ast.Expr) and isinstance(node.value, ast.Call):
        f = node.value.func
        while isinstance(f, ast.Attribute):
            f = f.value
        return isinstance(f, ast.Name) and f.id in ("logging", "logger")
    return False


def mutations(fn):
    """Yield (description, mutated FunctionDef)."""
    nodes = list(ast.walk(fn))
    docstrings = {id(f.body[0].value) for f in nodes if isinstance(f, (ast.FunctionDef, ast.AsyncFunctionDef, ast.ClassDef)) and f.body
                  and isinstance(f.body[0], ast.Expr) and isinstance(f.body[0].value, ast.Constant) and isinstance(f.body[0].value.value, str)}
    for idx, n in enumerate(nodes):
        if isinstance(n, ast.Compare) and len(n.ops) == 1 and type(n.ops[0]) in FLIP:
            m = copy.deepcopy(fn)
            t = list(ast.walk(m))[idx]
            t.ops = [FLIP[type(t.ops[0])]()]
            yield f"L{n.lineno}: {type(n.ops[0]).__name__} -> {FLIP[type(n.ops[0])].__name__}", m
        if isinstance(n, ast.BoolOp):
            m = copy.deepcopy(fn)
            t = list(ast.walk(m))[idx]
            t.op = ast.Or() if isinstance(t.op, ast.And) else ast.And()
            yield f"L{n.lineno}: and<->or", m
        if isinstance(n, (ast.If, ast.While)) :
            m = copy.deepcopy(fn)
            t = list(ast.walk(m))[idx]
            t.test = ast.UnaryOp(op=ast.Not(), operand=t.test)
            yield f"L{n.lineno}: negate condition", m
        if isinstance(n, ast.UnaryOp) and isinstance(n.op, ast.Not):
            m = copy.deepcopy(fn)
            parent_fix = False
            for p in ast.walk(m):
                for field, val in ast.iter_fields(p):
                    if isinstance(val, ast.UnaryOp) and isinstance(val.op, ast.Not) and val.lineno == n.lineno and val.col_offset == n.col_offset:
                        setattr(p, field, val.operand)
                        parent_fix = True
            if parent_fix:
                yield f"L{n.lineno}: drop not", m
        if isinstance(n, ast.Return) and n.value is not None and isinstance(n.value, ast.Constant) and isinstance(n.value.value, bool):
            m = copy.deepcopy(fn)
            t = list(ast.walk(m))[idx]
            t.value = ast.Constant(value=not n.value.value)
            yield f"L{n.lineno}: return {n.value.value} -> {not n.value.value}", m
        if isinstance(n, ast.Constant) and isinstance(n.value, str) and 0 < len(n.value) < 40 and id(n) not in docstrings:
            m = copy.deepcopy(fn)
            t = list(ast.walk(m))[idx]
            t.value = n.value + "x"
            yield f"L{n.lineno}: string {n.value!r} -> {n.value + 'x'!r}", m
    # statement deletions
    def bodies(node):
        for field in ("body", "orelse", "finalbody"):
            b = getattr(node, field, None)
            if isinstance(b, list) and b and isinstance(b[0], ast.stmt):
                yield node, field
        for h in getattr(node, "handlers", []) or []:
            yield h, "body"
    for idx, n in enumerate(nodes):
        for owner, field in bodies(n):
            body = getattr(owner, field)
            for si, st in enumerate(body):
                if is_logging(st) or isinstance(st, (ast.Pass, ast.FunctionDef)) :
                    continue
                if isinstance(st, ast.Expr) and isinstance(st.value, ast.Constant):
                    continue
                m = copy.deepcopy(fn)
                nodes2 = list(ast.walk(m))
                o2 = nodes2[nodes.index(owner)] if owner in nodes else None
                if o2 is None:
                    continue
                b2 = getattr(o2, field)
                if isinstance(st, (ast.If,)) and False:
                    pass
                b2[si] = ast.Pass()
                yield f"L{st.lineno}: delete {type(st).__name__}", m


def write_mutant(repo_root, module_path, qualparts, newfn, dest_root, lineno=None):
    src = open(module_path).read()
    tree = ast.parse(src)

    class R(ast.NodeTransformer):
        done = 0

        def visit_FunctionDef(self, node):
            if node.name == newfn.name and node.lineno == lineno:
                R.done += 1
                return newfn
            self.generic_visit(node)
            return node

        visit_AsyncFunctionDef = visit_FunctionDef

    tree = R().visit(tree)
    assert R.done == 1, (qualparts, lineno, R.done)
    rel = os.path.relpath(module_path, repo_root)
    with open(os.path.join(dest_root, rel), "w") as f:
        f.write(ast.unparse(ast.fix_missing_locations(tree)))


def main():
    import argparse
    ap = argparse.ArgumentParser()
    ap.add_argument("qualname")
    ap.add_argument("--verify", nargs="*", help="functions to verify for each mutant (default: the mutated one)")
    ap.add_argument("--max", type=int, default=12)
    ap.add_argument("--seed", type=int, default=int(os.environ.get("VERIF_SEED", "0") or 0))
    ap.add_argument("--jobs", type=int, default=4)
    args = ap.parse_args()
    repo = Repo()
    mod, cls, fn = repo.lookup(args.qualname)
    parts = args.qualname[len(mod.name) + 1:].split(".")
    muts = list(mutations(fn))
    # de-duplicate by unparse
    seen, uniq = set(), []
    base = ast.unparse(fn)
    for d, m in muts:
        u = ast.unparse(m)
        if u != base and u not in seen:
            seen.add(u)
            uniq.append((d, m))
    random.Random(args.seed).shuffle(uniq)
    chosen = uniq[: args.max]
    verify = args.verify or [args.qualname]
    results = []

    def run(i, d, m):
        tmp = tempfile.mkdtemp(prefix="verif-mut-")
        try:
            shutil.copytree(os.path.join(repo.root, "xandikos"), os.path.join(tmp, "xandikos"),
                            ignore=shutil.ignore_patterns("__pycache__", "tests"))
            write_mutant(repo.root, mod.path, parts, m, tmp, fn.lineno)
            # a mutant is killed by the first obligation that is not proved: small solver budgets are enough
            env = dict(os.environ, VERIF_REPO=tmp, PYVC_PROCS=str(max(1, 16 // args.jobs)), PYVC_JSON="1",
                       PYVC_ABS_MS=os.environ.get("PYVC_MUT_ABS_MS", "8000"), PYVC_Z3_MS="3000", PYVC_CVC5_S="5", PYVC_FAILFAST="1")
            t0 = time.time()
            out = subprocess.run(["python3-vt", "-m", "pyvc.cli_dev"] + verify, cwd=ROOT, env=env,
                                 capture_output=True, text=True, timeout=1800)
            killed_by = []
            for line in out.stdout.splitlines():
                if line.startswith("JSON "):
                    r = json.loads(line[5:])
                    for name, st in r["obligations"].items():
                        if st != "proved":
                            killed_by.append(f"{name}:{st}")
                    for u in r["unsupported"]:
                        killed_by.append("unsupported:" + u[:80])
                    for e in r["errors"]:
                        killed_by.append("error:" + e[:80])
            return {"mutant": d, "killed": bool(killed_by), "by": killed_by[:4], "seconds": round(time.time() - t0, 1)}
        finally:
            shutil.rmtree(tmp, ignore_errors=True)

    with ThreadPoolExecutor(args.jobs) as ex:
        futs = [ex.submit(run, i, d, m) for i, (d, m) in enumerate(chosen)]
        for f in futs:
            r = f.result()
            results.append(r)
            print(("KILLED   " if r["killed"] else "SURVIVED ") + r["mutant"], r["by"][:2], f"{r['seconds']}s", flush=True)
    k = sum(r["killed"] for r in results)
    print(f"{args.qualname}: {k}/{len(results)} mutants killed (of {len(uniq)} generated)")
    json.dump(results, open(os.path.join(ROOT, "scratch_mut.json"), "w"), indent=1)


main()
