"""python3-vt tools/show.py <qualname> [obligation-substring]: verify and print the refuted records in full."""
import sys, json, os
sys.path.insert(0, os.path.dirname(os.path.dirname(os.path.abspath(__file__))))
from pyvc.loader import Repo
from pyvc.registry import Registry
from pyvc.vcgen import verify_function
repo = Repo(); reg = Registry(repo)
rep = verify_function(repo, reg, sys.argv[1])
sub = sys.argv[2] if len(sys.argv) > 2 else ""
n = 0
for r in rep.obligations:
    if r["status"] == "refuted" and sub in r["name"]:
        n += 1
        if n > int(os.environ.get("SHOW_N", "2")):
            break
        print("==", r["name"], "line", r["line"], "trail", r.get("trail"))
        print("   conjunct:", (r.get("conjunct") or "")[:300].replace("\n", " "))
        cex = r.get("counterexample") or {}
        for k, v in cex.items():
            if k != "$ghost":
                print("  ", k, "=", json.dumps(v, default=str)[:300])
        for g in cex.get("$ghost", []):
            print("     ", g["f"], json.dumps(g["args"], default=str)[:150], "->", json.dumps(g["value"], default=str)[:150])
print("unsupported:", rep.unsupported[:3], "errors:", [e[:300] for e in rep.errors[:2]])
