"""Expression evaluation."""

from __future__ import annotations

import ast
import z3

from .values import *  # noqa: F401,F403
from .values import (
    V, VNone, NONE, VBool, VInt, VStr, VOpt, VTuple, VList, VMap, VSet, VRef, VOpaque,
    Unsupported, STR, INT, BOOL,
)
from . import values as vals
from .callables import *  # noqa: F401,F403
from .core import Cell, RaiseSignal
from . import strings


class Env:
    def __init__(self, module, locals_=None, closure=None, cls=None, func=None):
        self.module = module
        self.locals = locals_ if locals_ is not None else {}
        self.closure = closure or []
        self.cls = cls
        self.func = func
        self.globals_decl = set()


class ExprMixin:
    # ------------------------------------------------------------------ truthiness
    def truthy(self, v: V):
        """Python truth value as a z3 Bool."""
        if isinstance(v, vals.VBottom):
            return z3.FreshConst(BOOL, "bottom")
        if isinstance(v, VBool):
            return v.t
        if isinstance(v, VNone):
            return z3.BoolVal(False)
        if isinstance(v, VInt):
            return v.t != 0
        if isinstance(v, VStr):
            return z3.Length(v.t) > 0
        if isinstance(v, VOpt):
            return z3.And(z3.Not(v.isnone), self.truthy(v.val))
        if isinstance(v, VTuple):
            return z3.BoolVal(len(v.items) > 0)
        if isinstance(v, VList):
            return v.length() > 0
        if isinstance(v, VConstDict):
            return z3.BoolVal(bool(v.items))
        if isinstance(v, VRef):
            cell = self.path.heap[v.addr]
            if cell.val is not None:
                return self.truthy_container(cell.val)
            if cell.native is not None and hasattr(cell.native, "truthy"):
                return cell.native.truthy(self, v)
            return z3.BoolVal(True)
        if isinstance(v, VOpaque):
            t = self.registry.opaque_truthy(self, v)
            return t
        if isinstance(v, (VFunc, VBound, VNative, VClass, VExtClass, VModule)):
            return z3.BoolVal(True)
        if isinstance(v, (VMap, VSet)):
            return self.truthy_container(v)
        raise Unsupported(f"truth value of {v!r}")

    def truthy_container(self, c):
        if isinstance(c, VConstDict):
            return z3.BoolVal(bool(c.items))
        if isinstance(c, VList):
            return c.length() > 0
        if isinstance(c, (VMap, VSet)):
            k = z3.FreshConst(c.key.leaves()[0].sort(), "k")
            return z3.Exists([k], z3.Select(c.dom, k))
        raise Unsupported(f"truth value of container {c!r}")

    def deref(self, v: V):
        """Container value behind a ref (or the value itself)."""
        if isinstance(v, VRef):
            cell = self.heap()[v.addr]
            if cell.val is not None:
                return cell.val
        return v

    def heap(self):
        return self.heap_override if self.heap_override is not None else self.path.heap

    def new_container(self, val: V) -> VRef:
        return VRef(self.path.alloc(Cell(val=val)))

    def set_container(self, ref: VRef, val: V):
        if self.heap_override is not None:
            raise Unsupported("mutation inside old()")
        self.path.heap[ref.addr].val = val

    # ------------------------------------------------------------------ main dispatch
    def ev(self, node: ast.expr, env: Env) -> V:
        m = getattr(self, "ev_" + type(node).__name__, None)
        if m is None:
            raise Unsupported(f"expression {type(node).__name__} at line {getattr(node, 'lineno', '?')}")
        self.cur_line = getattr(node, "lineno", self.cur_line)
        return m(node, env)

    def ev_Constant(self, node, env):
        return self.const_value(node.value)

    def const_value(self, c):
        if c is None:
            return NONE
        if isinstance(c, bool):
            return VBool(c)
        if isinstance(c, int):
            return VInt(c)
        if isinstance(c, str):
            return VStr(z3.StringVal(c))
        if isinstance(c, bytes):
            return VStr(c)
        if c is Ellipsis:
            return NONE
        raise Unsupported(f"constant {c!r}")

    def ev_Name(self, node, env):
        return self.lookup(node.id, env)

    def lookup(self, name, env: Env) -> V:
        if name in env.locals:
            v = env.locals[name]
            if v is None:
                self.raise_builtin("UnboundLocalError")
            return v
        for c in env.closure:
            if name in c:
                return c[name]
        return self.global_lookup(name, env.module)

    def ev_JoinedStr(self, node, env):
        parts = []
        concrete = True
        for v in node.values:
            if isinstance(v, ast.Constant):
                parts.append(v.value)
            else:
                concrete = False
        if concrete:
            return VStr(z3.StringVal("".join(parts)))
        # message text: opaque, but evaluate the pieces that are plain strings so that
        # simple f"{a}{b}" concatenations stay exact
        terms = []
        exact = True
        for v in node.values:
            if isinstance(v, ast.Constant):
                terms.append(z3.StringVal(v.value))
            elif isinstance(v, ast.FormattedValue) and v.conversion == -1 and v.format_spec is None:
                try:
                    x = self.ev(v.value, env)
                except (Unsupported, RaiseSignal):
                    exact = False
                    break
                if isinstance(x, VStr) and not x.b:
                    terms.append(x.t)
                else:
                    exact = False
                    break
            else:
                exact = False
                break
        if exact and terms:
            return VStr(z3.Concat(*terms) if len(terms) > 1 else terms[0])
        self.path.dropped.add("f-string with non-string parts: opaque text")
        return VStr(self.path.const("fstr", STR))

    def ev_Tuple(self, node, env):
        items = self.ev_elts(node.elts, env)
        return VTuple(items)

    def ev_elts(self, elts, env):
        out = []
        for e in elts:
            if isinstance(e, ast.Starred):
                v = self.deref(self.ev(e.value, env))
                out.extend(self.concrete_items(v))
            else:
                out.append(self.ev(e, env))
        return out

    def ev_List(self, node, env):
        items = self.ev_elts(node.elts, env)
        return self.new_container(VList(items=items))

    def ev_Set(self, node, env):
        items = self.ev_elts(node.elts, env)
        return self.builtins_set_from_items(items)

    def ev_Dict(self, node, env):
        keys = []
        for k in node.keys:
            if k is None:
                raise Unsupported("dict unpacking in literal")
            keys.append(self.ev(k, env))
        valsv = [self.ev(v, env) for v in node.values]
        ck = [vals.concrete_str(k) if isinstance(k, VStr) else None for k in keys]
        if not keys:
            return self.new_container(VConstDict({}))
        if all(c is not None for c in ck):
            return self.new_container(VConstDict(dict(zip(ck, valsv))))
        raise Unsupported("dict literal with symbolic keys")

    def ev_IfExp(self, node, env):
        c = self.truthy(self.ev(node.test, env))
        if self.spec_mode:
            cb = vals.is_concrete_bool(c)
            if cb is not None:
                return self.ev(node.body if cb else node.orelse, env)
            return vals.ite(c, self.deref(self.ev(node.body, env)), self.deref(self.ev(node.orelse, env)))
        if self.path.branch(c):
            return self.ev(node.body, env)
        return self.ev(node.orelse, env)

    def ev_BoolOp(self, node, env):
        if self.spec_mode:
            terms = [self.truthy(self.ev(v, env)) for v in node.values]
            return VBool(z3.And(terms) if isinstance(node.op, ast.And) else z3.Or(terms))
        v = None
        for i, e in enumerate(node.values):
            v = self.ev(e, env)
            if i == len(node.values) - 1:
                return v
            t = self.truthy(v)
            b = self.path.branch(t)
            if isinstance(node.op, ast.And) and not b:
                return v
            if isinstance(node.op, ast.Or) and b:
                return v
        return v

    def ev_UnaryOp(self, node, env):
        v = self.ev(node.operand, env)
        if isinstance(node.op, ast.Not):
            return VBool(z3.Not(self.truthy(v)))
        if isinstance(node.op, ast.USub) and isinstance(v, VInt):
            return VInt(-v.t)
        raise Unsupported(f"unary {type(node.op).__name__} on {v!r}")

    def ev_Compare(self, node, env):
        left = self.ev(node.left, env)
        conj = []
        for op, rn in zip(node.ops, node.comparators):
            right = self.ev(rn, env)
            conj.append(self.compare(op, left, right))
            left = right
        return VBool(z3.And(conj) if len(conj) > 1 else conj[0])

    def compare(self, op, a: V, b: V):
        if isinstance(a, vals.VBottom) or isinstance(b, vals.VBottom):
            return z3.FreshConst(BOOL, "bottom")
        if isinstance(op, ast.Eq):
            return self.py_eq(a, b)
        if isinstance(op, ast.NotEq):
            return z3.Not(self.py_eq(a, b))
        if isinstance(op, ast.Is):
            return self.py_is(a, b)
        if isinstance(op, ast.IsNot):
            return z3.Not(self.py_is(a, b))
        if isinstance(op, ast.In):
            return self.contains(b, a)
        if isinstance(op, ast.NotIn):
            return z3.Not(self.contains(b, a))
        a, b = self.unwrap_for_arith(a), self.unwrap_for_arith(b)
        if isinstance(a, VInt) and isinstance(b, VInt):
            return {ast.Lt: a.t < b.t, ast.LtE: a.t <= b.t, ast.Gt: a.t > b.t, ast.GtE: a.t >= b.t}[type(op)]
        if isinstance(a, VOpaque) and isinstance(b, VOpaque):
            return self.registry.opaque_compare(self, op, a, b)
        raise Unsupported(f"comparison {type(op).__name__} between {a!r} and {b!r}")

    def unwrap_for_arith(self, v):
        """Using an Optional in arithmetic: None raises TypeError; else the payload."""
        if isinstance(v, VOpt):
            if self.spec_mode:
                return v.val
            if self.path.branch(v.isnone):
                self.raise_builtin("TypeError")
            return v.val
        if isinstance(v, VOpaque) and self.registry.opaques.get(v.cls) is not None and self.registry.opaques[v.cls].as_int:
            return self.registry.opaque_as_int(self, v)
        return v

    def py_eq(self, a, b):
        a2, b2 = self.deref(a), self.deref(b)
        if isinstance(a, VRef) and isinstance(b, VRef) and a2 is a and b2 is b:
            # objects: identity unless the class defines __eq__ (none of the targets do)
            return z3.BoolVal(a.addr == b.addr)
        if isinstance(a2, VConstDict) or isinstance(b2, VConstDict):
            raise Unsupported("equality on concrete dictionaries")
        return vals.eq(a2, b2)

    def py_is(self, a, b):
        if isinstance(b, VNone) or isinstance(a, VNone):
            x = a if isinstance(b, VNone) else b
            if isinstance(x, VNone):
                return z3.BoolVal(True)
            if isinstance(x, VOpt):
                return x.isnone
            return z3.BoolVal(False)
        if isinstance(a, VRef) and isinstance(b, VRef):
            return z3.BoolVal(a.addr == b.addr)
        if isinstance(a, VBool) and isinstance(b, VBool):
            return a.t == b.t
        if isinstance(a, (VClass, VExtClass, VFunc)) or isinstance(b, (VClass, VExtClass, VFunc)):
            return z3.BoolVal(a is b or (type(a) is type(b) and getattr(a, "info", 1) is getattr(b, "info", 2)))
        raise Unsupported(f"`is` between {a!r} and {b!r}")

    def contains(self, container: V, item: V):
        c = self.deref(container)
        if isinstance(c, VOpt) and self.spec_mode:
            c = c.val
        if isinstance(c, VNone) and self.spec_mode:
            return z3.FreshConst(BOOL, "bottom")  # partial spec term under a (necessarily false) guard
        if isinstance(c, VStr):
            if isinstance(item, VOpt) and self.spec_mode:
                item = item.val
            if not isinstance(item, VStr):
                raise Unsupported("non-string `in` string")
            return z3.Contains(c.t, item.t)
        if isinstance(c, (VMap, VSet)):
            if isinstance(c.key, vals.VOptKey):
                return c.has(item)   # None is a possible key of this container
            if isinstance(item, VOpt):
                return z3.And(z3.Not(item.isnone), c.has(item.val))
            if isinstance(item, VNone):
                return z3.BoolVal(False)
            return c.has(item)
        if isinstance(c, VTuple):
            return z3.Or([self.py_eq(item, x) for x in c.items] + [z3.BoolVal(False)])
        if isinstance(c, VList):
            if c.items is not None:
                return z3.Or([self.py_eq(item, x) for x in c.items] + [z3.BoolVal(False)])
            j = z3.FreshConst(INT, "j")
            return z3.Exists([j], z3.And(0 <= j, j < c.n, vals.eq(vals.sel(c.elem, j), item)))
        if isinstance(c, VConstDict):
            cs = vals.concrete_str(item) if isinstance(item, VStr) else None
            if cs is not None:
                return z3.BoolVal(cs in c.items)
            if isinstance(item, VStr):
                return z3.Or([item.t == z3.StringVal(k) for k in c.items if isinstance(k, str)] + [z3.BoolVal(False)])
            if isinstance(item, VOpt):
                return z3.And(z3.Not(item.isnone), self.contains(c, item.val))
            return z3.BoolVal(False)
        if isinstance(container, VRef):
            cell = self.heap()[container.addr]
            if cell.native is not None and hasattr(cell.native, "contains"):
                return cell.native.contains(self, container, item)
        if isinstance(c, VOpaque):
            return self.registry.opaque_contains(self, c, item)
        raise Unsupported(f"`in` on {c!r}")

    def ev_BinOp(self, node, env):
        a = self.ev(node.left, env)
        b = self.ev(node.right, env)
        return self.binop(node.op, a, b)

    def binop(self, op, a, b):
        if isinstance(a, vals.VBottom) or isinstance(b, vals.VBottom):
            return vals.BOTTOM
        if isinstance(op, ast.Mod) and isinstance(a, VStr):
            return self.str_percent(a, b)
        a, b = self.unwrap_for_arith(a), self.unwrap_for_arith(b)
        da, db = self.deref(a), self.deref(b)
        if isinstance(op, ast.Add):
            if isinstance(a, VStr) and isinstance(b, VStr):
                if a.b != b.b:
                    self.raise_builtin("TypeError")
                return VStr(z3.simplify(z3.Concat(a.t, b.t)) if vals.concrete_str(a) is not None and vals.concrete_str(b) is not None else z3.Concat(a.t, b.t), a.b)
            if isinstance(a, VInt) and isinstance(b, VInt):
                return VInt(a.t + b.t)
            if isinstance(da, VList) and isinstance(db, VList):
                if da.items is not None and db.items is not None:
                    return self.new_container(VList(items=da.items + db.items))
                return self.new_container(self.list_concat(da, db))
            if isinstance(a, VTuple) and isinstance(b, VTuple):
                return VTuple(a.items + b.items)
            if isinstance(a, VOpaque) or isinstance(b, VOpaque):
                return self.registry.opaque_binop(self, "add", a, b)
        if isinstance(a, VInt) and isinstance(b, VInt):
            if isinstance(op, ast.Sub):
                return VInt(a.t - b.t)
            if isinstance(op, ast.Mult):
                return VInt(a.t * b.t)
            if isinstance(op, ast.BitOr):
                ca, cb = vals.concrete_int(a), vals.concrete_int(b)
                if ca is not None and cb is not None:
                    return VInt(ca | cb)
            if isinstance(op, ast.FloorDiv):
                return VInt(a.t / b.t)
        if isinstance(op, ast.BitOr) and isinstance(da, VSet) and isinstance(db, VSet):
            k = z3.FreshConst(da.key.leaves()[0].sort(), "k")
            dom = z3.Lambda([k], z3.Or(z3.Select(da.dom, k), z3.Select(db.dom, k)))
            return self.new_container(VSet(da.key, dom))
        if isinstance(op, ast.Sub) and (isinstance(a, VOpaque) or isinstance(b, VOpaque)):
            return self.registry.opaque_binop(self, "sub", a, b)
        raise Unsupported(f"binary {type(op).__name__} between {a!r} and {b!r}")

    def list_concat(self, a: VList, b: VList) -> VList:
        like = a if a.items is None else b
        a2 = vals.coerce(a, like)
        b2 = vals.coerce(b, like)
        n = self.path.const("cat_n", INT)
        out = self.path.fresh_like(VList(n, like.elem), "cat")
        out = VList(n, out.elem)
        j = z3.FreshConst(INT, "j")
        self.path.assume(n == a2.n + b2.n)
        self.path.assume(z3.ForAll([j], z3.Implies(z3.And(0 <= j, j < a2.n), vals.eq(vals.sel(out.elem, j), vals.sel(a2.elem, j)))))
        self.path.assume(z3.ForAll([j], z3.Implies(z3.And(0 <= j, j < b2.n), vals.eq(vals.sel(out.elem, a2.n + j), vals.sel(b2.elem, j)))))
        return out

    def str_percent(self, fmt: VStr, arg: V):
        f = vals.concrete_str(fmt)
        args = arg.items if isinstance(arg, VTuple) else [arg]
        if f is not None and all(isinstance(x, VStr) for x in args) and f.count("%s") == len(args) and f.count("%") == len(args):
            pieces = f.split("%s")
            terms = []
            for i, p in enumerate(pieces):
                if p:
                    terms.append(z3.StringVal(p))
                if i < len(args):
                    terms.append(args[i].t)
            t = z3.Concat(*terms) if len(terms) > 1 else terms[0]
            return VStr(z3.simplify(t) if all(vals.concrete_str(x) is not None for x in args) else t)
        self.path.dropped.add("%-formatting with non-string parts: opaque text")
        return VStr(self.path.const("fmt", STR), fmt.b)

    # ------------------------------------------------------------------ subscripts
    def ev_Subscript(self, node, env):
        base = self.ev(node.value, env)
        if isinstance(node.slice, ast.Slice):
            lo = self.ev(node.slice.lower, env) if node.slice.lower else None
            hi = self.ev(node.slice.upper, env) if node.slice.upper else None
            if node.slice.step is not None:
                raise Unsupported("slice step")
            return self.slice(base, lo, hi)
        idx = self.ev(node.slice, env)
        return self.subscript(base, idx)

    def slice(self, base, lo, hi):
        if isinstance(base, vals.VBottom):
            return vals.BOTTOM
        b = self.deref(base)
        if isinstance(b, VNone) and self.spec_mode:
            return vals.BOTTOM
        if isinstance(b, VOpt):
            if not self.spec_mode and self.path.branch(b.isnone):
                self.raise_builtin("TypeError")
            b = b.val
        if isinstance(b, VStr):
            return strings.slice_model(self, b, lo, hi)
        if isinstance(b, (VList, VTuple)) and getattr(b, "items", None) is not None:
            l = vals.concrete_int(lo) if lo is not None else None
            h = vals.concrete_int(hi) if hi is not None else None
            if (lo is None or l is not None) and (hi is None or h is not None):
                items = b.items[l:h]
                return VTuple(items) if isinstance(b, VTuple) else self.new_container(VList(items=items))
        if isinstance(b, VList) and b.items is None:
            if lo is None and isinstance(hi, VInt) and self.spec_mode:
                # xs[:i] in specifications: prefix view
                n = z3.If(hi.t < 0, z3.IntVal(0), z3.If(hi.t > b.n, b.n, hi.t))
                return VList(n, b.elem)
            if hi is None and isinstance(lo, VInt):
                lo_t = z3.If(lo.t > b.n, b.n, lo.t)
                k = z3.FreshConst(INT, "k")
                elem = b.elem.rebuild([z3.Lambda([k], z3.Select(l, k + lo_t)) for l in b.elem.leaves()])
                out = VList(b.n - lo_t, elem)
                return out if self.spec_mode else self.new_container(out)
        raise Unsupported(f"slice of {b!r}")

    def subscript(self, base, idx):
        if isinstance(base, vals.VBottom) or isinstance(idx, vals.VBottom):
            return vals.BOTTOM
        if isinstance(base, VNone) and self.spec_mode:
            return vals.BOTTOM
        b = self.deref(base)
        if isinstance(b, VOpt):
            if self.spec_mode:
                b = b.val
            else:
                if self.path.branch(b.isnone):
                    self.raise_builtin("TypeError")
                b = b.val
        if isinstance(b, VStr):
            idx = self.unwrap_for_arith(idx)
            return strings.index_model(self, b, idx)
        if isinstance(b, VTuple) or (isinstance(b, VList) and b.items is not None):
            i = vals.concrete_int(idx)
            if i is None:
                raise Unsupported("symbolic index into tuple")
            if not (-len(b.items) <= i < len(b.items)):
                if self.spec_mode:
                    return vals.BOTTOM  # partial term under a (necessarily false) guard
                self.raise_builtin("IndexError")
            return b.items[i]
        if isinstance(b, VList):
            idx = self.unwrap_for_arith(idx)
            i = z3.If(idx.t < 0, b.n + idx.t, idx.t)
            if not self.spec_mode:
                if not self.path.branch(z3.And(0 <= i, i < b.n)):
                    self.raise_builtin("IndexError")
            return b.at(i)
        if isinstance(b, VMap):
            if isinstance(idx, VNone) or (isinstance(idx, VOpt) and not isinstance(b.key, VOpt)):
                if isinstance(idx, VNone):
                    self.raise_builtin("KeyError")
                if not self.spec_mode and self.path.branch(idx.isnone):
                    self.raise_builtin("KeyError")
                idx = idx.val
            if not self.spec_mode:
                if not self.path.branch(b.has(idx)):
                    self.raise_builtin("KeyError")
            return b.get(idx)
        if isinstance(b, VConstDict):
            return self.constdict_get(b, idx)
        if isinstance(base, VRef):
            cell = self.heap()[base.addr]
            if cell.native is not None:
                return cell.native.getitem(self, base, idx)
        if isinstance(b, VOpaque):
            return self.registry.opaque_getitem(self, b, idx)
        if isinstance(b, (VClass, VExtClass)):
            return b  # typing subscripts like dict[str, int]
        raise Unsupported(f"subscript of {b!r}")

    def constdict_get(self, d: VConstDict, idx):
        if isinstance(idx, VOpt):
            if self.path.branch(idx.isnone):
                self.raise_builtin("KeyError")
            idx = idx.val
        cs = vals.concrete_str(idx) if isinstance(idx, VStr) else None
        if cs is not None:
            if cs not in d.items:
                self.raise_builtin("KeyError")
            return d.items[cs]
        if isinstance(idx, VStr):
            keys = [k for k in d.items if isinstance(k, str)]
            conds = [idx.t == z3.StringVal(k) for k in keys]
            conds.append(z3.And([z3.Not(c) for c in conds] + [z3.BoolVal(True)]))
            k = self.path.choose(len(conds), conds)
            if k == len(keys):
                self.raise_builtin("KeyError")
            return d.items[keys[k]]
        self.raise_builtin("KeyError")

    # ------------------------------------------------------------------ attributes
    def ev_Attribute(self, node, env):
        base = self.ev(node.value, env)
        return self.getattr(base, node.attr)

    def ev_Await(self, node, env):
        return self.ev(node.value, env)

    def ev_Lambda(self, node, env):
        return VFunc(node, env.module, closure=[env.locals] + env.closure, name="<lambda>")

    def ev_NamedExpr(self, node, env):
        v = self.ev(node.value, env)
        env.locals[node.target.id] = v
        return v

    def ev_Starred(self, node, env):
        raise Unsupported("starred expression")

    # comprehension support lives in ip_call (needs iteration machinery)
