"""Reads the *real* source under /repo on every run and indexes it by qualified name.

Nothing is imported or executed: only `ast.parse`.  What extraction drops is
listed in DESIGN.md 2.2 (docstrings, annotations, logging calls, message text).
"""

from __future__ import annotations

import ast
import hashlib
import os

REPO_ROOT = os.environ.get("VERIF_REPO", "/repo")


class ClassInfo:
    def __init__(self, name, module, node: ast.ClassDef | None):
        self.name = name
        self.module = module
        self.node = node
        self.methods: dict[str, ast.FunctionDef] = {}
        self.attrs: dict[str, ast.expr] = {}
        self.base_exprs = node.bases if node is not None else []
        self._bases = None
        if node is not None:
            for st in node.body:
                if isinstance(st, (ast.FunctionDef, ast.AsyncFunctionDef)):
                    self.methods[st.name] = st
                elif isinstance(st, ast.Assign) and len(st.targets) == 1 and isinstance(st.targets[0], ast.Name):
                    self.attrs[st.targets[0].id] = st.value
                elif isinstance(st, ast.AnnAssign) and isinstance(st.target, ast.Name) and st.value is not None:
                    self.attrs[st.target.id] = st.value

    @property
    def qualname(self):
        return f"{self.module.name}.{self.name}"

    def bases(self):
        """Resolved bases: ClassInfo or a string naming an external/builtin class."""
        if self._bases is None:
            out = []
            for b in self.base_exprs:
                out.append(self.module.resolve_class_expr(b))
            self._bases = out
        return self._bases

    def mro(self):
        """Linearisation good enough for the repo (C3 is not needed: we only look up
        the first definition depth-first left-to-right, and de-duplicate keeping the
        last occurrence like C3 does for diamonds)."""
        seen = []

        def walk(c):
            seen.append(c)
            if isinstance(c, ClassInfo):
                for b in c.bases():
                    walk(b)

        walk(self)
        out = []
        for i, c in enumerate(seen):
            if c not in seen[i + 1 :]:
                out.append(c)
        return out

    def find_method(self, name):
        for c in self.mro():
            if isinstance(c, ClassInfo) and name in c.methods:
                return c, c.methods[name]
        return None, None

    def find_attr(self, name):
        for c in self.mro():
            if isinstance(c, ClassInfo) and name in c.attrs:
                return c, c.attrs[name]
        return None, None

    def is_subclass_of(self, other) -> bool:
        """other: ClassInfo or external class name string."""
        for c in self.mro():
            if c is other:
                return True
            if isinstance(c, str) and isinstance(other, str) and _ext_subclass(c, other):
                return True
            if isinstance(c, ClassInfo) and isinstance(other, ClassInfo) and c.qualname == other.qualname:
                return True
        return False

    def __repr__(self):
        return f"<class {self.qualname}>"


def _ext_subclass(a: str, b: str) -> bool:
    import builtins

    ca = getattr(builtins, a.split(".")[-1], None) if "." not in a or a.startswith("builtins.") else None
    cb = getattr(builtins, b.split(".")[-1], None) if "." not in b or b.startswith("builtins.") else None
    if isinstance(ca, type) and isinstance(cb, type):
        return issubclass(ca, cb)
    return a == b


def ext_subclass(a: str, b: str) -> bool:
    return _ext_subclass(a, b)


class ModuleInfo:
    def __init__(self, repo: "Repo", name: str, path: str):
        self.repo = repo
        self.name = name
        self.path = path
        with open(path, encoding="utf-8") as f:
            self.source = f.read()
        self.tree = ast.parse(self.source, path)
        self.functions: dict[str, ast.FunctionDef] = {}
        self.classes: dict[str, ClassInfo] = {}
        self.consts: dict[str, ast.expr] = {}
        self.imports: dict[str, tuple] = {}
        self.is_package = os.path.basename(path) == "__init__.py"
        self._index(self.tree.body)

    def _index(self, body):
        for st in body:
            if isinstance(st, (ast.FunctionDef, ast.AsyncFunctionDef)):
                self.functions[st.name] = st
            elif isinstance(st, ast.ClassDef):
                self.classes[st.name] = ClassInfo(st.name, self, st)
            elif isinstance(st, ast.Assign):
                for t in st.targets:
                    if isinstance(t, ast.Name):
                        self.consts[t.id] = st.value
            elif isinstance(st, ast.AnnAssign) and isinstance(st.target, ast.Name) and st.value is not None:
                self.consts[st.target.id] = st.value
            elif isinstance(st, ast.Import):
                for a in st.names:
                    bind = a.asname or a.name.split(".")[0]
                    target = a.name if a.asname else a.name.split(".")[0]
                    self.imports[bind] = ("module", target)
            elif isinstance(st, ast.ImportFrom):
                base = self._resolve_relative(st.module, st.level)
                for a in st.names:
                    self.imports[a.asname or a.name] = ("from", base, a.name)
            elif isinstance(st, (ast.If, ast.Try)):
                # module-level conditionals (compat shims): index every branch; later wins
                for sub in ("body", "orelse", "finalbody"):
                    self._index(getattr(st, sub, []) or [])
                for h in getattr(st, "handlers", []) or []:
                    self._index(h.body)

    def _resolve_relative(self, module, level):
        if level == 0:
            return module
        parts = self.name.split(".")
        if not self.is_package:
            parts = parts[:-1]
        if level > 1:
            parts = parts[: len(parts) - (level - 1)]
        if module:
            parts = parts + module.split(".")
        return ".".join(parts)

    def resolve_class_expr(self, e: ast.expr):
        """Resolve a base-class expression to a ClassInfo or external name string."""
        if isinstance(e, ast.Name):
            if e.id in self.classes:
                return self.classes[e.id]
            if e.id in self.imports:
                imp = self.imports[e.id]
                if imp[0] == "from":
                    m = self.repo.module(imp[1])
                    if m is not None:
                        if imp[2] in m.classes:
                            return m.classes[imp[2]]
                        if imp[2] in m.imports:
                            return m.resolve_class_expr(ast.Name(id=imp[2]))
                    return f"{imp[1]}.{imp[2]}"
            return e.id  # builtin
        if isinstance(e, ast.Attribute):
            base = e.value
            if isinstance(base, ast.Name) and base.id in self.imports:
                imp = self.imports[base.id]
                modname = imp[1] if imp[0] == "module" else f"{imp[1]}.{imp[2]}"
                m = self.repo.module(modname)
                if m is not None and e.attr in m.classes:
                    return m.classes[e.attr]
                return f"{modname}.{e.attr}"
        return ast.unparse(e)


class _SelfAssigns(ast.NodeVisitor):
    def __init__(self):
        self.names = set()

    def _target(self, t):
        if isinstance(t, ast.Attribute) and isinstance(t.value, ast.Name) and t.value.id == "self":
            self.names.add(t.attr)
        elif isinstance(t, (ast.Tuple, ast.List)):
            for e in t.elts:
                self._target(e)

    def visit_Assign(self, node):
        for t in node.targets:
            self._target(t)
        self.generic_visit(node)

    def visit_AugAssign(self, node):
        self._target(node.target)
        self.generic_visit(node)

    def visit_AnnAssign(self, node):
        if node.value is not None:
            self._target(node.target)
        self.generic_visit(node)


class Repo:
    def __init__(self, root: str | None = None):
        self.root = root or REPO_ROOT
        self._mods: dict[str, ModuleInfo | None] = {}

    def module(self, name: str) -> ModuleInfo | None:
        if name in self._mods:
            return self._mods[name]
        if not (name == "xandikos" or name.startswith("xandikos.")):
            self._mods[name] = None
            return None
        rel = name.replace(".", "/")
        for cand in (f"{self.root}/{rel}.py", f"{self.root}/{rel}/__init__.py"):
            if os.path.exists(cand):
                self._mods[name] = ModuleInfo(self, name, cand)
                return self._mods[name]
        self._mods[name] = None
        return None

    def lookup(self, qualname: str):
        """'pkg.mod.func' | 'pkg.mod.Class.method' -> (module, classinfo|None, FunctionDef)."""
        if ".<locals>." in qualname:
            # a function defined inside another one: 'pkg.mod.Class.method.<locals>.inner'
            outer, inner = qualname.split(".<locals>.", 1)
            m, ci, fn = self.lookup(outer)
            if fn is None or "." in inner:
                return None, None, None
            found = [n for n in ast.walk(fn) if isinstance(n, (ast.FunctionDef, ast.AsyncFunctionDef)) and n.name == inner and n is not fn]
            if len(found) != 1:
                return None, None, None
            return m, None, found[0]
        parts = qualname.split(".")
        for cut in range(len(parts) - 1, 0, -1):
            m = self.module(".".join(parts[:cut]))
            if m is None:
                continue
            rest = parts[cut:]
            if len(rest) == 1 and rest[0] in m.functions:
                return m, None, m.functions[rest[0]]
            if len(rest) == 2 and rest[0] in m.classes:
                ci = m.classes[rest[0]]
                if rest[1] in ci.methods:
                    return m, ci, ci.methods[rest[1]]
            if len(rest) == 1 and rest[0] in m.classes:
                return m, m.classes[rest[0]], None
        return None, None, None

    def assigns_instance_attr(self, name: str) -> bool:
        """Does any method anywhere in the repository sources rebind `self.<name>`?  (Scanned
        over all of xandikos/*.py, tests excluded; conservative: not per class.)"""
        if not hasattr(self, "_self_assigns"):
            v = _SelfAssigns()
            base = os.path.join(self.root, "xandikos")
            for d, dirs, files in os.walk(base):
                dirs[:] = [x for x in dirs if x not in ("tests", "__pycache__")]
                for f in files:
                    if f.endswith(".py"):
                        try:
                            with open(os.path.join(d, f)) as fh:
                                v.visit(ast.parse(fh.read()))
                        except SyntaxError:
                            pass
            self._self_assigns = v.names
        return name in self._self_assigns

    def lookup_class(self, qualname: str) -> ClassInfo | None:
        mod, _, cls = qualname.rpartition(".")
        m = self.module(mod)
        if m is None:
            return None
        return m.classes.get(cls)


def source_hash(node: ast.AST) -> str:
    """Hash of the function *as extracted* (docstrings and annotations removed)."""
    return hashlib.sha256(ast.dump(strip(node), include_attributes=False).encode()).hexdigest()[:16]


class _Strip(ast.NodeTransformer):
    def visit_FunctionDef(self, node):
        self.generic_visit(node)
        node.returns = None
        if (
            node.body
            and isinstance(node.body[0], ast.Expr)
            and isinstance(node.body[0].value, ast.Constant)
            and isinstance(node.body[0].value.value, str)
        ):
            node.body = node.body[1:] or [ast.Pass()]
        return node

    visit_AsyncFunctionDef = visit_FunctionDef

    def visit_arg(self, node):
        node.annotation = None
        return node

    def visit_AnnAssign(self, node):
        self.generic_visit(node)
        if node.value is None:
            return ast.Pass()
        return ast.Assign(targets=[node.target], value=node.value, lineno=node.lineno)


def strip(node: ast.AST) -> ast.AST:
    import copy

    return _Strip().visit(copy.deepcopy(node))
