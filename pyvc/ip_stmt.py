"""Statement execution, loops cut at invariants."""

from __future__ import annotations

import ast
import z3

from .values import *  # noqa: F401,F403
from .values import (
    V, VNone, NONE, VBool, VInt, VStr, VOpt, VTuple, VList, VMap, VSet, VRef, VOpaque,
    Unsupported, STR, INT, BOOL,
)
from . import values as vals
from .callables import *  # noqa: F401,F403
from .core import (
    Cell, RaiseSignal, ReturnSignal, BreakSignal, ContinueSignal, PathEnd,
)
from .ip_expr import Env
from .loader import ClassInfo

MUTATORS = {
    "append", "add", "remove", "extend", "update", "pop", "setdefault", "clear",
    "popleft", "appendleft", "discard", "insert",
}


def loops_of(fn_node):
    """Loops of a function in source order (not descending into nested defs)."""
    out = []

    def walk(stmts):
        for st in stmts:
            if isinstance(st, (ast.FunctionDef, ast.AsyncFunctionDef, ast.ClassDef)):
                continue
            if isinstance(st, (ast.For, ast.AsyncFor, ast.While)):
                out.append(st)
            for f in ("body", "orelse", "finalbody"):
                sub = getattr(st, f, None)
                if sub:
                    walk(sub)
            for h in getattr(st, "handlers", []) or []:
                walk(h.body)

    walk(fn_node.body if isinstance(fn_node.body, list) else [])
    return out


def has_yield(fn_node):
    for n in ast.walk(fn_node):
        if n is fn_node:
            continue
        if isinstance(n, (ast.Yield, ast.YieldFrom)):
            # make sure it is not inside a nested def/lambda
            return _yield_directly_in(fn_node)
    return False


def _yield_directly_in(fn_node):
    found = False

    def walk(n):
        nonlocal found
        for c in ast.iter_child_nodes(n):
            if isinstance(c, (ast.FunctionDef, ast.AsyncFunctionDef, ast.Lambda, ast.ClassDef)):
                continue
            if isinstance(c, (ast.Yield, ast.YieldFrom)):
                found = True
            walk(c)

    walk(fn_node)
    return found


def assigned_names(stmts):
    names = set()

    def tgt(t):
        if isinstance(t, ast.Name):
            names.add(t.id)
        elif isinstance(t, (ast.Tuple, ast.List)):
            for e in t.elts:
                tgt(e)
        elif isinstance(t, ast.Starred):
            tgt(t.value)

    def walk(n):
        for c in ast.iter_child_nodes(n):
            if isinstance(c, (ast.FunctionDef, ast.AsyncFunctionDef)):
                names.add(c.name)
                continue
            if isinstance(c, (ast.Lambda, ast.ClassDef)):
                continue
            if isinstance(c, ast.Assign):
                for t in c.targets:
                    tgt(t)
            elif isinstance(c, (ast.AugAssign, ast.AnnAssign)):
                tgt(c.target)
            elif isinstance(c, (ast.For, ast.AsyncFor)):
                tgt(c.target)
            elif isinstance(c, ast.With):
                for i in c.items:
                    if i.optional_vars is not None:
                        tgt(i.optional_vars)
            elif isinstance(c, ast.ExceptHandler) and c.name:
                names.add(c.name)
            elif isinstance(c, ast.NamedExpr):
                tgt(c.target)
            walk(c)

    for s in stmts:
        walk(ast.Module(body=[s], type_ignores=[]))
    return names


def mutated_exprs(stmts):
    """Expressions (Name / attribute chains) whose referent is mutated in place."""
    out = []

    def simple(e):
        while isinstance(e, ast.Attribute):
            e = e.value
        return isinstance(e, ast.Name)

    for s in stmts:
        for n in ast.walk(s):
            if isinstance(n, (ast.Assign, ast.AugAssign, ast.Delete)):
                tg = n.targets if hasattr(n, "targets") else [n.target]
                for t in tg:
                    if isinstance(t, ast.Subscript) and simple(t.value):
                        out.append(t.value)
                    if isinstance(t, ast.Attribute) and simple(t.value):
                        out.append(t)
            if isinstance(n, ast.Call) and isinstance(n.func, ast.Attribute) and n.func.attr in MUTATORS:
                if simple(n.func.value):
                    out.append(n.func.value)
    return out


class StmtMixin:
    def exec_block(self, stmts, env: Env):
        for st in stmts:
            self.exec(st, env)

    def exec(self, st, env: Env):
        self.cur_line = getattr(st, "lineno", self.cur_line)
        m = getattr(self, "ex_" + type(st).__name__, None)
        if m is None:
            raise Unsupported(f"statement {type(st).__name__} at line {self.cur_line}")
        m(st, env)

    def ex_Pass(self, st, env):
        pass

    def ex_Expr(self, st, env):
        if isinstance(st.value, ast.Constant):
            return
        if isinstance(st.value, ast.Yield):
            self.do_yield(st.value, env)
            return
        if isinstance(st.value, ast.YieldFrom):
            self.do_yield_from(st.value, env)
            return
        self.ev(st.value, env)

    def ex_Return(self, st, env):
        v = self.ev(st.value, env) if st.value is not None else NONE
        raise ReturnSignal(v)

    def ex_Assign(self, st, env):
        if isinstance(st.value, ast.Yield):
            raise Unsupported("yield used as expression")
        v = self.ev(st.value, env)
        v = self._typed_empty_for_local(st.targets, v)
        for t in st.targets:
            self.assign(t, v, env)

    def _typed_empty_for_local(self, targets, v):
        """`x = set()` for a local whose kind the contract declares: the empty set of that kind
        (an untyped empty set would take its key sort from the first element added)."""
        if (len(targets) == 1 and isinstance(targets[0], ast.Name) and isinstance(v, VRef) and v.addr in self.untyped_empty
                and self.frames):
            kind = self.frames[-1].local_kind(targets[0].id)
            if kind is not None and kind.startswith("set["):
                tmpl = vals.fresh(kind, "tmpl")
                self.untyped_empty.discard(v.addr)
                self.path.heap[v.addr].val = VSet(tmpl.key, z3.K(tmpl.key.leaves()[0].sort(), z3.BoolVal(False)))
        return v

    def ex_AnnAssign(self, st, env):
        if st.value is not None:
            self.assign(st.target, self.ev(st.value, env), env)

    def ex_AugAssign(self, st, env):
        cur = self.ev(self._as_load(st.target), env)
        cd = self.deref(cur)
        if isinstance(st.op, ast.Add) and isinstance(cur, VRef) and isinstance(cd, VList):
            # list += iterable mutates in place
            self.call_method(cur, "extend", [self.ev(st.value, env)], {})
            return
        v = self.binop(st.op, cur, self.ev(st.value, env))
        self.assign(st.target, v, env)

    def _as_load(self, t):
        import copy

        t2 = copy.copy(t)
        t2.ctx = ast.Load()
        return t2

    def assign(self, t, v: V, env: Env):
        if isinstance(t, ast.Name):
            if t.id in env.globals_decl:
                raise Unsupported("assignment to global")
            for c in env.closure:
                if t.id in getattr(env, "nonlocals", ()):  # pragma: no cover
                    c[t.id] = v
                    return
            env.locals[t.id] = v
        elif isinstance(t, (ast.Tuple, ast.List)):
            items = self.unpack(v, len(t.elts))
            for e, x in zip(t.elts, items):
                self.assign(e, x, env)
        elif isinstance(t, ast.Attribute):
            obj = self.ev(t.value, env)
            self.setattr(obj, t.attr, v)
        elif isinstance(t, ast.Subscript):
            base = self.ev(t.value, env)
            if isinstance(t.slice, ast.Slice):
                raise Unsupported("slice assignment")
            idx = self.ev(t.slice, env)
            if not isinstance(base, VRef) and isinstance(base, VMap) and isinstance(t.value, ast.Subscript):
                # d[a][b] = v where the inner map is held by value inside the outer one: update
                # the inner map and write it back (d[a] raising KeyError happened in ev above)
                vd = self.deref(v)
                if isinstance(v, VRef) and isinstance(vd, (VMap, VList, VSet)):
                    v = vd
                if isinstance(idx, VOpt) and not isinstance(base.key, VOpt):
                    if self.path.branch(idx.isnone):
                        raise Unsupported("None used as key of a str-keyed map")
                    idx = idx.val
                self.assign(t.value, base.put(idx, vals.coerce(v, vals.sel(base.val, vals.key_term(base, idx)))), env)
                return
            self.setitem(base, idx, v)
        else:
            raise Unsupported(f"assignment target {type(t).__name__}")

    def unpack(self, v: V, n: int):
        d = self.deref(v)
        if isinstance(d, VOpt):
            if self.path.branch(d.isnone):
                self.raise_builtin("TypeError")
            d = d.val
        if isinstance(d, VTuple):
            if len(d.items) != n:
                self.raise_builtin("ValueError")
            return d.items
        if isinstance(d, VList):
            if d.items is not None:
                if len(d.items) != n:
                    self.raise_builtin("ValueError")
                return d.items
            if not self.path.branch(d.n == n):
                self.raise_builtin("ValueError")
            return [d.at(z3.IntVal(i)) for i in range(n)]
        if isinstance(d, VOpaque):
            seq = self.iter_seq(d)
            return self.unpack(seq, n)
        raise Unsupported(f"cannot unpack {d!r}")

    def setitem(self, base, idx, v):
        b = self.deref(base)
        if isinstance(base, VRef) and isinstance(b, VMap):
            if isinstance(idx, VOpt) and not isinstance(b.key, VOpt):
                if self.path.branch(idx.isnone):
                    raise Unsupported("None used as key of a str-keyed map")
                idx = idx.val
            vd = self.deref(v)
            if isinstance(b.val, VMap) and isinstance(vd, VConstDict) and not vd.items:
                # d[k] = {} into a map of maps: the empty map of the inner kind
                inner = vals.sel(b.val, vals.key_term(b, idx))
                v = VMap(inner.key, z3.K(inner.ksort(), z3.BoolVal(False)), vals.dummy_like(inner.val))
            elif isinstance(vd, (VMap, VList, VSet)) and isinstance(v, VRef):
                v = vd  # containers stored in a map are held by value (no aliasing through the map)
            self.set_container(base, b.put(idx, v))
            return
        if isinstance(base, VRef) and isinstance(b, VConstDict):
            cs = vals.concrete_str(idx) if isinstance(idx, VStr) else None
            if cs is None:
                # first symbolic key: turn an empty literal dict into a symbolic map
                if not b.items:
                    m = self.empty_map(idx, v)
                    self.set_container(base, m.put(idx, v))
                    return
                raise Unsupported("symbolic key stored into a concrete dictionary")
            items = dict(b.items)
            items[cs] = v
            self.set_container(base, VConstDict(items))
            return
        if isinstance(base, VRef) and isinstance(b, VList):
            if b.items is not None:
                i = vals.concrete_int(idx)
                if i is None:
                    raise Unsupported("symbolic index store into concrete list")
                items = list(b.items)
                items[i] = v
                self.set_container(base, VList(items=items))
            else:
                self.set_container(base, VList(b.n, vals.sto(b.elem, idx.t, v)))
            return
        if isinstance(base, VRef):
            cell = self.heap()[base.addr]
            if cell.native is not None:
                cell.native.setitem(self, base, idx, v)
                return
        if isinstance(b, VOpaque):
            self.registry.opaque_setitem(self, b, idx, v)
            return
        raise Unsupported(f"item assignment on {b!r}")

    def empty_map(self, key_like: V, val_like: V) -> VMap:
        if isinstance(key_like, VOpt):
            key_like = key_like.val
        ks = key_like.leaves()[0].sort()
        val_like = self.deref(val_like)
        return VMap(
            vals.dummy_like(key_like),
            z3.K(ks, z3.BoolVal(False)),
            vals.lift_const(vals.dummy_like(val_like), ks),
        )

    def ex_Delete(self, st, env):
        for t in st.targets:
            if isinstance(t, ast.Subscript):
                base = self.ev(t.value, env)
                idx = self.ev(t.slice, env)
                self.delitem(base, idx)
            elif isinstance(t, ast.Name):
                env.locals[t.id] = None
            else:
                raise Unsupported("del of attribute")

    def delitem(self, base, idx):
        b = self.deref(base)
        if isinstance(base, VRef) and isinstance(b, VMap):
            if isinstance(idx, VOpt):
                if self.path.branch(idx.isnone):
                    self.raise_builtin("KeyError")
                idx = idx.val
            if not self.path.branch(b.has(idx)):
                self.raise_builtin("KeyError")
            self.set_container(base, b.remove(idx))
            return
        if isinstance(base, VRef):
            cell = self.heap()[base.addr]
            if cell.native is not None:
                cell.native.delitem(self, base, idx)
                return
        if isinstance(b, VOpaque):
            self.registry.opaque_delitem(self, b, idx)
            return
        raise Unsupported(f"del item on {b!r}")

    def ex_If(self, st, env):
        c = self.truthy(self.ev(st.test, env))
        if self.path.branch(c):
            self.narrow(st.test, env, True)
            self.exec_block(st.body, env)
        else:
            self.narrow(st.test, env, False)
            self.exec_block(st.orelse, env)

    def narrow(self, test, env, truth):
        """Optional[T] locals known not to be None on this branch become plain T."""
        if isinstance(test, ast.UnaryOp) and isinstance(test.op, ast.Not):
            return self.narrow(test.operand, env, not truth)
        if isinstance(test, ast.BoolOp):
            if (isinstance(test.op, ast.And) and truth) or (isinstance(test.op, ast.Or) and not truth):
                for v in test.values:
                    self.narrow(v, env, truth)
            return
        name = None
        notnone = False
        if isinstance(test, ast.Name):
            name, notnone = test.id, truth
        elif (isinstance(test, ast.Compare) and len(test.ops) == 1 and isinstance(test.left, ast.Name)
              and isinstance(test.comparators[0], ast.Constant) and test.comparators[0].value is None):
            name = test.left.id
            if isinstance(test.ops[0], ast.IsNot):
                notnone = truth
            elif isinstance(test.ops[0], ast.Is):
                notnone = not truth
        if name and notnone and isinstance(env.locals.get(name), VOpt):
            env.locals[name] = env.locals[name].val

    def ex_Assert(self, st, env):
        c = self.truthy(self.ev(st.test, env))
        if not self.path.branch(c):
            self.raise_builtin("AssertionError")
        self.narrow(st.test, env, True)

    def ex_Raise(self, st, env):
        if st.exc is None:
            if self.current_exc:
                raise RaiseSignal(self.current_exc[-1])
            self.raise_builtin("RuntimeError")
        e = self.ev(st.exc, env)
        if isinstance(e, (VClass, VExtClass)):
            e = self.call(e, [], {})
        if not isinstance(e, VRef):
            raise Unsupported(f"raise of {e!r}")
        if st.cause is not None:
            self.ev(st.cause, env)
        raise RaiseSignal(e)

    def ex_Break(self, st, env):
        raise BreakSignal()

    def ex_Continue(self, st, env):
        raise ContinueSignal()

    def ex_Global(self, st, env):
        env.globals_decl.update(st.names)

    def ex_Nonlocal(self, st, env):
        raise Unsupported("nonlocal")

    def ex_Import(self, st, env):
        for a in st.names:
            env.locals[a.asname or a.name.split(".")[0]] = VModule(a.name if a.asname else a.name.split(".")[0])

    def ex_ImportFrom(self, st, env):
        base = env.module._resolve_relative(st.module, st.level)
        for a in st.names:
            env.locals[a.asname or a.name] = self.module_attr(base, a.name)

    def ex_FunctionDef(self, st, env):
        env.locals[st.name] = VFunc(st, env.module, closure=[env.locals] + env.closure, name=st.name)

    ex_AsyncFunctionDef = ex_FunctionDef

    def ex_ClassDef(self, st, env):
        from .loader import ClassInfo

        ci = ClassInfo(st.name, env.module, st)
        ci.local_env = env
        env.locals[st.name] = VClass(ci)

    # ------------------------------------------------------------------ try / with
    def ex_Try(self, st, env):
        try:
            try:
                self.exec_block(st.body, env)
            except RaiseSignal as rs:
                handled = False
                for h in st.handlers:
                    if h.type is None or self.exc_matches(rs.exc, self.ev(h.type, env)):
                        handled = True
                        if h.name:
                            env.locals[h.name] = rs.exc
                        self.current_exc.append(rs.exc)
                        try:
                            self.exec_block(h.body, env)
                        finally:
                            self.current_exc.pop()
                        break
                if not handled:
                    raise
            else:
                self.exec_block(st.orelse, env)
        except PathEnd:
            raise
        except (RaiseSignal, ReturnSignal, BreakSignal, ContinueSignal):
            if st.finalbody:
                self.exec_block(st.finalbody, env)
            raise
        else:
            if st.finalbody:
                self.exec_block(st.finalbody, env)

    def ex_With(self, st, env):
        self._with(st.items, st.body, env)

    ex_AsyncWith = ex_With

    def _with(self, items, body, env):
        if not items:
            self.exec_block(body, env)
            return
        item = items[0]
        cm = self.ev(item.context_expr, env)
        entered = self.call_method(cm, "__enter__", [], {})
        if item.optional_vars is not None:
            self.assign(item.optional_vars, entered, env)
        try:
            self._with(items[1:], body, env)
        except PathEnd:
            raise
        except RaiseSignal as rs:
            cls = self.class_of(rs.exc)
            r = self.call_method(cm, "__exit__", [cls, rs.exc, NONE], {})
            if self.path.branch(self.truthy(r)):
                return
            raise
        except (ReturnSignal, BreakSignal, ContinueSignal):
            self.call_method(cm, "__exit__", [NONE, NONE, NONE], {})
            raise
        else:
            self.call_method(cm, "__exit__", [NONE, NONE, NONE], {})

    # ------------------------------------------------------------------ yields
    def do_yield(self, node, env):
        v = self.ev(node.value, env) if node.value is not None else NONE
        fr = self.frames[-1]
        if fr.yielded is None:
            raise Unsupported("yield outside generator frame")
        y = fr.yielded
        if y.items is not None:
            fr.yielded = VList(items=y.items + [v])
        else:
            fr.yielded = VList(y.n + 1, vals.sto(y.elem, y.n, self.dataify(v)))

    def do_yield_from(self, node, env):
        v = self.ev(node.value, env)
        seq = self.iter_seq(v)
        fr = self.frames[-1]
        y = fr.yielded
        if seq.items is not None and y.items is not None:
            fr.yielded = VList(items=y.items + seq.items)
        else:
            like = y if y.items is None else seq
            if like.items is not None:
                raise Unsupported("yield from with unknown element shape")
            fr.yielded = self.list_concat(vals.coerce(y, like), vals.coerce(seq, like))

    # ------------------------------------------------------------------ loops
    def ex_For(self, st, env):
        itv = self.ev(st.iter, env)
        seq = self.iter_seq(itv)
        fr = self.frames[-1]
        ordinal = fr.loop_ordinal(st)
        inv = fr.invariant(ordinal)
        if inv is None:
            if seq.items is not None:
                broke = False
                for x in seq.items:
                    self.assign(st.target, x, env)
                    try:
                        self.exec_block(st.body, env)
                    except ContinueSignal:
                        continue
                    except BreakSignal:
                        broke = True
                        break
                if not broke:
                    self.exec_block(st.orelse, env)
                return
            raise Unsupported(
                f"loop #{ordinal} at line {st.lineno} of {fr.qualname} iterates a symbolic sequence and has no invariant"
            )
        if seq.items is not None:
            seq = self.generalize_list(seq, fr, ordinal)
        n = seq.n
        self.path.assume(n >= 0)

        def inv_at(i):
            return self.eval_invariant(fr, inv, env, {"_i": VInt(i), "_seq": seq})

        self.path.oblige(f"{fr.qualname}#inv{ordinal}:init", inv_at(z3.IntVal(0)), line=st.lineno, kind="inv-init")
        self.havoc_loop(st, env, fr, ordinal)
        k = self.path.choose(2, label=f"loop{ordinal}")
        if k == 0:
            i = self.path.const(f"i{ordinal}", INT)
            self.path.assume(z3.And(0 <= i, i < n))
            self.path.assume(inv_at(i))
            self.assign(st.target, seq.at(i), env)
            try:
                self.exec_block(st.body, env)
            except ContinueSignal:
                pass
            except BreakSignal:
                return
            self.path.oblige(f"{fr.qualname}#inv{ordinal}:step", inv_at(i + 1), line=st.lineno, kind="inv-step")
            raise PathEnd()
        else:
            self.path.assume(inv_at(n))
            self.exec_block(st.orelse, env)

    ex_AsyncFor = ex_For

    def ex_While(self, st, env):
        fr = self.frames[-1]
        ordinal = fr.loop_ordinal(st)
        inv = fr.invariant(ordinal)
        if inv is None:
            raise Unsupported(f"while loop #{ordinal} at line {st.lineno} of {fr.qualname} has no invariant")

        def inv_now():
            return self.eval_invariant(fr, inv, env, {})

        self.path.oblige(f"{fr.qualname}#inv{ordinal}:init", inv_now(), line=st.lineno, kind="inv-init")
        self.havoc_loop(st, env, fr, ordinal)
        self.path.assume(inv_now())
        c = self.truthy(self.ev(st.test, env))
        if self.path.branch(c):
            try:
                self.exec_block(st.body, env)
            except ContinueSignal:
                pass
            except BreakSignal:
                return
            self.path.oblige(f"{fr.qualname}#inv{ordinal}:step", inv_now(), line=st.lineno, kind="inv-step")
            raise PathEnd()
        else:
            self.exec_block(st.orelse, env)

    def generalize_list(self, seq: VList, fr, ordinal) -> VList:
        if not seq.items:
            raise Unsupported(f"loop #{ordinal}: cannot infer element shape of an empty concrete list")
        like0 = seq.items[0]
        elem = vals.lift_const(vals.dummy_like(like0), INT)
        for i, it in enumerate(seq.items):
            elem = vals.sto(elem, z3.IntVal(i), it)
        return VList(z3.IntVal(len(seq.items)), elem)

    def havoc_loop(self, st, env, fr, ordinal):
        names = assigned_names(st.body)
        if isinstance(st, (ast.For, ast.AsyncFor)):
            names |= assigned_names([ast.Assign(targets=[st.target], value=ast.Constant(value=None))])
        for nme in sorted(names):
            if nme in env.locals and env.locals[nme] is not None:
                v = env.locals[nme]
                dk = fr.local_kind(nme)
                if dk is not None and isinstance(v, (VNone, VOpt)) and dk.startswith("opt["):
                    # a variable that is None before the loop and rebound inside it: its declared kind
                    # says what it may hold at the loop head (havocking the concrete None would keep it None)
                    env.locals[nme] = self.fresh_value(dk, nme)
                    continue
                if isinstance(v, VNone):
                    raise Unsupported(f"loop #{ordinal} rebinds {nme!r}, which is None before the loop: declare its kind in `locals`")
                if isinstance(v, VRef):
                    cell = self.path.heap[v.addr]
                    if cell.val is not None:
                        # rebinding a container variable inside a loop: give it a fresh cell
                        env.locals[nme] = self.new_container(self.havoc_value(cell.val, nme))
                        continue
                    raise Unsupported(f"loop #{ordinal} rebinds object variable {nme!r}")
                env.locals[nme] = self.havoc_value(v, nme)
            else:
                kind = fr.local_kind(nme)
                if kind is not None:
                    env.locals[nme] = self.fresh_value(kind, nme)
                else:
                    env.locals[nme] = None  # unbound until assigned in the body
            lv = env.locals.get(nme)
            if isinstance(lv, VRef) and self.path.heap[lv.addr].val is not None:
                # a container the function itself created for a local: not part of the caller-visible
                # state the frame condition speaks about
                self.local_cells.add(lv.addr)
        for e in mutated_exprs(st.body):
            try:
                saved = self.path.assumptions[:]
                ref = self.ev(e, env)
            except (RaiseSignal, Unsupported):
                continue
            if isinstance(ref, VRef):
                cell = self.path.heap[ref.addr]
                if cell.val is not None:
                    kind = fr.local_kind(e.id) if isinstance(e, ast.Name) else None
                    if kind is not None and (isinstance(cell.val, VConstDict) or (isinstance(cell.val, VList) and cell.val.items is not None)):
                        fv = vals.fresh(kind, self.path.name(e.id))
                        for f_ in vals.wellformed(fv):
                            self.path.assume(f_)
                        cell.val = fv
                    else:
                        cell.val = self.havoc_value(cell.val, "loop")
                elif isinstance(e, ast.Attribute):
                    pass
            if isinstance(e, ast.Attribute):
                try:
                    owner = self.ev(e.value, env)
                except (RaiseSignal, Unsupported):
                    continue
                if isinstance(owner, VRef) and e.attr in self.path.heap[owner.addr].fields:
                    cur = self.path.heap[owner.addr].fields[e.attr]
                    if not isinstance(cur, VRef) and not isinstance(cur, (VFunc, VBound, VNative, VClass)):
                        self.path.heap[owner.addr].fields[e.attr] = self.havoc_value(cur, e.attr)
        for target in fr.loop_modifies(ordinal):
            self.havoc_path(target, env)
        if fr.yielded is not None and _yield_directly_in(ast.Module(body=st.body, type_ignores=[])):
            y = fr.yielded
            if y.items is not None:
                kind = fr.yield_kind()
                if kind is None:
                    raise Unsupported(f"{fr.qualname}: generator loop needs a declared `yields` kind")
                tmpl = vals.fresh("list[" + kind + "]", "tmpl")
                y = vals.coerce(VList(items=[self.dataify(x) for x in y.items]), tmpl) if y.items else VList(z3.IntVal(0), vals.lift_const(vals.dummy_like(vals.sel(tmpl.elem, z3.IntVal(0))), INT))
            hv = self.path.fresh_like(y, "yielded")
            self.path.assume(hv.n >= 0)
            fr.yielded = hv

    def havoc_value(self, v: V, base: str) -> V:
        if isinstance(v, VConstDict):
            raise Unsupported("havoc of a concrete dictionary (needs a declared kind)")
        if isinstance(v, VList) and v.items is not None:
            raise Unsupported(f"havoc of concrete-shaped list {base!r} (declare its kind in `locals`)")
        if isinstance(v, (VFunc, VBound, VNative, VClass, VExtClass, VModule, VNone)):
            return v
        out = self.path.fresh_like(v, base)
        for f in vals.wellformed(out):
            self.path.assume(f)
        return out

    def havoc_path(self, target: str, env):
        """target like 'self._uid_to_fname' or 'removed'."""
        if target == "fs()":
            from .models import fsmodels

            addr = fsmodels.fs_cell(self)
            cell = self.path.heap[addr]
            for k in list(cell.fields):
                cell.fields[k] = self.path.const("fs.havoc", cell.fields[k].sort())
            return
        expr = ast.parse(target, mode="eval").body
        if isinstance(expr, ast.Attribute):
            owner0 = self.ev(expr.value, env)
            if isinstance(owner0, VRef) and isinstance(self.path.heap[owner0.addr].cls, ClassInfo):
                vw = self.registry.view_for(self.path.heap[owner0.addr].cls, expr.attr)
                if vw is not None:
                    setter = self.registry.view_setters.get(vw)
                    if setter is None:
                        raise Unsupported(f"{target} is a derived view and cannot be havocked")
                    cur = self.deref(self.registry.spec_natives[vw](self, [owner0], {}))
                    setter(self, owner0, self.havoc_value(cur, target))
                    return
        ref = self.ev(expr, env)
        if isinstance(ref, VRef):
            cell = self.path.heap[ref.addr]
            if cell.val is not None:
                cell.val = self.havoc_value(cell.val, target)
                return
            if cell.native is not None and hasattr(cell.native, "havoc"):
                cell.native.havoc(self, ref)
                return
        if isinstance(expr, ast.Attribute):
            owner = self.ev(expr.value, env)
            if isinstance(owner, VRef):
                cur = self.path.heap[owner.addr].fields.get(expr.attr)
                if cur is not None:
                    self.path.heap[owner.addr].fields[expr.attr] = self.havoc_value(cur, target)
                    return
        if isinstance(expr, ast.Name) and expr.id in env.locals:
            env.locals[expr.id] = self.havoc_value(env.locals[expr.id], target)
            return
        raise Unsupported(f"cannot havoc {target!r}")
