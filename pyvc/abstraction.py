"""String-sort abstraction for fast discharge.

Every obligation is first tried with the SMT String sort replaced by an
uninterpreted sort and every interpreted string operation replaced by an
uninterpreted function (string literals become pairwise-distinct constants).
Validity of the abstracted formula implies validity of the original one (it holds
in *all* interpretations of the symbols, in particular in the string one), so a
`proved` verdict is sound.  A `sat` answer on the abstraction is only believed when
the formula contained no interpreted string operation at all (then the two are
equisatisfiable because the string domain is infinite); otherwise the precise
query is run."""

from __future__ import annotations

import z3

U = z3.DeclareSort("StrU")
STR = z3.StringSort()

_INTERP_KINDS = None


class Abstractor:
    def __init__(self):
        self.memo = {}
        self.sorts = {}
        self.funcs = {}
        self.lits = {}
        self.interpreted_used = False
        self.extra = []

    def sort(self, s):
        k = s.sexpr() if hasattr(s, "sexpr") else str(s)
        if k in self.sorts:
            return self.sorts[k]
        if s == STR:
            r = U
        elif s.kind() == z3.Z3_ARRAY_SORT:
            r = z3.ArraySort(self.sort(s.domain()), self.sort(s.range()))
        elif s.kind() in (z3.Z3_SEQ_SORT, z3.Z3_RE_SORT):
            raise ValueError("sequence/regex sort outside a string predicate")
        else:
            r = s
        self.sorts[k] = r
        return r

    def func(self, d, prefix=""):
        key = (prefix, d.name(), tuple(str(d.domain(i)) for i in range(d.arity())), str(d.range()))
        if key not in self.funcs:
            doms = [self.sort(d.domain(i)) for i in range(d.arity())]
            self.funcs[key] = z3.Function(prefix + d.name(), *doms, self.sort(d.range()))
        return self.funcs[key]

    def lit(self, s):
        if s not in self.lits:
            self.lits[s] = z3.Const(f"lit!{len(self.lits)}", U)
        return self.lits[s]

    def tr(self, e):
        k = e.get_id()
        if k in self.memo:
            return self.memo[k][1]
        r = self._tr(e)
        self.memo[k] = (e, r)  # keep e alive: z3 recycles ast ids
        return r

    def _tr(self, e):
        if z3.is_quantifier(e):
            n = e.num_vars()
            vs = [z3.FreshConst(e.var_sort(i), "q") for i in range(n)]
            body = z3.substitute_vars(e.body(), *reversed(vs))
            nb = self.tr(body)
            nvs = [self.tr(v) for v in vs]
            if e.is_forall():
                return z3.ForAll(nvs, nb)
            if e.is_exists():
                return z3.Exists(nvs, nb)
            return z3.Lambda(nvs, nb)
        if z3.is_var(e):
            raise ValueError("free de Bruijn variable")
        if z3.is_string_value(e):
            return self.lit(e.as_string())
        if not z3.is_app(e):
            raise ValueError(f"cannot abstract {e}")
        d = e.decl()
        kind = d.kind()
        args = e.children()
        if e.num_args() == 0:
            if kind == z3.Z3_OP_UNINTERPRETED:
                return z3.Const(d.name(), self.sort(e.sort()))
            return e  # true/false/numerals
        if kind == z3.Z3_OP_UNINTERPRETED:
            return self.func(d)(*[self.tr(a) for a in args])
        involves_str = any(self._has_str(a.sort()) for a in args) or self._has_str(e.sort())
        if not involves_str:
            return d(*[self.tr(a) for a in args]) if not self._poly(kind) else self._rebuild(e, [self.tr(a) for a in args])
        if self._poly(kind):
            return self._rebuild(e, [self.tr(a) for a in args])
        # interpreted string / regex operation: abstract as UF over translated args;
        # regex arguments are folded into the function name
        self.interpreted_used = True
        name = d.name()
        targs = []
        for a in args:
            if a.sort().kind() == z3.Z3_RE_SORT:
                name += "|" + a.sexpr()
            else:
                targs.append(self.tr(a))
        key = ("abs", name, tuple(str(a.sort()) for a in targs), str(e.sort()))
        if key not in self.funcs:
            self.funcs[key] = z3.Function("abs!" + str(len(self.funcs)) + "!" + d.name(), *[a.sort() for a in targs], self.sort(e.sort()))
        return self.funcs[key](*targs)

    def _has_str(self, s):
        if s == STR:
            return True
        if s.kind() == z3.Z3_ARRAY_SORT:
            return self._has_str(s.domain()) or self._has_str(s.range())
        if s.kind() in (z3.Z3_SEQ_SORT, z3.Z3_RE_SORT):
            return True
        return False

    def _poly(self, kind):
        return kind in (
            z3.Z3_OP_EQ, z3.Z3_OP_DISTINCT, z3.Z3_OP_ITE, z3.Z3_OP_SELECT, z3.Z3_OP_STORE,
            z3.Z3_OP_CONST_ARRAY, z3.Z3_OP_AND, z3.Z3_OP_OR, z3.Z3_OP_NOT, z3.Z3_OP_IMPLIES,
            z3.Z3_OP_IFF, z3.Z3_OP_XOR,
        )

    def _rebuild(self, e, a):
        kind = e.decl().kind()
        if kind == z3.Z3_OP_EQ:
            return a[0] == a[1]
        if kind == z3.Z3_OP_DISTINCT:
            return z3.Distinct(*a)
        if kind == z3.Z3_OP_ITE:
            return z3.If(a[0], a[1], a[2])
        if kind == z3.Z3_OP_SELECT:
            return z3.Select(a[0], *a[1:])
        if kind == z3.Z3_OP_STORE:
            return z3.Store(a[0], a[1], a[2])
        if kind == z3.Z3_OP_CONST_ARRAY:
            return z3.K(self.sort(e.sort().domain()), a[0])
        if kind == z3.Z3_OP_AND:
            return z3.And(*a)
        if kind == z3.Z3_OP_OR:
            return z3.Or(*a)
        if kind == z3.Z3_OP_NOT:
            if not z3.is_bool(a[0]):
                raise ValueError(f"NOT of non-bool: {e} -> {a[0]} : {a[0].sort()}")
            return z3.Not(a[0])
        if kind == z3.Z3_OP_IMPLIES:
            return z3.Implies(a[0], a[1])
        if kind in (z3.Z3_OP_IFF,):
            return a[0] == a[1]
        if kind == z3.Z3_OP_XOR:
            return z3.Xor(a[0], a[1])
        raise ValueError(kind)

    def distinctness(self):
        ls = list(self.lits.values())
        return [z3.Distinct(*ls)] if len(ls) > 1 else []


def abstract_query(assumptions, goal):
    """-> (assumptions', goal', exact) or None when the query cannot be abstracted."""
    ab = Abstractor()
    try:
        na = [ab.tr(a) for a in assumptions]
        ng = ab.tr(goal)
    except (ValueError, z3.Z3Exception) as e:
        import os

        if os.environ.get("PYVC_DEBUG_ABS"):
            print("ABSTRACTION FAILED:", str(e)[:400])
        return None
    return na + ab.distinctness(), ng, not ab.interpreted_used
