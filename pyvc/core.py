"""Path state, decisions, obligations: the parts of the executor that are not
about Python syntax."""

from __future__ import annotations

import time
import z3

from .values import *  # noqa: F401,F403
from . import values as vals


_QCACHE = {}


def _has_quantifier(f):
    k = f.get_id()
    hit = _QCACHE.get(k)
    if hit is not None and hit[0].eq(f):
        return hit[1]
    r = False
    todo = [f]
    seen = set()
    while todo:
        e = todo.pop()
        i = e.get_id()
        if i in seen:
            continue
        seen.add(i)
        if z3.is_quantifier(e):
            r = True
            break
        todo.extend(e.children())
    _QCACHE[k] = (f, r)
    return r


class ReturnSignal(Exception):
    def __init__(self, v):
        self.v = v


class RaiseSignal(Exception):
    """A Python exception propagating in the analysed program."""

    def __init__(self, exc):
        self.exc = exc  # VRef to exception object


class BreakSignal(Exception):
    pass


class ContinueSignal(Exception):
    pass


class PathEnd(Exception):
    """This path is finished (loop step closed, or assumption made it moot)."""


class Obligation:
    def __init__(self, name, assumptions, goal, line=None, kind="post", note=""):
        self.name = name
        self.assumptions = list(assumptions)
        self.goal = goal
        self.line = line
        self.kind = kind
        self.note = note
        self.inputs = {}

    def __repr__(self):
        return f"<Obligation {self.name}>"


class ExcClass:
    """Handle for an exception (or other) class: repo ClassInfo or external name."""

    def __init__(self, ref):
        self.ref = ref  # ClassInfo | str

    @property
    def name(self):
        return self.ref if isinstance(self.ref, str) else self.ref.name


class Cell:
    """Heap cell: an object (fields) or a mutable container (val)."""

    __slots__ = ("cls", "fields", "val", "native")

    def __init__(self, cls=None, fields=None, val=None, native=None):
        self.cls = cls
        self.fields = fields if fields is not None else {}
        self.val = val
        self.native = native

    def copy(self):
        return Cell(self.cls, dict(self.fields), self.val, self.native)


class Path:
    """One execution path: assumptions, heap, decision trail."""

    def __init__(self, prefix, feas_timeout_ms=1500):
        self.prefix = list(prefix)
        self.trail = []
        self.alternatives = []
        self.assumptions = []  # z3 Bools (facts + path condition)
        self.obligations = []
        self.heap: dict[int, Cell] = {}
        self.next_addr = 1
        self.counter = 0
        self.feas_timeout_ms = feas_timeout_ms
        self.solver_time = 0.0
        self.effects = []
        self.notes = []
        self.memo = {}
        self.dropped = set()
        self.obs_log = []
        self.snapshots = []
        self.materializing = 0
        self.late_cells = []

    # naming: deterministic per path so that re-execution recreates the same terms
    def name(self, base):
        self.counter += 1
        return f"{base}!{self.counter}"

    def const(self, base, sort):
        return z3.Const(self.name(base), sort)

    def fresh(self, kind, base):
        return vals.fresh(kind, self.name(base))

    def fresh_like(self, v, base):
        return v.rebuild([self.const(base, l.sort()) for l in v.leaves()])

    def assume(self, f):
        if isinstance(f, bool):
            f = z3.BoolVal(f)
        if z3.is_true(f):
            return
        self.assumptions.append(f)

    def feasible(self, extra=None):
        """Path pruning.  Uses the string-sort abstraction: abstract-unsat implies
        unsat, so pruning is sound; a spuriously feasible path only costs time (its
        obligations are discharged under the precise path condition)."""
        from .abstraction import abstract_query

        t0 = time.time()
        goal = z3.Not(extra) if extra is not None else z3.BoolVal(False)
        q = abstract_query(self.assumptions, goal)
        if q is not None:
            na, ng, exact = q
            fs = na + [z3.Not(ng)]
        else:
            fs = list(self.assumptions) + ([extra] if extra is not None else [])
        # 1. quantifier-free part only (a weaker set: unsat here is unsat overall)
        qf = [f for f in fs if not _has_quantifier(f)]
        s = z3.Solver()
        s.set("timeout", self.feas_timeout_ms)
        for a in qf:
            s.add(a)
        r = s.check()
        if r != z3.unsat and len(qf) != len(fs):
            # 2. everything, briefly
            s = z3.Solver()
            s.set("timeout", min(400, self.feas_timeout_ms))
            for a in fs:
                s.add(a)
            r = s.check()
        self.solver_time += time.time() - t0
        return r != z3.unsat

    def choose(self, n, conds=None, label=""):
        """Pick one of n alternatives; the others are queued as new path prefixes.

        conds: optional list of z3 Bools, one per alternative, assumed when taken.
        """
        d = len(self.trail)
        if d < len(self.prefix):
            k = self.prefix[d]
        else:
            feas = []
            for i in range(n):
                if conds is None or self.feasible(conds[i]):
                    feas.append(i)
            if not feas:
                raise PathEnd()
            k = feas[0]
            for alt in feas[1:]:
                self.alternatives.append(self.trail + [alt])
        self.trail.append(k)
        if conds is not None:
            self.assume(conds[k])
        return k

    def branch(self, cond) -> bool:
        c = vals.is_concrete_bool(cond)
        if c is not None:
            return c
        return self.choose(2, [cond, z3.Not(cond)]) == 0

    def oblige(self, name, goal, line=None, kind="post", note=""):
        if isinstance(goal, bool):
            goal = z3.BoolVal(goal)
        ob = Obligation(name, self.assumptions, goal, line, kind, note)
        self.obligations.append(ob)
        self.assume(goal)
        return ob

    # heap
    def alloc(self, cell: Cell) -> int:
        a = self.next_addr
        self.next_addr += 1
        self.heap[a] = cell
        if self.materializing:
            # lazily materialised symbolic state conceptually existed all along: it is part
            # of every snapshot taken so far
            self.late_cells.append(a)
        return a

    def snapshot(self):
        snap = {a: c.copy() for a, c in self.heap.items()}
        self.snapshots.append(snap)
        return snap

    def end_materialize(self):
        for a in self.late_cells:
            for snap in self.snapshots:
                if a not in snap:
                    snap[a] = self.heap[a].copy()
        self.late_cells = []
