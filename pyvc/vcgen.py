"""Verify one function of the real source against its sidecar contract."""

from __future__ import annotations

import ast
import time
import traceback

import z3

from .values import *  # noqa: F401,F403
from .values import (
    V, VNone, NONE, VBool, VInt, VStr, VOpt, VTuple, VList, VMap, VSet, VRef, VOpaque, Unsupported,
)
from . import values as vals
from .callables import *  # noqa: F401,F403
from .core import Path, PathEnd, RaiseSignal, ReturnSignal, Obligation
from .interp import Interp
from .ip_expr import Env
from .ip_call import Frame
from .ip_stmt import has_yield
from .loader import ClassInfo, source_hash
from . import solve as _solve

MAX_PATHS = 4000


class FunctionReport:
    def __init__(self, qualname):
        self.qualname = qualname
        self.file = None
        self.line = None
        self.hash = None
        self.obligations = []  # (name, status, backend, seconds, detail)
        self.paths = 0
        self.unsupported = []
        self.errors = []
        self.dropped = set()
        self.inlined = set()
        self.called = set()
        self.seconds = 0.0
        self.solver_seconds = 0.0
        self.covers = []
        self.counterexamples = []

    def summary(self):
        agg = {}
        for o in self.obligations:
            agg.setdefault(o["name"], []).append(o)
        return agg


def _return_ordinals(fn_node):
    rets = [n for n in ast.walk(fn_node) if isinstance(n, ast.Return)]
    rets.sort(key=lambda n: (n.lineno, n.col_offset))
    return {id(n): i for i, n in enumerate(rets)}


def setup_entry(it: Interp, func: VFunc, contract):
    """Fresh symbolic arguments per the contract's kinds; returns (args dict)."""
    a = func.node.args
    names = [x.arg for x in a.posonlyargs + a.args] + [x.arg for x in a.kwonlyargs]
    defaults = {}
    pos = [x.arg for x in a.posonlyargs + a.args]
    for n, d in zip(pos[len(pos) - len(a.defaults):], a.defaults):
        defaults[n] = d
    for ka, kd in zip(a.kwonlyargs, a.kw_defaults):
        if kd is not None:
            defaults[ka.arg] = kd
    bound = {}
    for n in names:
        kind = contract.params.get(n)
        if kind is None:
            if n == "self" and func.owner is not None:
                kind = "obj:" + func.owner.qualname
            elif n in defaults:
                bound[n] = it.ev(defaults[n], Env(func.module, {}))
                continue
            else:
                raise Unsupported(f"contract for {func.qualname} gives no kind for parameter {n!r}")
        bound[n] = it.fresh_value(kind, n)
    if a.vararg or a.kwarg:
        if a.kwarg and a.kwarg.arg not in bound:
            bound[a.kwarg.arg] = it.new_container(VConstDict({}))
        if a.vararg and a.vararg.arg not in bound:
            bound[a.vararg.arg] = VTuple([])
    return bound


def frame_obligations(it, fr, contract, exceptional, tag, line):
    """Nothing outside `modifies` changed."""
    mods = contract.modifies_on_raise if exceptional else contract.modifies
    allowed_cells = set()
    allowed_fields = set()
    saved = it.heap_override
    for target in mods:
        expr = ast.parse(target, mode="eval").body
        try:
            it.heap_override = fr.entry_heap
            env = Env(contract.module, dict(fr.entry_env))
            ref = it.ev(expr, env)
            if isinstance(ref, VRef):
                allowed_cells.add(ref.addr)
            if isinstance(expr, ast.Attribute):
                owner = it.ev(expr.value, env)
                if isinstance(owner, VRef):
                    allowed_fields.add((owner.addr, expr.attr))
        except (Unsupported, RaiseSignal):
            pass
        finally:
            it.heap_override = saved
    diffs = []
    for addr, old in fr.entry_heap.items():
        cur = it.path.heap.get(addr)
        if cur is None:
            continue
        if old.val is not None:
            if addr in allowed_cells or cur.val is old.val:
                continue
            try:
                diffs.append((f"cell{addr}", vals.eq(old.val, cur.val)))
            except Unsupported:
                diffs.append((f"cell{addr}", z3.BoolVal(False)))
            continue
        if old.native is not None:
            if addr in allowed_cells:
                continue
            if hasattr(old.native, "frame_eq"):
                for nme, f in old.native.frame_eq(it, old, cur):
                    diffs.append((nme, f))
            continue
        for fname, ov in old.fields.items():
            if (addr, fname) in allowed_fields:
                continue
            cv = cur.fields.get(fname)
            if cv is ov:
                continue
            if isinstance(ov, VRef) or isinstance(cv, VRef):
                same = isinstance(ov, VRef) and isinstance(cv, VRef) and ov.addr == cv.addr
                if not same:
                    diffs.append((fname, z3.BoolVal(False)))
                continue
            try:
                diffs.append((fname, vals.eq(ov, cv)))
            except Unsupported:
                diffs.append((fname, z3.BoolVal(False)))
    if diffs:
        goal = z3.And([d for _, d in diffs])
        it.path.oblige(f"{fr.qualname}#frame@{tag}", goal, line=line, kind="frame", note=",".join(n for n, _ in diffs))


def run_path(repo, registry, func: VFunc, contract, prefix, feas_ms):
    path = Path(prefix, feas_timeout_ms=feas_ms)
    it = Interp(repo, registry, path)
    info = {"outcome": None, "inputs": None}
    fr = Frame(it, func, contract)
    fr.verifying = True
    try:
        bound = setup_entry(it, func, contract)
        fr.entry_env = dict(bound)
        info["inputs"] = bound
        info["it"] = it
        fr.entry_heap = path.snapshot()
        if "requires" in contract.funcs:
            pre = it.truthy(it.eval_contract_fn(contract, "requires", dict(bound)))
            path.assume(pre)
        # snapshot again: requires may have materialised lazily created fields
        for a, c in path.heap.items():
            if a not in fr.entry_heap:
                fr.entry_heap[a] = c.copy()
            else:
                for fn_, fv in c.fields.items():
                    fr.entry_heap[a].fields.setdefault(fn_, fv)
        rets = _return_ordinals(func.node)
        env = Env(func.module, dict(bound), func.closure, cls=func.owner, func=func)
        gen = has_yield(func.node)
        if gen:
            fr.yielded = VList(items=[])
        it.frames.append(fr)
        fr.env = env
        outcome = None
        try:
            try:
                if isinstance(func.node, ast.Lambda):
                    result = it.ev(func.node.body, env)
                else:
                    it.exec_block(func.node.body, env)
                    result = NONE
                tag = "end"
            except ReturnSignal as r:
                result = r.v
                tag = "ret"
            if gen:
                result = fr.yielded
            outcome = ("normal", result)
        except RaiseSignal as rs:
            outcome = ("raise", rs.exc)
        line = it.cur_line
        values = dict(bound)
        exc_names = [n[len("raises_"):] for n in contract.funcs if n.startswith("raises_")]
        if outcome[0] == "normal":
            values["result"] = outcome[1]
            for en in exc_names:
                cond = it.truthy(it.eval_contract_fn(contract, "raises_" + en, dict(bound), fr.entry_heap, fr.entry_env))
                path.oblige(f"{fr.qualname}#noraise:{en}", z3.Not(cond), line=line, kind="raises")
            if "ensures" in contract.funcs:
                post = it.truthy(it.eval_contract_fn(contract, "ensures", values, fr.entry_heap, fr.entry_env))
                path.oblige(f"{fr.qualname}#post", post, line=line, kind="post")
            frame_obligations(it, fr, contract, False, "normal", line)
            info["outcome"] = "normal"
        else:
            exc = outcome[1]
            ecls = path.heap[exc.addr].cls
            ename = ecls.name if isinstance(ecls, ClassInfo) else str(ecls)
            short = ename.split(".")[-1]
            values["exc"] = exc
            matched = None
            for en in exc_names:
                target = registry.resolve_exception(it, contract, en)
                if _exc_is(it, ecls, target):
                    matched = en
                    break
            if matched is not None:
                cond = it.truthy(it.eval_contract_fn(contract, "raises_" + matched, dict(bound), fr.entry_heap, fr.entry_env))
                path.oblige(f"{fr.qualname}#raises:{matched}", cond, line=line, kind="raises")
                if ("exc_" + matched) in contract.funcs:
                    path.oblige(
                        f"{fr.qualname}#excfields:{matched}",
                        it.truthy(it.eval_contract_fn(contract, "exc_" + matched, values, fr.entry_heap, fr.entry_env)),
                        line=line, kind="raises",
                    )
            elif any(_exc_is(it, ecls, registry.resolve_exception(it, contract, en)) for en in contract.may_raise):
                pass
            else:
                path.oblige(f"{fr.qualname}#unexpected:{short}", z3.BoolVal(False), line=line, kind="raises",
                            note=f"exception {ename} escapes but the contract does not allow it")
            if "ensures_raise" in contract.funcs:
                post = it.truthy(it.eval_contract_fn(contract, "ensures_raise", values, fr.entry_heap, fr.entry_env))
                path.oblige(f"{fr.qualname}#post-raise:{short}", post, line=line, kind="post")
            frame_obligations(it, fr, contract, True, "raise:" + short, line)
            info["outcome"] = "raise:" + short
    except PathEnd:
        info["outcome"] = info["outcome"] or "cut"
    return path, it, info


def _exc_is(it, ecls, target) -> bool:
    if isinstance(target, ClassInfo):
        return isinstance(ecls, ClassInfo) and ecls.is_subclass_of(target)
    return it.class_subclass(ecls, VExtClass(target))


def verify_function(repo, registry, qualname, feas_ms=1500, solve_now=True, z3_ms=None) -> FunctionReport:
    rep = FunctionReport(qualname)
    t0 = time.time()
    contract = registry.contracts[qualname]
    module, cls, node = repo.lookup(qualname)
    if node is None:
        rep.errors.append(f"target {qualname} not found in the repository source")
        return rep
    rep.file = module.path
    rep.line = node.lineno
    rep.hash = source_hash(node)
    func = VFunc(node, module, owner=cls, name=node.name)
    worklist = [[]]
    seen_paths = 0
    outcomes = {}
    while worklist:
        prefix = worklist.pop()
        seen_paths += 1
        if seen_paths > MAX_PATHS:
            rep.unsupported.append(f"more than {MAX_PATHS} paths")
            break
        try:
            path, it, info = run_path(repo, registry, func, contract, prefix, feas_ms)
        except Unsupported as e:
            rep.unsupported.append(str(e))
            continue
        except RecursionError:
            rep.unsupported.append("recursion limit in symbolic execution")
            continue
        except Exception as e:  # checker bug: reported, never a verdict
            rep.errors.append(f"{type(e).__name__}: {e}\n" + traceback.format_exc(limit=6))
            continue
        worklist.extend(path.alternatives)
        rep.dropped |= path.dropped
        rep.inlined |= it.inlined
        rep.called |= it.called
        rep.solver_seconds += path.solver_time
        outcomes[info["outcome"]] = outcomes.get(info["outcome"], 0) + 1
        for ob in path.obligations:
            rec = {"name": ob.name, "line": ob.line, "kind": ob.kind, "note": ob.note}
            if solve_now:
                res = _solve.solve(ob.assumptions, ob.goal, z3_ms=z3_ms)
                rec.update(status=res["status"], backend=res["backend"], seconds=round(res["seconds"], 3))
                rep.solver_seconds += res["seconds"]
                if res["status"] == "refuted":
                    cex = {}
                    m = res.get("model")
                    if m is not None and info.get("inputs"):
                        for pn, pv in info["inputs"].items():
                            try:
                                cex[pn] = _solve.value_to_py(m, pv, it.frames[0].entry_heap if it.frames else path.heap)
                            except Exception as e:  # pragma: no cover
                                cex[pn] = f"<unprintable: {e}>"
                    rec["counterexample"] = cex
                    rec["trail"] = list(path.trail)
                elif res["status"] == "unknown":
                    rec["reason"] = res.get("reason", "")
            else:
                rec["ob"] = ob
            rep.obligations.append(rec)
    rep.paths = seen_paths
    rep.outcomes = outcomes
    rep.seconds = time.time() - t0
    return rep
