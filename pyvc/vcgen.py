"""Verify one function of the real source against its sidecar contract."""

from __future__ import annotations

import ast
import json
import time
import traceback

import z3

from .values import *  # noqa: F401,F403
from .values import (
    V, VNone, NONE, VBool, VInt, VStr, VOpt, VTuple, VList, VMap, VSet, VRef, VOpaque, Unsupported,
)
from . import values as vals
from .callables import *  # noqa: F401,F403
from .core import Path, PathEnd, RaiseSignal, ReturnSignal, Obligation
from .interp import Interp
from .ip_expr import Env
from .ip_call import Frame
from .ip_stmt import has_yield
from .loader import ClassInfo, source_hash
from . import solve as _solve

MAX_PATHS = 4000


class FunctionReport:
    def __init__(self, qualname):
        self.qualname = qualname
        self.file = None
        self.line = None
        self.hash = None
        self.obligations = []  # (name, status, backend, seconds, detail)
        self.paths = 0
        self.unsupported = []
        self.errors = []
        self.dropped = set()
        self.inlined = set()
        self.called = set()
        self.seconds = 0.0
        self.solver_seconds = 0.0
        self.covers = []
        self.counterexamples = []

    def summary(self):
        agg = {}
        for o in self.obligations:
            agg.setdefault(o["name"], []).append(o)
        return agg


def _return_ordinals(fn_node):
    rets = [n for n in ast.walk(fn_node) if isinstance(n, ast.Return)]
    rets.sort(key=lambda n: (n.lineno, n.col_offset))
    return {id(n): i for i, n in enumerate(rets)}


def setup_entry(it: Interp, func: VFunc, contract):
    """Fresh symbolic arguments per the contract's kinds; returns (args dict)."""
    a = func.node.args
    names = [x.arg for x in a.posonlyargs + a.args] + [x.arg for x in a.kwonlyargs]
    defaults = {}
    pos = [x.arg for x in a.posonlyargs + a.args]
    for n, d in zip(pos[len(pos) - len(a.defaults):], a.defaults):
        defaults[n] = d
    for ka, kd in zip(a.kwonlyargs, a.kw_defaults):
        if kd is not None:
            defaults[ka.arg] = kd
    bound = {}
    for n in names:
        kind = contract.params.get(n)
        if kind is None:
            if n == "self" and func.owner is not None:
                kind = "obj:" + func.owner.qualname
            elif n in defaults:
                bound[n] = it.ev(defaults[n], Env(func.module, {}))
                continue
            else:
                raise Unsupported(f"contract for {func.qualname} gives no kind for parameter {n!r}")
        bound[n] = it.fresh_value(kind, n)
    if ".<locals>." in (contract.target or ""):
        # a nested function: contract parameters that are not in its signature are the free
        # variables it closes over (looked up like locals)
        for n, kind in contract.params.items():
            if n not in bound:
                bound[n] = it.fresh_value(kind, n)
    if a.vararg or a.kwarg:
        if a.kwarg and a.kwarg.arg not in bound:
            bound[a.kwarg.arg] = it.new_container(VConstDict({}))
        if a.vararg and a.vararg.arg not in bound:
            bound[a.vararg.arg] = VTuple([])
    return bound


def frame_obligations(it, fr, contract, exceptional, tag, line):
    """Nothing outside `modifies` changed."""
    mods = contract.modifies_on_raise if exceptional else contract.modifies
    allowed_cells = set()
    allowed_fields = set()
    saved = it.heap_override
    for target in mods:
        if target == "fs()":
            if "fs_addr" in it.path.memo:
                allowed_cells.add(it.path.memo["fs_addr"])
            continue
        expr = ast.parse(target, mode="eval").body
        try:
            it.heap_override = fr.entry_heap
            env = Env(contract.module, dict(fr.entry_env))
            if isinstance(expr, ast.Attribute):
                owner0 = it.ev(expr.value, env)
                if isinstance(owner0, VRef) and isinstance(fr.entry_heap[owner0.addr].cls, ClassInfo):
                    vw = registry_view(it, fr.entry_heap[owner0.addr].cls, expr.attr)
                    if vw is not None:
                        # a derived view: what may change is the state it is computed from
                        backing = it.getattr(owner0, "repo")
                        if isinstance(backing, VRef):
                            allowed_cells.add(backing.addr)
                        continue
            ref = it.ev(expr, env)
            if isinstance(ref, VRef):
                allowed_cells.add(ref.addr)
            if isinstance(expr, ast.Attribute):
                owner = it.ev(expr.value, env)
                if isinstance(owner, VRef):
                    allowed_fields.add((owner.addr, expr.attr))
        except (Unsupported, RaiseSignal):
            pass
        finally:
            it.heap_override = saved
    diffs = []
    for addr, old in fr.entry_heap.items():
        cur = it.path.heap.get(addr)
        if cur is None:
            continue
        if old.val is not None:
            if addr in allowed_cells or cur.val is old.val or addr in it.local_cells:
                continue
            try:
                diffs.append((f"cell{addr}", vals.eq(old.val, cur.val)))
            except Unsupported:
                diffs.append((f"cell{addr}", z3.BoolVal(False)))
            continue
        if old.native is not None:
            if addr in allowed_cells:
                continue
            if any((a2, "repo") in allowed_fields or a2 in allowed_cells for a2 in [addr]):
                continue
            if hasattr(old.native, "frame_eq"):
                for nme, f in old.native.frame_eq(it, old, cur):
                    diffs.append((nme, f))
            continue
        for fname, ov in old.fields.items():
            if (addr, fname) in allowed_fields:
                continue
            cv = cur.fields.get(fname)
            if cv is ov:
                continue
            if isinstance(ov, VRef) or isinstance(cv, VRef):
                same = isinstance(ov, VRef) and isinstance(cv, VRef) and ov.addr == cv.addr
                if not same:
                    diffs.append((fname, z3.BoolVal(False)))
                continue
            try:
                diffs.append((fname, vals.eq(ov, cv)))
            except Unsupported:
                diffs.append((fname, z3.BoolVal(False)))
    if diffs:
        goal = z3.And([d for _, d in diffs])
        it.path.oblige(f"{fr.qualname}#frame@{tag}", goal, line=line, kind="frame", note=",".join(n for n, _ in diffs))


def registry_view(it, cls, name):
    return it.registry.view_for(cls, name)


def _check_returns_kind(it, path, contract, result):
    """A declared `returns` object kind is what callers get to see: an object of a class it does
    not cover would be invisible to every caller's proof - not a verdict, a contract to repair."""
    k = (contract.returns or "").strip()
    if not (k.startswith("obj:") or k.startswith("oneof:")):
        return
    from .values import VRef
    from .loader import ClassInfo

    if not isinstance(result, VRef):
        return
    cls = path.heap[result.addr].cls
    if not isinstance(cls, ClassInfo):
        return
    names = [a.strip() for a in k.split(":", 1)[1].split("|")]
    for n in names:
        ci = it.repo.lookup_class(n)
        if ci is not None and cls.is_subclass_of(ci):
            return
    raise Unsupported(f"returns kind {k!r} of {contract.target} does not cover the returned {cls.qualname}")


def run_path(repo, registry, func: VFunc, contract, prefix, feas_ms):
    path = Path(prefix, feas_timeout_ms=feas_ms)
    it = Interp(repo, registry, path)
    info = {"outcome": None, "inputs": None}
    fr = Frame(it, func, contract)
    fr.verifying = True
    try:
        bound = setup_entry(it, func, contract)
        fr.entry_env = dict(bound)
        info["inputs"] = bound
        info["it"] = it
        fr.entry_heap = path.snapshot()
        if "requires" in contract.funcs:
            pre = it.truthy(it.eval_contract_fn(contract, "requires", dict(bound)))
            path.assume(pre)
        for rn in sorted(n for n in contract.funcs if n.startswith("requires_")):
            # additional entry conditions of a refinement check (Sub.m@iface): the subclass'
            # representation invariant, stated where the refinement is declared
            path.assume(it.truthy(it.eval_contract_fn(contract, rn, dict(bound))))
        for dn in sorted(n for n in contract.funcs if n.startswith("define_")):
            # definition of a ghost symbol that occurs nowhere else (a conservative extension):
            # lets an inner formula be named and used atomically by the outer invariants
            path.assume(it.truthy(it.eval_contract_fn(contract, dn, dict(bound))))
            path.dropped.add(f"definitional axiom {contract.target}.{dn} (names a formula by a fresh ghost predicate)")
        # snapshot again: requires may have materialised lazily created fields
        for a, c in path.heap.items():
            if a not in fr.entry_heap:
                fr.entry_heap[a] = c.copy()
            else:
                for fn_, fv in c.fields.items():
                    fr.entry_heap[a].fields.setdefault(fn_, fv)
        rets = _return_ordinals(func.node)
        env = Env(func.module, dict(bound), func.closure, cls=func.owner, func=func)
        gen = has_yield(func.node)
        if gen:
            fr.yielded = VList(items=[])
        it.frames.append(fr)
        fr.env = env
        outcome = None
        try:
            try:
                if isinstance(func.node, ast.Lambda):
                    result = it.ev(func.node.body, env)
                else:
                    it.exec_block(func.node.body, env)
                    result = NONE
                tag = "end"
            except ReturnSignal as r:
                result = r.v
                tag = "ret"
            if gen:
                result = fr.yielded
                if result.items is not None and fr.yield_kind() is not None:
                    # a generator that yielded a fixed number of values on this path: viewed as a
                    # sequence of the declared kind, so that the postcondition may index it symbolically
                    tmpl = vals.fresh("list[" + fr.yield_kind() + "]", "tmpl")
                    if result.items:
                        result = vals.coerce(VList(items=[it.dataify(x) for x in result.items]), tmpl)
                    else:
                        result = VList(z3.IntVal(0), vals.lift_const(vals.dummy_like(vals.sel(tmpl.elem, z3.IntVal(0))), INT))
            outcome = ("normal", result)
        except RaiseSignal as rs:
            outcome = ("raise", rs.exc)
        line = it.cur_line
        values = dict(bound)
        exc_names = [n[len("raises_"):] for n in contract.funcs if n.startswith("raises_")]
        if outcome[0] == "normal":
            _check_returns_kind(it, path, contract, outcome[1])
            values["result"] = outcome[1]
            info["inputs"] = dict(info["inputs"])
            info["inputs"]["$result"] = outcome[1]
            info["inputs"]["$effects"] = VList(items=[VTuple([VStr(z3.StringVal(e[0]))] + [x for x in e[1:] if isinstance(x, V)]) for e in path.effects])
            for en in exc_names:
                cond = it.truthy(it.eval_contract_fn(contract, "raises_" + en, dict(bound), fr.entry_heap, fr.entry_env, in_old_state=True))
                path.oblige(f"{fr.qualname}#noraise:{en}", z3.Not(cond), line=line, kind="raises")
            for en_ in sorted(n for n in contract.funcs if n == "ensures" or (n.startswith("ensures_") and not n.startswith("ensures_raise"))):
                post = it.truthy(it.eval_contract_fn(contract, en_, values, fr.entry_heap, fr.entry_env))
                path.oblige(f"{fr.qualname}#post" + (":" + en_[8:] if en_ != "ensures" else ""), post, line=line, kind="post")
            frame_obligations(it, fr, contract, False, "normal", line)
            info["outcome"] = "normal"
        else:
            exc = outcome[1]
            ecls = path.heap[exc.addr].cls
            ename = ecls.name if isinstance(ecls, ClassInfo) else str(ecls)
            short = ename.split(".")[-1]
            values["exc"] = exc
            matched = None
            for en in exc_names:
                target = registry.resolve_exception(it, contract, en)
                if _exc_is(it, ecls, target):
                    matched = en
                    break
            if matched is not None:
                cond = it.truthy(it.eval_contract_fn(contract, "raises_" + matched, dict(bound), fr.entry_heap, fr.entry_env, in_old_state=True))
                path.oblige(f"{fr.qualname}#raises:{matched}", cond, line=line, kind="raises")
                if ("exc_" + matched) in contract.funcs:
                    path.oblige(
                        f"{fr.qualname}#excfields:{matched}",
                        it.truthy(it.eval_contract_fn(contract, "exc_" + matched, values, fr.entry_heap, fr.entry_env)),
                        line=line, kind="raises",
                    )
            elif any(_exc_is(it, ecls, registry.resolve_exception(it, contract, en)) for en in contract.may_raise):
                pass
            else:
                path.oblige(f"{fr.qualname}#unexpected:{short}", z3.BoolVal(False), line=line, kind="raises",
                            note=f"exception {ename} escapes but the contract does not allow it")
            for er_ in sorted(n for n in contract.funcs if n.startswith("ensures_raise")):
                post = it.truthy(it.eval_contract_fn(contract, er_, values, fr.entry_heap, fr.entry_env))
                suffix = er_[len("ensures_raise"):].lstrip("_")
                path.oblige(f"{fr.qualname}#post-raise{':' + suffix if suffix else ''}:{short}", post, line=line, kind="post")
            frame_obligations(it, fr, contract, True, "raise:" + short, line)
            info["outcome"] = "raise:" + short
    except PathEnd:
        info["outcome"] = info["outcome"] or "cut"
    return path, it, info


def _exc_is(it, ecls, target) -> bool:
    if isinstance(target, ClassInfo):
        return isinstance(ecls, ClassInfo) and ecls.is_subclass_of(target)
    return it.class_subclass(ecls, VExtClass(target))


_JOB = None


def _path_job(prefix):
    """Worker entry: everything is returned as a JSON string so that nothing unpicklable
    (z3 terms, cyclic values) can wedge the pool."""
    import sys

    sys.setrecursionlimit(20000)
    try:
        out = _path_job_inner(prefix)
        return json.dumps(out, default=str)
    except BaseException as e:  # pragma: no cover
        return json.dumps({"alternatives": [], "records": [], "dropped": [], "inlined": [], "called": [],
                           "outcome": None, "unsupported": [], "solver": 0.0,
                           "errors": [f"worker failure {type(e).__name__}: {str(e)[:300]}\n" + traceback.format_exc(limit=-10)]})


def _path_job_inner(prefix):
    """Explore one path and discharge its obligations (runs in a forked worker)."""
    repo, registry, func, contract, feas_ms, z3_ms = _JOB
    out = {"alternatives": [], "records": [], "dropped": [], "inlined": [], "called": [],
           "outcome": None, "unsupported": [], "errors": [], "solver": 0.0}
    try:
        path, it, info = run_path(repo, registry, func, contract, prefix, feas_ms)
    except Unsupported as e:
        import os as _os

        out["unsupported"].append(str(e) + ("\n" + traceback.format_exc(limit=-int(_os.environ.get("PYVC_TRACE_DEPTH", "6"))) if _os.environ.get("PYVC_TRACE") else ""))
        return out
    except RecursionError:
        out["unsupported"].append("recursion limit in symbolic execution")
        return out
    except Exception as e:  # checker bug: reported, never a verdict
        out["errors"].append(f"{type(e).__name__}: {e}\n" + traceback.format_exc(limit=-10))
        return out
    out["alternatives"] = path.alternatives
    out["dropped"] = sorted(path.dropped)
    out["inlined"] = sorted(it.inlined)
    out["called"] = sorted(it.called)
    out["outcome"] = info["outcome"]
    out["solver"] = path.solver_time
    heap = it.frames[0].entry_heap if it.frames else path.heap
    global _PENDING, _Z3MS
    _Z3MS = z3_ms
    _PENDING = [({}, ob, info.get("inputs"), heap, list(path.trail)) for ob in path.obligations]
    global _OBS, _CURHEAP
    _OBS = path.obs_log
    _CURHEAP = path.heap
    import os as _os
    if _os.environ.get("PYVC_CORE") and info["outcome"] == _os.environ.get("PYVC_CORE_OUTCOME", "normal") and path.obligations:
        _dump_core(path.obligations[-1].assumptions)
    for i, ob in enumerate(path.obligations):
        if _os.environ.get("PYVC_DUMP_OB") and _os.environ["PYVC_DUMP_OB"] in ob.name:
            _dump_assumptions(ob)
        rec = {"name": ob.name, "line": ob.line, "kind": ob.kind, "note": ob.note,
               "effects": [e[0] for e in path.effects if e[0] != "Fs"], "outcome": info["outcome"]}
        res = _solve_one(i)
        rec.update(res)
        if res["status"] == "refuted":
            rec["trail"] = list(path.trail)
        out["solver"] += res.get("seconds", 0)
        out["records"].append(rec)
        if res["status"] != "proved" and _os.environ.get("PYVC_FAILFAST"):
            break  # mutation runs: one obligation that is not discharged settles the verdict
    # vacuity guard: everything on this path was discharged - for the right reason?
    out["vacuous"] = (bool(path.obligations) and info["outcome"] is not None
                      and all(r["status"] == "proved" for r in out["records"])
                      and _solve.inconsistent(path.obligations[-1].assumptions))
    return out


def _dump_assumptions(ob):
    import sys

    print("OBLIGATION", ob.name, file=sys.stderr)
    for a in ob.assumptions:
        print("  A:", str(a)[:700].replace("\n", " "), file=sys.stderr)
    print("  GOAL:", str(ob.goal)[:1500].replace("\n", " "), file=sys.stderr)


def _dump_core(assumptions):
    """developer aid: if the assumptions of a path are inconsistent, print an unsat core"""
    import sys
    from .abstraction import abstract_query

    r = abstract_query(list(assumptions), z3.BoolVal(False))
    fs = r[0] if r is not None else list(assumptions)
    s = z3.Solver()
    s.set("timeout", 20000)
    s.set("unsat_core", True)
    for i, a in enumerate(fs):
        s.assert_and_track(a, f"a{i}")
    r = s.check()
    print("CORE check:", r, len(fs), file=sys.stderr)
    if r == z3.unsat:
        core = s.unsat_core()
        for c in core:
            i = int(str(c)[1:])
            if i >= len(assumptions):
                print("CORE", i, "(literal distinctness)", file=sys.stderr)
                continue
            print("CORE", i, str(assumptions[i])[:1500].replace("\n", " "), file=sys.stderr)


def verify_function(repo, registry, qualname, feas_ms=1500, solve_now=True, z3_ms=None, procs=None) -> FunctionReport:
    import multiprocessing as mp
    import os

    global _JOB
    rep = FunctionReport(qualname)
    t0 = time.time()
    contract = registry.contracts[qualname]
    module, cls, node = repo.lookup(qualname.split("@")[0])
    if node is None:
        rep.errors.append(f"target {qualname} not found in the repository source")
        return rep
    rep.file = module.path
    rep.line = node.lineno
    rep.hash = source_hash(node)
    func = VFunc(node, module, owner=cls, name=node.name)
    if ".<locals>." in qualname:
        # a nested function is named by its full path (module-relative), so that its obligations are
        func.name = qualname.split("@")[0][len(module.name) + 1:]
    _JOB = (repo, registry, func, contract, feas_ms, z3_ms)
    procs = procs or int(os.environ.get("PYVC_PROCS", "16"))
    outcomes = {}
    reach = {}
    seen_paths = 0
    wall_s = float(os.environ.get("PYVC_WALL_S", "0") or 0)

    def absorb(out):
        rep.unsupported.extend(out["unsupported"])
        rep.errors.extend(out["errors"])
        rep.dropped.update(out["dropped"])
        rep.inlined.update(out["inlined"])
        rep.called.update(out["called"])
        rep.solver_seconds += out["solver"]
        if out["outcome"] is not None or out["records"]:
            outcomes[out["outcome"]] = outcomes.get(out["outcome"], 0) + 1
        if out["outcome"] is not None and out["records"]:
            live = reach.setdefault(out["outcome"], [0, 0])
            live[0 if not out.get("vacuous") else 1] += 1
        rep.obligations.extend(out["records"])

    if procs <= 1:
        worklist = [[]]
        while worklist:
            prefix = worklist.pop()
            seen_paths += 1
            if seen_paths > MAX_PATHS:
                rep.unsupported.append(f"more than {MAX_PATHS} paths")
                break
            out = json.loads(_path_job(prefix))
            worklist.extend(out["alternatives"])
            absorb(out)
    else:
        ctx = mp.get_context("fork")
        with ctx.Pool(procs) as pool:
            outstanding = [pool.apply_async(_path_job, ([],))]
            seen_paths = 1
            while outstanding:
                nxt = []
                progressed = False
                for r in outstanding:
                    if r.ready():
                        progressed = True
                        out = json.loads(r.get())
                        absorb(out)
                        for alt in out["alternatives"]:
                            seen_paths += 1
                            if (wall_s and time.time() - t0 > wall_s
                                    and any(r_["status"] != "proved" for r_ in rep.obligations)):
                                # a verdict against this function is already in hand: further paths would
                                # only add to it (a proof is never cut short - with nothing refuted or
                                # unknown so far the exploration goes on to the end)
                                note = f"exploration stopped after {int(wall_s)} s with an undischarged obligation in hand"
                                if note not in rep.unsupported:
                                    rep.unsupported.append(note)
                                continue
                            if seen_paths > MAX_PATHS:
                                if f"more than {MAX_PATHS} paths" not in rep.unsupported:
                                    rep.unsupported.append(f"more than {MAX_PATHS} paths")
                                continue
                            nxt.append(pool.apply_async(_path_job, (alt,)))
                    else:
                        nxt.append(r)
                outstanding = nxt
                if not progressed:
                    time.sleep(0.01)
    # vacuity guard: every outcome the contract expects (normal, declared raises_X) that the
    # exploration reached must be reached by at least one path with consistent assumptions
    expected = {"normal"} | {"raise:" + n[len("raises_"):] for n in contract.funcs if n.startswith("raises_")}
    for oc_, (live, vac) in sorted(reach.items()):
        if oc_ in expected:
            rep.obligations.append({"name": f"{qualname}#reach:{oc_}", "line": rep.line, "kind": "reach",
                                    "status": "proved" if live > 0 else "unknown", "backend": "vacuity-guard",
                                    "seconds": 0.0, "note": f"{live} live path(s), {vac} vacuous",
                                    "reason": "every path to this outcome has inconsistent assumptions: the contract or a model it relies on is contradictory, nothing was proved"})
    rep.vacuous_paths = sum(v for _, v in reach.values())
    rep.obligations.sort(key=lambda r: (r["name"], r.get("line") or 0, str(r.get("trail"))))
    rep.paths = seen_paths
    rep.outcomes = outcomes
    rep.seconds = time.time() - t0
    return rep


# ----------------------------------------------------------------------------
# parallel discharge: fork workers share the in-memory z3 terms

_PENDING = None
_Z3MS = None
_OBS = None
_CURHEAP = None


def conjuncts(goal, depth=0):
    if z3.is_and(goal) and depth < 6:
        out = []
        for c in goal.children():
            out += conjuncts(c, depth + 1)
        return out
    if z3.is_not(goal) and z3.is_or(goal.arg(0)) and depth < 6:
        out = []
        for c in goal.arg(0).children():
            out += conjuncts(z3.Not(c), depth + 1)
        return out
    if z3.is_quantifier(goal) and goal.is_forall() and depth < 6:
        body = goal.body()
        if z3.is_and(body):
            vs = [z3.Const(goal.var_name(i), goal.var_sort(i)) for i in range(goal.num_vars())]
            # rebuild one forall per conjunct
            out = []
            for c in body.children():
                inst = z3.substitute_vars(c, *reversed(vs))
                out += conjuncts(z3.ForAll(vs, inst), depth + 1)
            return out
    return [goal]


def _solve_one(idx):
    rec, ob, inputs, heap, trail = _PENDING[idx]
    parts = conjuncts(ob.goal)
    total = 0.0
    backends = set()
    worst = "proved"
    out = {}
    for pi, g in enumerate(parts):
        res = _solve.solve(ob.assumptions, g, z3_ms=_Z3MS)
        total += res["seconds"]
        backends.add(res["backend"])
        if res["status"] == "refuted":
            worst = "refuted"
            cex = {}
            m = res.get("model")
            if m is not None and inputs:
                for pn, pv in inputs.items():
                    try:
                        cex[pn] = _solve.value_to_py(m, pv, heap if not pn.startswith("$") else _CURHEAP)
                    except Exception as e:  # pragma: no cover
                        cex[pn] = f"<unprintable: {e}>"
            if m is not None and _OBS:
                obs = []
                seen = set()
                for label, oargs, oval in _OBS[:200]:
                    try:
                        item = {"f": label, "args": [_solve.value_to_py(m, a, heap) for a in oargs],
                                "value": _solve.value_to_py(m, oval, heap)}
                    except Exception:
                        continue
                    k = json.dumps(item, sort_keys=True, default=str)
                    if k not in seen:
                        seen.add(k)
                        obs.append(item)
                cex["$ghost"] = obs
            out["counterexample"] = cex
            out["conjunct"] = f"{pi + 1}/{len(parts)}: {str(g)[:300]}"
            break
        if res["status"] == "unknown":
            worst = "unknown"
            out["reason"] = res.get("reason", "")
            out["conjunct"] = f"{pi + 1}/{len(parts)}: {str(g)[:300]}"
            # keep going: a later conjunct may be refuted outright
    out.update(status=worst, backend="+".join(sorted(backends)), seconds=round(total, 3), conjuncts=len(parts))
    return out


def parallel_solve(pending, z3_ms=None, procs=None):
    import multiprocessing as mp
    import os

    global _PENDING, _Z3MS
    _PENDING, _Z3MS = pending, z3_ms
    if not pending:
        return []
    procs = procs or int(os.environ.get("PYVC_PROCS", "16"))
    if procs <= 1 or len(pending) == 1:
        return [_solve_one(i) for i in range(len(pending))]
    ctx = mp.get_context("fork")
    with ctx.Pool(min(procs, len(pending))) as pool:
        return pool.map(_solve_one, range(len(pending)), chunksize=1)
