"""Which functions each property depends on, replay drivers, bounded stand-ins.

The property statements themselves are in /verif/properties.jsonl (given, fixed)."""

PURE = "pure.py"

G = "xandikos.store.git."
STORE_ABS = [G + "GitStore._scan_uids", G + "GitStore._check_duplicate", G + "GitStore.import_one"]
BARE = [G + "BareGitStore._import_one", G + "BareGitStore.delete_one", G + "BareGitStore._get_etag", G + "BareGitStore.get_ctag"]
TREE = [G + "TreeGitStore._import_one", G + "TreeGitStore.delete_one", G + "TreeGitStore._get_etag", G + "TreeGitStore.get_ctag"]
TR = ["xandikos.icalendar.apply_time_range_vevent", "xandikos.icalendar.apply_time_range_vtodo",
      "xandikos.icalendar.apply_time_range_vjournal"]
TR_FB = "xandikos.icalendar.apply_time_range_vfreebusy"

PROPS = {
    "C01": {
        "level": "other",
        "functions": [G + "GitStore.import_one", G + "GitStore._check_duplicate",
                      G + "BareGitStore._import_one", G + "BareGitStore.delete_one", G + "BareGitStore._get_etag",
                      G + "TreeGitStore._import_one", G + "TreeGitStore.delete_one", G + "TreeGitStore._get_etag",
                      G + "GitStore.iter_with_etag", "xandikos.web.ObjectResource.set_body"],
        "explanation": "Store transitions and handler outcomes are discharged per function over the abstract member map; "
                       "the history-quantified statement is the induction over these contracts (DESIGN 6/C01).",
    },
    "C02": {
        "level": "proof",
        "functions": ["xandikos.web.create_strong_etag", "xandikos.web.extract_strong_etag",
                      "xandikos.web.ObjectResource.get_etag", "xandikos.web.ObjectResource.set_body",
                      G + "BareGitStore._import_one", G + "TreeGitStore._import_one",
                      G + "BareGitStore._get_etag", G + "TreeGitStore._get_etag", G + "GitStore.iter_with_etag"],
        "replay": {"xandikos.web.create_strong_etag": PURE, "xandikos.web.extract_strong_etag": PURE},
        "standins": {"xandikos.web.create_strong_etag": {"driver": PURE, "bound": "all strings of length <= 4 over {\", a, 0, space}"}},
    },
    "C03": {
        "level": "proof",
        "functions": ["xandikos.webdav.etag_matches", "xandikos.web.extract_strong_etag",
                      G + "GitStore._check_duplicate", G + "BareGitStore.delete_one", G + "TreeGitStore.delete_one",
                      "xandikos.web.ObjectResource.set_body"],
        "replay": {"xandikos.webdav.etag_matches": PURE, "xandikos.web.extract_strong_etag": PURE},
        "standins": {"xandikos.webdav.etag_matches": {"driver": PURE, "bound": "header values of <= 4 tokens over {\"a\",\"b\",*,space,comma,a,\",''} x 4 etags"}},
    },
    "C04": {
        "level": "other",
        "functions": [G + "TreeGitStore._import_one", G + "TreeGitStore.delete_one", G + "BareGitStore._import_one",
                      G + "BareGitStore.delete_one"],
        "explanation": "Deductive part: effect-order obligations (objects before ref move, index last, lock held, vdir temp-file then "
                       "rename) on xandikos' own write functions, with atomicity of each primitive assumed - no crash point is visited "
                       "by the proof. Crash points themselves are enumerated by the bounded fault-injection explorer on every run.",
    },
    "C06": {
        "level": "proof",
        "functions": STORE_ABS,
    },
    "C07": {
        "level": "proof",
        "functions": [G + "GitStore.iter_changes", G + "GitStore.iter_with_etag", G + "BareGitStore.get_ctag",
                      G + "TreeGitStore.get_ctag"],
    },
    "C08": {
        "level": "proof",
        "functions": [G + "BareGitStore.get_ctag", G + "TreeGitStore.get_ctag", G + "BareGitStore._import_one",
                      G + "TreeGitStore._import_one", G + "BareGitStore.delete_one", G + "TreeGitStore.delete_one"],
    },
    "C09": {
        "level": "proof",
        "functions": [G + "BareGitStore._import_one", G + "BareGitStore.delete_one", G + "TreeGitStore._import_one",
                      G + "TreeGitStore.delete_one"],
    },
    "C11": {
        "level": "proof",
        "functions": TR,
        "replay": {f: PURE for f in TR},
        "standins": {f: {"driver": PURE, "bound": "presence subsets x 3 time values x boundary +-1 grid"} for f in TR},
    },
}

W = "xandikos.webdav."
WEB = "xandikos.web."
HTTP = "http_explore.py"
_HTTP_BOUND = ("WSGI request histories of <= 5 PUT/DELETE (conditional and unconditional)/restart steps over 5 member names "
               "(incl. ' ', '%41', '?', '#', ';', '+') x 2 uids, each followed by GET/HEAD-style conditional GET, Depth-1 "
               "PROPFIND and calendar-multiget; path-traversal grammar of 2-4 segments x 6 methods; refused MKCOL/MKCALENDAR "
               "bodies (quick: 40 / 60 / 10 cases)")

PROPS["C01"]["functions"] += [WEB + "StoreBasedCollection.create_member", WEB + "StoreBasedCollection.delete_member",
                              WEB + "XandikosBackend.get_resource", W + "PutMethod.handle", W + "DeleteMethod.handle",
                              W + "MkcolMethod.handle"]
PROPS["C02"]["functions"] += [WEB + "StoreBasedCollection.get_etag", WEB + "StoreBasedCollection.iter_differences_since",
                              WEB + "StoreBasedCollection.members", WEB + "StoreBasedCollection.get_member"]
PROPS["C01"]["functions"] += [WEB + "StoreBasedCollection.get_member", WEB + "StoreBasedCollection.members"]
PROPS["C03"]["functions"] += [W + "PutMethod.handle", W + "DeleteMethod.handle", W + "WSGIRequest.__init__"]
PROPS["C06"]["functions"] += [WEB + "ObjectResource.set_body", WEB + "StoreBasedCollection.create_member"]
PROPS["C07"]["functions"] += [WEB + "StoreBasedCollection.iter_differences_since", WEB + "StoreBasedCollection.get_sync_token",
                              "xandikos.store.git.BareGitStore.get_ctag"]
PROPS["C08"]["functions"] += [WEB + "StoreBasedCollection.get_ctag", WEB + "StoreBasedCollection.get_sync_token",
                              WEB + "StoreBasedCollection.get_etag"]
_RO = [G + "GitStore.get_displayname", G + "GitStore.get_description", G + "GitStore.get_comment", G + "GitStore.get_color",
       G + "GitStore.get_source_url", WEB + "StoreBasedCollection.get_displayname", WEB + "StoreBasedCollection.get_comment"]
PROPS["C08"]["functions"] += _RO
PROPS["C01"]["functions"] += [W + "PostMethod.handle", W + "_send_simple_dav_error", W + "nonfatal_bad_request",
                              "xandikos.store.open_by_extension"]
PROPS["C02"]["functions"] += [W + "_do_get"]
PROPS["C03"]["functions"] += [W + "_do_get"]
PROPS["C12"] = {
    "level": "other",
    "functions": ["xandikos.collation._match", "xandikos.carddav.apply_text_match", "xandikos.carddav.apply_param_filter",
                  "xandikos.carddav.apply_prop_filter", "xandikos.carddav.apply_filter"],
    "explanation": "Filter evaluation (match types, collations incl. totality on non-ASCII text, negate, param-filter, "
                   "prop-filter over property instances, anyof/allof, only address objects match) is discharged against an "
                   "RFC 6352 specification; the report driver (nresults, address-data rendering) and the parsing of stored cards are "
                   "covered by the bounded addressbook-query explorer only. The prop-filter `test` attribute is not looked at by "
                   "the code (all listed conditions must hold for one instance): stated in the contract, not decided.",
}
for _f in PROPS["C12"]["functions"]:
    PROPS["C12"].setdefault("replay", {})[_f] = "card_filters.py"
    PROPS["C12"].setdefault("standins", {})[_f] = {"driver": "card_filters.py", "bound": "addressbook-query explorer (90 filters x 5 cards through the WSGI application)"}
_FB = "xandikos.store.config.FileBasedCollectionMetadata."
_RM = "xandikos.store.git.RepoCollectionMetadata."
PROPS["C15"] = {
    "level": "other",
    "functions": [_FB + f"{a}_{p}" for p in ("displayname", "description", "color", "comment", "source_url", "order") for a in ("set", "get")]
                 + ["xandikos.store.git.GitStore.config"]
                 + [_RM + f"{a}_{p}" for p in ("color", "displayname", "comment", "description") for a in ("set", "get")]
                 + [W + "apply_modify_prop", _RM + "_write_config"]
                 + [f"xandikos.store.git.GitStore.get_{p}" for p in ("displayname", "description", "color", "comment", "source_url")]
                 + [_RM + f"{a}_{p}" for p in ("order", "source_url") for a in ("set", "get")]
                 + ["xandikos.web.CalendarCollection.get_calendar_color", "xandikos.web.SubscriptionCollection.get_calendar_color",
                    "xandikos.web.AddressbookCollection.get_addressbook_color", "xandikos.web.CalendarCollection.get_calendar_order",
                    "xandikos.web.CalendarCollection.get_calendar_description", "xandikos.web.AddressbookCollection.get_addressbook_description",
                    "xandikos.web.StoreBasedCollection.get_displayname", "xandikos.web.StoreBasedCollection.get_comment",
                    "xandikos.store.git.GitStore.config.<locals>.save_config",
                    ] + ['xandikos.webdav.DisplayNameProperty.get_value', 'xandikos.webdav.DisplayNameProperty.set_value', 'xandikos.webdav.CommentProperty.get_value', 'xandikos.webdav.CommentProperty.set_value', 'xandikos.caldav.CalendarOrderProperty.get_value', 'xandikos.caldav.CalendarOrderProperty.set_value', 'xandikos.caldav.CalendarColorProperty.get_value', 'xandikos.caldav.CalendarColorProperty.set_value', 'xandikos.carddav.AddressbookDescriptionProperty.get_value', 'xandikos.carddav.AddressbookDescriptionProperty.set_value', 'xandikos.infit.AddressbookColorProperty.get_value', 'xandikos.infit.AddressbookColorProperty.set_value', 'xandikos.caldav.CalendarDescriptionProperty.get_value'] + ["xandikos.web.StoreBasedCollection.set_displayname", "xandikos.web.StoreBasedCollection.set_comment",
                    "xandikos.web.CalendarCollection.set_calendar_color", "xandikos.web.SubscriptionCollection.set_calendar_color",
                    "xandikos.web.AddressbookCollection.set_addressbook_color", "xandikos.web.AddressbookCollection.set_addressbook_description",
                    "xandikos.web.CalendarCollection.set_calendar_order",
                    ] + [f"xandikos.store.git.GitStore.set_{p}" for p in ("displayname", "description", "color", "comment", "source_url")] + [
                    "xandikos.store.git.BareGitStore._import_one@metadata", "xandikos.store.git.TreeGitStore._import_one@metadata"],
    "explanation": "A chain of contracts from the protocol to the stored bytes, each link discharged: the property handlers pass exactly the "
                   "element text to the resource's setter / put exactly the getter's answer into the element; the collection and GitStore "
                   "getters answer the stored value unchanged (colour: only a missing leading '#' is added), for whichever of the two metadata "
                   "forms the repository uses (GitStore.config decides by the [xandikos] section and reads exactly the stored .xandikos file); "
                   "every setter is exactly one metadata write: with the git-config form the value reads back at once (and _write_config goes "
                   "through the atomic named-file replacement only), with the file form the parser is updated, no interpolation, and the save "
                   "callback - GitStore.config's nested save_config, under contract - makes exactly the parser's options the stored file while "
                   "changing no member (_import_one@metadata on both git stores); PROPPATCH reports 200 only when the handler's set_value "
                   "returned. ASSUMED (bounded conformance only): the configparser / dulwich-config write-read round trips, and that the save "
                   "callback a FileBasedCollectionMetadata holds is the one GitStore.config built (the composition of the links is argued in "
                   "DESIGN 0.10, not machine-checked).",
}
CONFIG_EXPLORE = "config_explore.py"
PROPS["C15"]["bounded_always"] = {"xandikos.store.git.GitStore.config": {
    "driver": CONFIG_EXPLORE,
    "bound": "3 metadata back ends (versioned .xandikos file in tree-git and bare-git, git config section) x displayname / description / "
             "comment / color x value grammar with configuration-file metacharacters (quick: 25 values, thorough: + all two-atom "
             "combinations of 18 atoms): set, read, restart, read, other collection and members untouched, remove. Stands in for the "
             "ASSUMED configparser / dulwich-config write-read round trip."}}
PROPS["C14"] = {
    "level": "other",
    "functions": ["xandikos.icalendar.validate_component", "xandikos.icalendar.ICalendarFile.validate",
                  "xandikos.vcard.VCardFile.validate", G + "GitStore.import_one", WEB + "ObjectResource.set_body",
                  WEB + "StoreBasedCollection.create_member", G + "BareGitStore._import_one", G + "TreeGitStore._import_one"],
    "explanation": "validate() raises exactly for unparseable / error-carrying / control-character-carrying bodies (at any "
                   "component depth) and for unframed or invalid cards; import_one validates before any effect and stores "
                   "normalized(); an upload whose stored form equals the current blob adds no commit and keeps etag and ctag. "
                   "That icalendar's to_ical(from_ical(x)) is idempotent (so that re-uploading the *served* bytes is such a "
                   "no-op) is a library property: ASSUMED, bounded conformance only.",
}
# describe_delta / calendar_*_delta run between validation and storing (they build the commit message from the parsed objects):
# not under contract; that they leave what gets stored alone is checked by the store explorer on every run
PROPS["C14"]["bounded_always"] = {"xandikos.icalendar.ICalendarFile.describe_delta": {
    "driver": "store_explore.py", "request": {"backends": ["tree-git"]},
    "bound": "tree-git: histories of <= 5 store operations (quick: 250 seeded samples; thorough: all of length <= 2 plus 3000 seeded samples of length <= 6) whose uploads carry "
             "multi-valued properties in unsorted order; after every acknowledged write the stored bytes must equal normalized() of a "
             "freshly parsed copy of the upload"}}
PROPS["C06"]["functions"] += ["xandikos.icalendar.ICalendarFile.get_uid"]
PROPS["C14"]["functions"] += ["xandikos.store.open_by_extension"]
IC = "xandikos.icalendar."
FILTERS = "filters.py"
_FILTER_FNS = [IC + "ComponentTimeRangeMatcher.match", IC + "PropertyTimeRangeMatcher.match", IC + "TextMatcher.match",
               IC + "TextMatcher.match@category", IC + "ParameterFilter.match", IC + "PropertyFilter.match",
               IC + "ComponentFilter.match", IC + "CalendarFilter.check"]
_FILTER_BOUND = ("CALDAV:filter grammar: VCALENDAR > {VEVENT, VTODO, VJOURNAL} > {empty, is-not-defined, 3 time-ranges, VALARM "
                 "(is-not-)defined, prop-filter on 5 properties x {empty, is-not-defined, text-match (plain / negated / i;octet), "
                 "3 time-ranges, param-filter (is-not-)defined / text-match}} x 6 calendar objects (1026 cases), parsed by "
                 "caldav.parse_filter and evaluated by CalendarFilter.check on real icalendar objects")
PROPS["C11"]["functions"] += ["xandikos.icalendar.as_tz_aware_ts", TR_FB] + _FILTER_FNS
PROPS["C11"]["replay"][TR_FB] = FILTERS
PROPS["C11"]["standins"][TR_FB] = {"driver": FILTERS, "bound": _FILTER_BOUND}
for _f in _FILTER_FNS:
    PROPS["C11"]["replay"][_f] = FILTERS
    PROPS["C11"]["standins"][_f] = {"driver": FILTERS, "bound": _FILTER_BOUND}
# the XML -> filter-tree parser (caldav.parse_filter and helpers take bound methods of the tree
# under construction as arguments: outside the verifier's reach) is covered by the bounded
# explorer on every run
PROPS["C11"]["bounded_always"] = {"xandikos.caldav.parse_filter": {"driver": FILTERS, "bound": _FILTER_BOUND}}
PROPS["C11"]["level"] = "other"
PROPS["C11"]["explanation"] = (
    "RFC 4791 9.9 time-range tables (VEVENT, VTODO, VJOURNAL), how DATE / floating / zoned values are placed on the time line, "
    "and comp-filter / prop-filter / param-filter / text-match evaluation are discharged function by function against the RFC; "
    "the XML-to-filter parser and the report driver are covered by a bounded explorer only; text-match implements equality "
    "instead of substring (known finding); multi-instance properties and VALARM time-ranges are outside the contracts.")
PROPS["C11"]["replay"]["xandikos.icalendar.as_tz_aware_ts"] = PURE
PROPS["C11"]["standins"]["xandikos.icalendar.as_tz_aware_ts"] = {"driver": PURE, "bound": "6 date / floating / zoned values x 4 default zones"}
INDEX_EXPLORE = "index_explore.py"
_IDX_BOUND = ("seeded histories of 4-14 steps (quick: 60, thorough: 750, per back end (tree-git, vdir) and indexing threshold (0, 2)): puts of 5 "
              "calendar object shapes (incl. two VEVENTs in one object, VEVENT+VTODO) under 3 names, deletes, unparseable members, store "
              "re-open, 10 filters each repeated 1-3 times so that their keys pass the threshold and the index is reset and extended; after "
              "every query the result is compared with a direct evaluation of a fresh filter on every member")
_IDX = "xandikos.store.index.MemoryIndex."
PROPS["C10"] = {
    "level": "other",
    "functions": [_IDX + "reset", _IDX + "add_values", _IDX + "get_values", _IDX + "available_keys",
                  "xandikos.store.index.AutoIndexManager.find_present_keys", "xandikos.store.Store.iter_with_filter"],
    "explanation": "The in-memory index is under contract (reset forgets every covered etag, add_values records exactly the given values "
                   "for one etag, get_values returns exactly what was recorded) and so is the index manager (the index path is chosen only "
                   "when every key group of the filter is indexed, otherwise the index is untouched or reset to a superset of its keys "
                   "with nothing covered); that the index-side filter evaluation agrees with the object-side one for every filter, and "
                   "the two evaluation loops (Store._iter_with_filter_indexes / _naive, ASSUMED interfaces for the verified path choice in "
                   "Store.iter_with_filter) are covered by the bounded history explorer only. One deviation is a known finding (component time-range over an "
                   "object with several components of the filtered type).",
    "replay": {f: INDEX_EXPLORE for f in [_IDX + "reset", _IDX + "add_values", _IDX + "get_values", _IDX + "available_keys",
                                          "xandikos.store.index.AutoIndexManager.find_present_keys"]},
    "standins": {f: {"driver": INDEX_EXPLORE, "bound": _IDX_BOUND} for f in [_IDX + "reset", _IDX + "add_values", _IDX + "get_values",
                                                                             _IDX + "available_keys",
                                                                             "xandikos.store.index.AutoIndexManager.find_present_keys"]},
    "bounded_always": {"xandikos.store.Store.iter_with_filter": {"driver": INDEX_EXPLORE, "bound": _IDX_BOUND}},
}
SCHEDULE = "schedule_explore.py"
_SCHED_BOUND = ("6 scenarios of 2-3 store operations (conditional / unconditional puts of new and existing names with equal and different "
                "UIDs, deletes) x (separate store objects = processes | one shared store object = worker threads) x (tree-git, bare-git); "
                "every schedule with <= 1 (quick) / <= 2 (thorough) preemptions over the yield points (uid/etag check, lock file, index "
                "read, commit, ref update, index write), at most 150 / 1500 schedules per case; answers and final contents must be those "
                "of some serial order of the operations that were not refused as locked")
PROPS["C05"] = {
    "level": "other",
    "functions": [G + "TreeGitStore._import_one", G + "TreeGitStore.delete_one", G + "GitStore._check_duplicate"],
    "explanation": "Contracts are over one call, so they decide only the lock discipline of each write primitive: the tree store's index "
                   "read-modify-write, object writes and commit all happen between acquiring and releasing index.lock, LockedError is raised "
                   "exactly when the lock is busy and then nothing was written, and the uid / etag check has no effect of its own. "
                   "Interleavings are explored by a bounded cooperative-scheduler stand-in only. Genuine deviations are known findings: the "
                   "check runs outside the lock (tree store: two conditional updates / same-UID creates both succeed), and the bare store "
                   "commits a stale tree (lost updates).",
    "replay": {f: SCHEDULE for f in [G + "TreeGitStore._import_one", G + "TreeGitStore.delete_one", G + "GitStore._check_duplicate"]},
    "standins": {f: {"driver": SCHEDULE, "bound": _SCHED_BOUND} for f in [G + "TreeGitStore._import_one", G + "TreeGitStore.delete_one",
                                                                           G + "GitStore._check_duplicate"]},
    "bounded_always": {"xandikos.store.git.GitStore.import_one": {"driver": SCHEDULE, "bound": _SCHED_BOUND},
                       "sequential histories through two store objects (processes) on one directory": {
                           "driver": "store_explore.py",
                           "bound": "histories of <= 5 store operations (quick: 4 fixed skeletons + 250 seeded samples per back end) in which the "
                                    "acting store object switches between two objects opened on the same directory: what one process keeps in "
                                    "memory (uid map, tags) must not be trusted across another process's writes"}},
}
DISCOVERY = "discovery_explore.py"
_DISC_BOUND = ("2 front ends, started through their real entry points (xandikos.web.main up to socket setup; import of xandikos.wsgi) x 4 "
               "route prefixes ('/', '/dav', '/dav/', '/a/b/') x 4 principal paths (with/without trailing slash, nested) x restart sequences "
               "(none, with --defaults again, without any flag; thorough: both orders) after a first start with --defaults; a bare git "
               "calendar is provisioned into the home set and one PUT is made before the restarts; every href is resolved as a client "
               "would (RFC 3986) and only returned hrefs are followed; the .well-known redirect must point at the route prefix")
PROPS["C18"] = {
    "level": "other",
    "functions": ["xandikos.web.create_principal_defaults", G + "TreeGitStore.subdirectories"],
    "explanation": "Under contract: the (re)start step that creates the default collections attempts exactly the three default paths, sets a "
                   "type only on what it has just created and never removes anything; the Depth 1 listing of a home set is made of every "
                   "sub-directory except git's control directory. The discovery chain itself (current-user-principal, home sets, listing, "
                   "front ends, prefixes, restarts) is a whole-deployment property: covered by the bounded discovery explorer only.",
    "replay": {"xandikos.web.create_principal_defaults": DISCOVERY, G + "TreeGitStore.subdirectories": DISCOVERY},
    "standins": {"xandikos.web.create_principal_defaults": {"driver": DISCOVERY, "bound": _DISC_BOUND},
                 G + "TreeGitStore.subdirectories": {"driver": DISCOVERY, "bound": _DISC_BOUND}},
    "bounded_always": {"xandikos.web.main": {"driver": DISCOVERY, "bound": _DISC_BOUND}},
}
PROPS["C10"]["replay"]["xandikos.store.Store.iter_with_filter"] = INDEX_EXPLORE
PROPS["C10"]["standins"]["xandikos.store.Store.iter_with_filter"] = {"driver": INDEX_EXPLORE, "bound": _IDX_BOUND}
PROPS["C13"] = {
    "level": "proof",
    "functions": [WEB + "XandikosBackend._map_to_file_path", WEB + "XandikosBackend.get_resource",
                  WEB + "XandikosBackend.create_collection", W + "MkcolMethod.handle",
                  WEB + "StoreBasedCollection.delete_member",
                  # member level: the name a handler passes down is one path segment, and it reaches the store unchanged
                  W + "PutMethod.handle", W + "DeleteMethod.handle", W + "PostMethod.handle",
                  WEB + "StoreBasedCollection.create_member", G + "GitStore.import_one"],
    "assumptions": ["no symbolic links inside the data root", "dulwich and os primitives touch only the path they are given"],
    # 'a refused MKCOL creates nothing' is C01's obligation (where its known finding is listed)
    "exclude": ["nothing_created"],
}
PROPS["C16"] = {
    "level": "proof",
    "functions": [W + "ensure_trailing_slash", W + "create_href", W + "read_href_element", W + "href_to_path",
                  W + "traverse_resource", W + "PostMethod.handle",
                  WEB + "StoreBasedCollection.members", WEB + "StoreBasedCollection.subcollections",
                  WEB + "StoreBasedCollection._get_subcollection", G + "TreeGitStore.subdirectories", G + "GitStore.iter_with_etag"],
}
PROPS["C17"] = {
    "level": "other",
    "functions": [W + "read_href_element", W + "href_to_path", W + "_get_resources_by_hrefs"],
    "explanation": "Soundness of every multiget answer (right resource for the href, independence from the other hrefs), "
                   "'no href is answered twice', the href codec, the REPORT dispatch and the multiget driver (for requests of the usual "
                   "shape - the property request first, then the hrefs: the resolver is asked once with exactly the requested hrefs and "
                   "every answer becomes exactly one response, 404 or 200 with that resource's properties) are discharged; 'every "
                   "requested href is answered at least once' inside the resolver, other request shapes and the serialisation of the "
                   "multistatus are covered only by the bounded HTTP stand-in (DESIGN 6/C17).",
}
PROPS["C17"]["functions"] += ["xandikos.caldav.CalendarDataProperty.get_value_ext", W + "Backend.get_resources"]
PROPS["C12"]["functions"] += ["xandikos.collation._match@bytes"]
PROPS["C13"]["functions"] += [G + "GitStore.destroy", WEB + "StoreBasedCollection.destroy"]
PROPS["C01"]["functions"] += [G + "GitStore.destroy", WEB + "StoreBasedCollection.destroy"]
PROPS["C11"]["functions"] += ["xandikos.caldav.CalendarDataProperty.get_value_ext"]
for _pid in ("C11", "C17"):
    PROPS[_pid].setdefault("replay", {})["xandikos.caldav.CalendarDataProperty.get_value_ext"] = HTTP
    PROPS[_pid].setdefault("standins", {})["xandikos.caldav.CalendarDataProperty.get_value_ext"] = {
        "driver": HTTP, "bound": "calendar-multiget after every step of the HTTP model histories: calendar-data must equal the GET body "
                                 "(modulo XML line-end normalisation), bodies with non-BMP and XML metacharacters; " + _HTTP_BOUND}
PROPS["C02"]["functions"] += [W + "GetETagProperty.get_value"]
PROPS["C16"]["functions"] += [W + "create_href@based", W + "CurrentUserPrincipalProperty.get_value"]
PROPS["C18"]["functions"] += [W + "CurrentUserPrincipalProperty.get_value", W + "create_href@based",
                              WEB + "XandikosBackend._mark_as_principal", WEB + "XandikosBackend.create_principal"]
for _f in (WEB + "XandikosBackend._mark_as_principal", WEB + "XandikosBackend.create_principal"):
    PROPS["C18"]["replay"][_f] = DISCOVERY
    PROPS["C18"]["standins"][_f] = {"driver": DISCOVERY, "bound": _DISC_BOUND}
for _f in (W + "CurrentUserPrincipalProperty.get_value", W + "create_href@based"):
    PROPS["C18"]["replay"][_f] = DISCOVERY
    PROPS["C18"]["standins"][_f] = {"driver": DISCOVERY, "bound": _DISC_BOUND}
    PROPS["C16"].setdefault("replay", {})[_f] = DISCOVERY
    PROPS["C16"].setdefault("standins", {})[_f] = {"driver": DISCOVERY, "bound": _DISC_BOUND}
for _f in (WEB + "StoreBasedCollection.members", WEB + "StoreBasedCollection.subcollections",
           WEB + "StoreBasedCollection._get_subcollection", G + "TreeGitStore.subdirectories"):
    PROPS["C16"].setdefault("replay", {})[_f] = HTTP
    PROPS["C16"].setdefault("standins", {})[_f] = {"driver": HTTP, "bound": "MKCOL / MKCALENDAR / DELETE of sub-collections of a home set, a restart, each followed by a Depth 1 PROPFIND whose response hrefs must be exactly the existing members; " + _HTTP_BOUND}
for _pid in ("C01", "C02", "C03", "C13", "C16", "C17"):
    for _f in PROPS[_pid]["functions"]:
        if _f.startswith(W) or "XandikosBackend" in _f:
            PROPS[_pid].setdefault("replay", {}).setdefault(_f, HTTP)
            PROPS[_pid].setdefault("standins", {}).setdefault(_f, {"driver": HTTP, "bound": _HTTP_BOUND})

V = "xandikos.store.vdir.VdirStore."
PROPS["C01"]["functions"] += [V + "import_one", V + "delete_one", V + "_get_etag"]
PROPS["C02"]["functions"] += [V + "_get_etag", V + "import_one", V + "_get_raw"]
PROPS["C03"]["functions"] += [V + "import_one", V + "delete_one"]
PROPS["C04"]["functions"] += [V + "import_one", "xandikos.store.git.RepoCollectionMetadata._write_config",
                              "xandikos.store.git.TreeGitStore._import_one@metadata"]
STORE_EXPLORE = "store_explore.py"
_STORE_BOUND = ("histories of <= 5 store operations (quick: 250 seeded samples per back end; thorough: all of length <= 2 plus 3000 seeded samples of length <= 6) over "
                "2 names x 2 uids x {no, current, stale etag}, deletes, restarts, on tree-git, bare-git and vdir")
_VDIR_REST = {V + "_scan_uids": {"driver": STORE_EXPLORE, "request": {"backends": ["vdir"]},
                                 "bound": "vdir only: histories of <= 5 store operations (quick: 250 seeded samples; thorough: all of "
                                          "length <= 2 plus 3000 seeded samples of length <= 6) over 2 names x 2 uids x {no, current, stale etag}, deletes, restarts. Stands in "
                                          "for VdirStore._scan_uids / _check_duplicate / iter_with_etag, which are not under contract."}}
for _pid in ("C03", "C06"):
    PROPS[_pid]["bounded_always"] = dict(_VDIR_REST)
# C01 is a property of whole request histories: the store explorer runs on all three back ends on every check (this also covers
# the helpers between validation and the write primitive - describe_delta, component factories - that carry no contract)
PROPS["C01"]["bounded_always"] = {"xandikos.store.Store.import_one (histories)": {
    "driver": STORE_EXPLORE, "bound": _STORE_BOUND}}
_STORE_BOUND = ("histories of <= 5 store operations (quick: 250 seeded samples per back end; thorough: all of length <= 2 plus 3000 seeded samples of length <= 6) over "
                "2 names x 2 uids x {no, current, stale etag}, deletes, restarts, on tree-git, bare-git and vdir")
# what of each proof-level property's statement is produced by code that carries no contract (stated in the level text)
_GAPS = {
    "C02": "the multiget / sync-collection drivers and the allprop form of PROPFIND, which assemble responses in which getetag appears "
           "(PROPFIND with a {DAV:}prop body at Depth 0/1, get_property_from_element, the handler GetETagProperty.get_value, GET, PUT and "
           "the store are under contract).",
    "C03": "the aiohttp front end's header access (the WSGI adapter is under contract); methods other than GET / PUT / DELETE.",
    "C06": "VdirStore._scan_uids / _check_duplicate (not used by the server, which opens git stores only).",
    "C07": "sync-collection requests that are not of the usual shape (sync-token, sync-level, prop in this order) or carry DAV:limit; the "
           "properties shown for a *changed* member (only those that differ are shown; for a created member all requested ones are, and "
           "that is under contract); serialisation of the multistatus.",
    "C08": "the allprop form of PROPFIND and the serialisation of the multistatus; the getctag / sync-token property handlers, PROPFIND "
           "({DAV:}prop, Depth 0/1), get_property_from_element and StoreBasedCollection.get_ctag / get_sync_token / get_etag are under contract.",
    "C09": "GitStore.create / open (the representation invariant is assumed of the repository found on disk).",
    "C13": "the two front ends up to the request path they hand to the application (WSGIRequest is under contract for headers and "
           "path_info decoding); dulwich's own file access below the repository path it is given.",
    "C16": "PROPFIND at Depth infinity and its allprop / propname forms (Depth 0/1 with any body is under contract: one response per "
           "traversed resource under the listing lemma's href); serialisation of the multistatus (Status.aselement); the aiohttp front end.",
}
for _pid, _g in _GAPS.items():
    if PROPS[_pid].get("level", "proof") == "proof":
        PROPS[_pid]["gap"] = _g
_PF = ["xandikos.webdav.get_property_from_element", "xandikos.webdav.get_properties", "xandikos.webdav.PropfindMethod.handle"]
for _pid in ("C02", "C08", "C15", "C16"):
    PROPS[_pid]["functions"] += _PF
PROPS["C15"]["functions"] += ["xandikos.webdav.ProppatchMethod.handle"]
for _pid in ("C07", "C11", "C12", "C17"):
    PROPS[_pid]["functions"] += ["xandikos.webdav.ReportMethod.handle"]
PROPS["C17"]["functions"] += ["xandikos.davcommon.MultiGetReporter.report"]
PROPS["C07"]["functions"] += ["xandikos.sync.SyncCollectionReporter.report"]
PROPS["C08"]["functions"] += ["xandikos.webdav.GetCTagProperty.get_value", "xandikos.sync.SyncTokenProperty.get_value"]
PROPS["C07"]["functions"] += ["xandikos.sync.SyncTokenProperty.get_value"]
# C09: a property write is a commit too (one iff the stored bytes differ)
PROPS["C09"]["functions"] += ["xandikos.store.git.GitStore.config.<locals>.save_config",
                              "xandikos.store.git.BareGitStore._import_one@metadata", "xandikos.store.git.TreeGitStore._import_one@metadata"]
# refinement checks: the git stores' own bodies against the *interface* contracts the generic code is verified with
_RF = "xandikos.store.git."
PROPS["C01"]["functions"] += [_RF + c + m for c in ("BareGitStore", "TreeGitStore") for m in ("._import_one@iface", ".delete_one@iface")]
PROPS["C03"]["functions"] += [_RF + c + m for c in ("BareGitStore", "TreeGitStore") for m in ("._get_etag@iface", ".delete_one@iface")]
PROPS["C06"]["functions"] += [_RF + c + "._import_one@iface" for c in ("BareGitStore", "TreeGitStore")]
PROPS["C15"]["functions"] += [_RF + c + "._import_one@iface-metadata" for c in ("BareGitStore", "TreeGitStore")]
for _pid, _sp in PROPS.items():
    for _f in _sp["functions"]:
        if _f.startswith("xandikos.store.") or _f.startswith("xandikos.web.ObjectResource") or _f.startswith("xandikos.web.StoreBasedCollection"):
            _sp.setdefault("replay", {}).setdefault(_f, STORE_EXPLORE)
            _sp.setdefault("standins", {}).setdefault(_f, {"driver": STORE_EXPLORE, "bound": _STORE_BOUND})

# End-to-end explorers that run on EVERY check of a property (labelled bounded, never counted as proved): they
# cover the functions between the contracts - helpers, property handlers, report drivers, caches added later -
# that carry no contract of their own.
_HTTP_ALL = ("the whole HTTP explorer: " + _HTTP_BOUND + "; Depth 1 listings after MKCOL/MKCALENDAR/DELETE/restart; member names with "
             "encoded separators and the reserved names .xandikos / .git (PUT, GET, DELETE); multiget with hrefs in sibling collections "
             "sharing a name prefix compared with single-href multigets; tags of a collection deleted and re-created at the same URL")
CARD_FILTERS = "card_filters.py"
_CARD_BOUND = ("REPORT addressbook-query through the WSGI application on 5 stored cards (folded lines, escaped characters, non-ASCII names, "
               "several EMAIL instances) x 90 filters (every match type / collation / negation, is-not-defined, param-filter, 60 seeded "
               "pairs under anyof / allof / default, empty filter), address-data equal to the stored card, nresults=1; oracle = the "
               "contract text of contracts/carddav_filters.py executed natively on the parsed cards")
_ALWAYS = {
    "C12": [("addressbook-query (HTTP)", CARD_FILTERS, _CARD_BOUND, {})],
    "C01": [("request histories (store)", STORE_EXPLORE, _STORE_BOUND, {}), ("request histories (HTTP)", HTTP, _HTTP_ALL, {})],
    "C02": [("etag views (store)", STORE_EXPLORE, _STORE_BOUND, {}), ("etag views (HTTP)", HTTP, _HTTP_ALL, {})],
    "C03": [("conditional requests (store)", STORE_EXPLORE, _STORE_BOUND, {}), ("conditional requests (HTTP)", HTTP, _HTTP_ALL, {})],
    "C04": [("write primitives (store)", STORE_EXPLORE, _STORE_BOUND, {}),
            ("crash points (fault enumeration)", "crash_explore.py",
             "every crash point - before/after each rename, replace, unlink, mkdir, open-for-write, close of a written file, and the middle of "
             "every file write - of replace and create on tree-git and vdir, replace on bare-git and set-displayname with git-config metadata (quick; "
             "thorough: replace, create, delete, set-displayname on all three, set-displayname with git-config metadata on both git forms), child process killed with os._exit, state inspected by a fresh process: collection lists, "
             "interrupted resource old or new and hashing to its etag, other resources intact, no reference to a missing object", {})],
    "C06": [("uid uniqueness (store)", STORE_EXPLORE, _STORE_BOUND, {})],
    "C07": [("change lists (store)", STORE_EXPLORE, _STORE_BOUND, {"backends": ["tree-git", "bare-git"]}),
            ("sync-collection over HTTP", HTTP, _HTTP_ALL + "; after every step a sync-collection REPORT from the empty token and from the last "
             "three issued tokens must list exactly the members whose etag differs (404 for removed ones), and an unknown token is refused", {})],
    "C08": [("ctag (store)", STORE_EXPLORE, _STORE_BOUND, {"backends": ["tree-git", "bare-git"]}), ("tags over HTTP", HTTP, _HTTP_ALL, {})],
    "C09": [("git history (store)", STORE_EXPLORE, _STORE_BOUND, {"backends": ["tree-git", "bare-git"]})],
    "C13": [("confinement (HTTP)", HTTP, _HTTP_ALL, {})],
    "C16": [("listings and hrefs (HTTP)", HTTP, _HTTP_ALL, {}), ("discovery hrefs", DISCOVERY, _DISC_BOUND, {})],
    "C17": [("multiget (HTTP)", HTTP, _HTTP_ALL, {})],
}
for _pid, _lst in _ALWAYS.items():
    for _label, _drv, _bound, _req in _lst:
        PROPS[_pid].setdefault("bounded_always", {})[_label] = {"driver": _drv, "bound": _bound, "request": dict(_req)}
# superseded by the entries above
for _pid in ("C01", "C03", "C06"):
    PROPS[_pid]["bounded_always"].pop(V + "_scan_uids", None)
PROPS["C01"]["bounded_always"].pop("xandikos.store.Store.import_one (histories)", None)

for _sp in PROPS.values():
    _seen = []
    for _f in _sp["functions"]:
        if _f not in _seen:
            _seen.append(_f)
    _sp["functions"] = _seen

def _equals_not_substring(cex, rec):
    # the refuting model distinguishes the two text primitives
    obs = (cex or {}).get("$ghost") or []
    eq = {o["value"] for o in obs if o.get("f") == "collate" and (o.get("args") or [None] * 4)[3] == "equals"}
    co = {o["value"] for o in obs if o.get("f") == "collate" and (o.get("args") or [None] * 4)[3] == "contains"}
    return (bool(eq) and bool(co) and eq != co) or not obs


WITNESS = {
    "equals_not_substring": _equals_not_substring,
    # the exception was raised after the body had been read and the collection created
    "raised_after_creation": lambda cex, rec: rec.get("effects", [])[:1] == ["read_body"] and "created" in rec.get("effects", []),
}
NOT_APPLICABLE = {}
