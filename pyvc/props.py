"""Which functions each property depends on, replay drivers, bounded stand-ins.

The property statements themselves are in /verif/properties.jsonl (given, fixed)."""

PURE = "pure.py"

PROPS = {
    "C02": {
        "level": "proof",
        "functions": [
            "xandikos.web.create_strong_etag",
            "xandikos.web.extract_strong_etag",
        ],
        "replay": {"xandikos.web.create_strong_etag": PURE, "xandikos.web.extract_strong_etag": PURE},
        "standins": {"xandikos.web.create_strong_etag": {"driver": PURE, "bound": "all strings of length <= 4 over {\", a, 0, space}"}},
    },
    "C03": {
        "level": "proof",
        "functions": [
            "xandikos.webdav.etag_matches",
            "xandikos.web.extract_strong_etag",
        ],
        "replay": {"xandikos.webdav.etag_matches": PURE, "xandikos.web.extract_strong_etag": PURE},
        "standins": {"xandikos.webdav.etag_matches": {"driver": PURE, "bound": "header values of <= 4 tokens over {\"a\",\"b\",*,space,comma,a,\",''} x 4 etags"}},
    },
    "C06": {
        "level": "proof",
        "functions": [
            "xandikos.store.git.GitStore._scan_uids",
        ],
    },
    "C11": {
        "level": "proof",
        "functions": [
            "xandikos.icalendar.apply_time_range_vevent",
            "xandikos.icalendar.apply_time_range_vtodo",
            "xandikos.icalendar.apply_time_range_vjournal",
        ],
        "replay": {
            "xandikos.icalendar.apply_time_range_vevent": PURE,
            "xandikos.icalendar.apply_time_range_vtodo": PURE,
            "xandikos.icalendar.apply_time_range_vjournal": PURE,
        },
        "standins": {
            "xandikos.icalendar.apply_time_range_vevent": {"driver": PURE, "bound": "presence subsets x 3 time values x boundary +-1 grid"},
            "xandikos.icalendar.apply_time_range_vtodo": {"driver": PURE, "bound": "presence subsets x 3 time values x boundary +-1 grid"},
            "xandikos.icalendar.apply_time_range_vjournal": {"driver": PURE, "bound": "presence subsets x 3 time values x boundary +-1 grid"},
        },
    },
}

WITNESS = {}
NOT_APPLICABLE = {}
