"""Models of str / bytes methods (assumed contracts on the Python built-ins).

Exact where SMT string theory has the operator; otherwise an uninterpreted
function plus the facts listed next to it.  Every UF application is memoised on
its argument terms, so code and specification that apply the same method to the
same term get the *same* result.
"""

from __future__ import annotations

import z3

from .values import *  # noqa: F401,F403
from .values import VStr, VInt, VBool, VList, VTuple, VOpt, VNone, NONE, VOpaque, Unsupported, STR, INT, BOOL
from . import values as vals

_ufs = {}


def uf(name, *sorts):
    key = (name,) + tuple(str(s) for s in sorts)
    if key not in _ufs:
        _ufs[key] = z3.Function(name, *sorts)
    return _ufs[key]


def _memo(it, key, build):
    m = it.path.memo
    if key not in m:
        m[key] = build()
    return m[key]


_KEEP = []


def _tid(t):
    """Identity of a term for memo keys.  The term is kept alive: z3 recycles ast ids."""
    _KEEP.append(t)
    return t.get_id() if hasattr(t, "get_id") else id(t)


def _s(v, recv):
    """Coerce an argument to a string term of the receiver's flavour."""
    if isinstance(v, VStr):
        return v.t
    raise Unsupported(f"string argument expected, got {v!r}")


def _charset_re(chars: str):
    opts = [z3.Re(z3.StringVal(c)) for c in chars]
    return opts[0] if len(opts) == 1 else z3.Union(*opts)


def strip_model(it, recv: VStr, chars, left=True, right=True):
    """s.strip(chars) for a concrete character set: s = a ++ r ++ b with a, b in chars*
    and r not starting / ending in chars.  Exact."""
    if chars is None:
        cs = " \t\n\r\x0b\x0c"
    else:
        cs = vals.concrete_str(chars)
        if cs is None:
            raise Unsupported("strip with a symbolic character set")
    cst = vals.concrete_str(recv)
    if cst is not None:
        r = cst
        if left:
            r = r.lstrip(cs)
        if right:
            r = r.rstrip(cs)
        return VStr(z3.StringVal(r), recv.b)
    key = ("strip", _tid(recv.t), cs, left, right)

    def build():
        name = {(True, True): "strip", (True, False): "lstrip", (False, True): "rstrip"}[(left, right)]
        f = uf(f"{name}[{cs!r}]", STR, STR)
        r = f(recv.t)
        if not cs:
            it.path.assume(r == recv.t)
            return r
        cre = z3.Star(_charset_re(cs))
        a = it.path.const("strip_l", STR)
        b = it.path.const("strip_r", STR)
        it.path.assume(recv.t == z3.Concat(a, r, b))
        if len(cs) == 1:
            # consequences of a, b in c*, stated without a regular expression (cheap for the solvers)
            c1 = z3.StringVal(cs)
            for x in (a, b):
                it.path.assume(z3.Or(x == z3.StringVal(""), z3.And(z3.PrefixOf(c1, x), z3.SuffixOf(c1, x))))
        if left:
            it.path.assume(z3.InRe(a, cre))
            for c in cs:
                it.path.assume(z3.Not(z3.PrefixOf(z3.StringVal(c), r)))
        else:
            it.path.assume(a == z3.StringVal(""))
        if right:
            it.path.assume(z3.InRe(b, cre))
            for c in cs:
                it.path.assume(z3.Not(z3.SuffixOf(z3.StringVal(c), r)))
        else:
            it.path.assume(b == z3.StringVal(""))
        return r

    return VStr(_memo(it, key, build), recv.b)


def split_model(it, recv: VStr, sep):
    """s.split(sep): a list `parts` with n >= 1, sep.join(parts) == s (via the
    `join` UF), and no part containing sep.  Not exact (does not pin the parts
    down individually) but sound; memoised per (s, sep)."""
    if sep is None:
        raise Unsupported("split() without separator")
    cst, csep = vals.concrete_str(recv), vals.concrete_str(sep)
    if cst is not None and csep is not None:
        return VList(items=[VStr(z3.StringVal(p), recv.b) for p in cst.split(csep)])
    key = ("split", _tid(recv.t), _tid(sep.t))

    def build():
        # functions of (s, sep), so that equal strings have equal splits
        n = z3.Function("str.split.n", STR, STR, INT)(recv.t, sep.t)
        arr = z3.Function("str.split.parts", STR, STR, z3.ArraySort(INT, STR))(recv.t, sep.t)
        it.path.assume(n >= 1)
        j = z3.FreshConst(INT, "j")
        it.path.assume(
            z3.ForAll([j], z3.Implies(z3.And(0 <= j, j < n), z3.Not(z3.Contains(z3.Select(arr, j), sep.t))))
        )
        # no separator in s  <=>  exactly one part, equal to s
        it.path.assume(z3.Implies(z3.Not(z3.Contains(recv.t, sep.t)), z3.And(n == 1, z3.Select(arr, 0) == recv.t)))
        it.path.assume(z3.Implies(z3.Contains(recv.t, sep.t), n >= 2))
        # first part is the prefix before the first separator
        it.path.assume(z3.PrefixOf(z3.Select(arr, 0), recv.t))
        it.path.assume(z3.Implies(n >= 2, z3.PrefixOf(z3.Concat(z3.Select(arr, 0), sep.t), recv.t)))
        it.path.assume(z3.SuffixOf(z3.Select(arr, n - 1), recv.t))
        return VList(n, VStr(arr, recv.b))

    return _memo(it, key, build)


def unary_uf(it, name, recv: VStr, facts=None, out_b=None):
    key = (name, _tid(recv.t))

    def build():
        r = uf(name, STR, STR)(recv.t)
        if facts:
            for f in facts(recv.t, r):
                it.path.assume(f)
        return r

    return VStr(_memo(it, key, build), recv.b if out_b is None else out_b)


def upper_facts(s, r):
    up = uf("str.upper", STR, STR)
    return [z3.Length(r) == z3.Length(s), up(r) == r]


def lower_facts(s, r):
    lo = uf("str.lower", STR, STR)
    return [z3.Length(r) == z3.Length(s), lo(r) == r]


def encode_model(it, recv: VStr, args, kwargs):
    enc = vals.concrete_str(args[0]) if args else "utf-8"
    if enc is None:
        raise Unsupported("symbolic encoding name")
    enc = enc.lower().replace("_", "-")
    import codecs

    try:
        codecs.lookup(enc)
    except LookupError:
        raise Unsupported(f"unknown text encoding {enc!r} (Python raises LookupError)")
    c = vals.concrete_str(recv)
    if c is not None:
        try:
            return VStr(c.encode(enc))
        except UnicodeError:
            pass
    e = uf(f"encode[{enc}]", STR, STR)
    d = uf(f"decode[{enc}]", STR, STR)
    r = e(recv.t)
    key = ("encode", enc, _tid(recv.t))

    def build():
        it.path.assume(d(r) == recv.t)
        it.path.assume((z3.Length(r) == 0) == (z3.Length(recv.t) == 0))
        # a '/' (or any ASCII char) is encoded as itself: needed for path reasoning
        if enc in ("utf-8", "ascii", "iso-8859-1", "latin-1"):
            ok = uf(f"encodable[{enc}]", STR, BOOL)
            it.path.assume(ok(recv.t))
        return r

    out = VStr(_memo(it, key, build), True)
    if enc == "ascii":
        # may raise UnicodeEncodeError: modelled by the predicate `is_ascii`
        isa = uf("is_ascii", STR, BOOL)
        if not it.spec_mode and not it.path.branch(isa(recv.t)):
            it.raise_builtin("UnicodeEncodeError")
    return out


def decode_model(it, recv: VStr, args, kwargs):
    enc = vals.concrete_str(args[0]) if args else "utf-8"
    if enc is None:
        raise Unsupported("symbolic encoding name")
    enc = enc.lower().replace("_", "-")
    import codecs

    try:
        codecs.lookup(enc)
    except LookupError:
        raise Unsupported(f"unknown text encoding {enc!r} (Python raises LookupError)")
    e = uf(f"encode[{enc}]", STR, STR)
    d = uf(f"decode[{enc}]", STR, STR)
    r = d(recv.t)
    key = ("decode", enc, _tid(recv.t))

    def build():
        # bytes handled by the analysed code are assumed valid in their encoding
        # (object ids are ASCII hex; names were produced by encode): TRUSTED.
        it.path.assume(e(r) == recv.t)
        it.path.assume((z3.Length(r) == 0) == (z3.Length(recv.t) == 0))
        if enc == "ascii":
            it.path.assume(uf("is_ascii", STR, BOOL)(r))   # what decodes as ASCII is an ASCII string
        return r

    it.path.dropped.add("bytes.decode assumed total (inputs valid in their encoding)")
    return VStr(_memo(it, key, build), False)


def slice_model(it, recv: VStr, lo, hi):
    n = z3.Length(recv.t)

    def norm(x, default):
        if x is None or isinstance(x, VNone):
            return default
        if not isinstance(x, VInt):
            raise Unsupported("non-integer slice bound")
        t = x.t
        t = z3.If(t < 0, z3.If(n + t < 0, z3.IntVal(0), n + t), z3.If(t > n, n, t))
        return t

    a = norm(lo, z3.IntVal(0))
    b = norm(hi, n)
    return VStr(z3.simplify(z3.SubString(recv.t, a, z3.If(b - a < 0, z3.IntVal(0), b - a))), recv.b)


def index_model(it, recv: VStr, idx: VInt):
    n = z3.Length(recv.t)
    i = z3.If(idx.t < 0, n + idx.t, idx.t)
    if it.spec_mode:
        pass  # specification text: an index outside the string denotes the empty string / code -1 (z3's total str.at)
    elif not it.path.branch(z3.And(0 <= i, i < n)):
        it.raise_builtin("IndexError")
    if recv.b:
        return VInt(z3.StrToCode(z3.SubString(recv.t, i, 1)))
    return VStr(z3.SubString(recv.t, i, 1), False)


def call_method(it, recv: VStr, name: str, args, kwargs):
    P = it.path
    if it.spec_mode:
        if any(isinstance(a, VNone) for a in args):
            return vals.BOTTOM
        args = [a.val if isinstance(a, VOpt) else a for a in args]
    if name in ("strip", "lstrip", "rstrip"):
        chars = args[0] if args else None
        return strip_model(it, recv, chars, left=name != "rstrip", right=name != "lstrip")
    if name == "split":
        if len(args) > 1 or kwargs:
            c0, c1 = vals.concrete_str(recv), vals.concrete_str(args[0])
            mx = vals.concrete_int(args[1]) if len(args) > 1 else None
            if c0 is not None and c1 is not None and mx is not None:
                return VList(items=[VStr(z3.StringVal(p_), recv.b) for p_ in c0.split(c1, mx)])
            if c1 is not None and mx == 1:
                # s.split(sep, 1): [s] if sep not in s else [before first sep, rest]
                i = z3.IndexOf(recv.t, args[0].t, 0)
                if it.path.branch(i < 0):
                    return VList(items=[recv])
                n = z3.Length(recv.t)
                return VList(items=[VStr(z3.SubString(recv.t, 0, i), recv.b),
                                    VStr(z3.SubString(recv.t, i + z3.Length(args[0].t), n), recv.b)])
            raise Unsupported("split with maxsplit")
        return split_model(it, recv, args[0] if args else None)
    if name in ("startswith", "endswith"):
        op = z3.PrefixOf if name == "startswith" else z3.SuffixOf
        a = args[0]
        if isinstance(a, (VTuple, VList)):
            items = a.items
            return VBool(z3.Or([op(_s(x, recv), recv.t) for x in items] + [z3.BoolVal(False)]))
        return VBool(op(_s(a, recv), recv.t))
    if name == "upper":
        c = vals.concrete_str(recv)
        if c is not None:
            return VStr(z3.StringVal(c.upper()), recv.b)
        return unary_uf(it, "str.upper", recv, upper_facts)
    if name == "lower":
        c = vals.concrete_str(recv)
        if c is not None:
            return VStr(z3.StringVal(c.lower()), recv.b)
        return unary_uf(it, "str.lower", recv, lower_facts)
    if name == "encode":
        return encode_model(it, recv, args, kwargs)
    if name == "decode":
        return decode_model(it, recv, args, kwargs)
    if name == "join":
        seq = args[0]
        if isinstance(seq, VOpaque) and seq.cls == "Chunks" and vals.concrete_str(recv) == "":
            from .models.dulwichmodels import joined

            return joined(it, seq)
        if isinstance(seq, (VList, VTuple)) and getattr(seq, "items", None) is not None:
            items = seq.items
            if not items:
                return VStr(z3.StringVal(""), recv.b)
            parts = []
            for i, x in enumerate(items):
                if i:
                    parts.append(recv.t)
                parts.append(_s(x, recv))
            return VStr(z3.simplify(z3.Concat(*parts)) if len(parts) > 1 else parts[0], recv.b)
        # symbolic list: uninterpreted (message text / opaque)
        P.dropped.add("str.join over a symbolic sequence: opaque result")
        return VStr(P.const("joined", STR), recv.b)
    if name == "replace":
        c0, c1, c2 = vals.concrete_str(recv), vals.concrete_str(args[0]), vals.concrete_str(args[1])
        if c0 is not None and c1 is not None and c2 is not None and len(args) == 2:
            return VStr(z3.StringVal(c0.replace(c1, c2)), recv.b)
        a, b = _s(args[0], recv), _s(args[1], recv)
        return VStr(z3.Replace(recv.t, a, b), recv.b) if False else VStr(uf("str.replace_all", STR, STR, STR, STR)(recv.t, a, b), recv.b)
    if name == "format":
        return VStr(P.const("formatted", STR), recv.b)
    if name == "translate":
        # str.translate(table): an uninterpreted, total, length-preserving function of the string
        # (one table per call site in the analysed code; the table's identity is not modelled)
        return unary_uf(it, "str.translate", recv, lambda s_, r: [z3.Length(r) == z3.Length(s_)])
    if name == "removeprefix":
        pre = _s(args[0], recv)
        n = z3.Length(recv.t)
        return VStr(z3.If(z3.PrefixOf(pre, recv.t), z3.SubString(recv.t, z3.Length(pre), n), recv.t), recv.b)
    if name == "removesuffix":
        suf = _s(args[0], recv)
        n = z3.Length(recv.t)
        return VStr(z3.If(z3.SuffixOf(suf, recv.t), z3.SubString(recv.t, 0, n - z3.Length(suf)), recv.t), recv.b)
    if name == "find":
        return VInt(z3.IndexOf(recv.t, _s(args[0], recv), 0))
    if name in ("isdigit",):
        return VBool(z3.InRe(recv.t, z3.Plus(z3.Range("0", "9"))))
    if name == "partition":
        sep = _s(args[0], recv)
        i = z3.IndexOf(recv.t, sep, 0)
        n = z3.Length(recv.t)
        head = z3.If(i < 0, recv.t, z3.SubString(recv.t, 0, i))
        s2 = z3.If(i < 0, z3.StringVal(""), sep)
        tail = z3.If(i < 0, z3.StringVal(""), z3.SubString(recv.t, i + z3.Length(sep), n))
        return VTuple([VStr(head, recv.b), VStr(s2, recv.b), VStr(tail, recv.b)])
    raise Unsupported(f"str method {name!r} has no model")
