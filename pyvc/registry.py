"""Contracts, typing sidecar, opaque interface classes, external models."""

from __future__ import annotations

import ast
import glob
import os

import z3

from .values import *  # noqa: F401,F403
from .values import (
    V, VNone, NONE, VBool, VInt, VStr, VOpt, VTuple, VList, VMap, VSet, VRef, VOpaque,
    Unsupported, STR, INT, BOOL,
)
from . import values as vals
from .callables import *  # noqa: F401,F403
from .loader import ClassInfo

VERIF_ROOT = os.path.dirname(os.path.dirname(os.path.abspath(__file__)))


class Contract:
    def __init__(self, target, module, opts, funcs, lineno, assumed=False):
        self.target = target
        self.module = module
        self.params = opts.get("params", {})
        self.returns = opts.get("returns")
        self.when = opts.get("when")
        self.yields = opts.get("yields")
        self.modifies = opts.get("modifies", [])
        self.modifies_on_raise = opts.get("modifies_on_raise", [])
        self.may_raise = opts.get("may_raise", [])
        self.locals = opts.get("locals", {})
        self.loop_modifies = {int(k): v for k, v in opts.get("loop_modifies", {}).items()}
        self.inline = opts.get("inline", False)
        self.effects = opts.get("effects", [])
        self.effects_ok = opts.get("effects_ok", [])
        self.defaults = opts.get("defaults", {})
        self.pure = opts.get("pure", False)
        self.cases = opts.get("cases")
        self.props = opts.get("props", [])
        self.inline_calls = opts.get("inline_calls", [])
        self.assumed = assumed or opts.get("assumed", False)
        self.funcs = funcs
        self.lineno = lineno

    @property
    def short(self):
        parts = self.target.split(".")
        return ".".join(parts[-2:]) if len(parts) > 2 and parts[-2][:1].isupper() else parts[-1]


class OpaqueClass:
    def __init__(self, name, opts):
        self.name = name
        self.attrs = opts.get("attrs", {})
        self.bases = opts.get("bases", [])
        self.truthy = opts.get("truthy", "true")
        self.iter = opts.get("iter")
        self.isa = opts.get("isa", [])  # external/repo class names instances are known to be
        self.nota = opts.get("nota", [])  # ... and known not to be
        self.as_int = opts.get("as_int")
        self.nonneg = opts.get("nonneg", False)
        self.maybe = opts.get("maybe", [])  # optional methods: hasattr(obj, name) is symbolic


class SpecModule:
    is_spec = True

    def __init__(self, name, path):
        self.name = name
        self.path = path
        with open(path, encoding="utf-8") as f:
            self.source = f.read()
        self.tree = ast.parse(self.source, path)
        self.functions = {}
        self.consts = {}
        self.imports = {}
        self.classes = {}

    def _resolve_relative(self, module, level):
        return module


def _lit(node):
    return ast.literal_eval(node)


class Registry:
    def __init__(self, repo, contract_dirs=None):
        self.repo = repo
        self.contracts: dict[str, Contract] = {}
        self.fields: dict[str, dict[str, str]] = {}
        self.opaques: dict[str, OpaqueClass] = {}
        self.specs: dict[str, tuple] = {}
        self.spec_modules = []
        self.externals: dict[str, object] = {}
        self.ext_classes: dict[str, object] = {}
        self.ext_bases: dict[str, list[str]] = {}
        self.const_overrides = {}
        self.spec_natives = {}
        self.model_classes = {}
        self.views = {}
        self.view_setters = {}
        self.pending_refines = []
        dirs = contract_dirs or [os.path.join(VERIF_ROOT, "contracts")]
        for d in dirs:
            for p in sorted(glob.glob(os.path.join(d, "**", "*.py"), recursive=True)):
                if os.path.basename(p).startswith("_"):
                    continue
                self.load_contract_file(p)
        for base_q, classes, ropts in self.pending_refines:
            base = self.contracts.get(base_q)
            if base is None:
                raise ValueError(f"refines: no contract for {base_q}")
            meth = base_q.split("@")[0].rsplit(".", 1)[1]
            bvariant = base_q.split("@")[1] if "@" in base_q else None
            for cq in classes:
                import copy as _copy

                c = _copy.copy(base)
                c.target = cq + "." + meth
                c.params = dict(base.params)
                if "self" in c.params:
                    c.params["self"] = "obj:" + cq
                c.funcs = dict(base.funcs)
                for k_, v_ in ropts.items():  # e.g. inline_calls=..., locals=... needed by the subclass body
                    if k_ == "extra_requires":
                        # a named specification function over the method's parameters: the subclass'
                        # representation invariant, under which the refinement is claimed
                        if v_ not in self.specs:
                            raise ValueError(f"refines: unknown specification function {v_}")
                        c.funcs["requires_rep"] = self.specs[v_][1]
                        continue
                    setattr(c, k_, v_)
                c.key = c.target + "@iface" + ("-" + bvariant if bvariant else "")
                c.when = None
                c.assumed = False
                if c.key in self.contracts:
                    raise ValueError(f"duplicate contract for {c.key}")
                self.contracts[c.key] = c
        self.spec_natives["seconds"] = lambda it, a, k: self.opaque_as_int(it, a[0].val if isinstance(a[0], VOpt) else a[0])
        def _keys_list(it, a, k):
            d = it.deref(a[0])
            if isinstance(d, VMap):
                return it.enum_map(d)[0]
            return it.enum_set(d)

        def _idx_of(it, a, k):
            d = it.deref(a[0])
            n, order, pos = it.enum_dom(d.key, d.dom)
            return VInt(pos(vals.key_term(d, a[1].val if isinstance(a[1], VOpt) else a[1])))

        self.spec_natives["keys_list"] = _keys_list
        self.spec_natives["items_list"] = lambda it, a, k: it.enum_map(it.deref(a[0]))[1]
        self.spec_natives["idx_of"] = _idx_of
        from .strings import uf as _uf

        self.spec_natives["is_ascii"] = lambda it, a, k: VBool(_uf("is_ascii", STR, BOOL)((a[0].val if isinstance(a[0], VOpt) else a[0]).t))
        self.spec_natives["effect_names"] = lambda it, a, k: vals.BOTTOM if getattr(it, "effects_opaque", False) else VList(items=[VStr(z3.StringVal(e[0])) for e in it.path.effects if e[0] != "Fs"])
        def _effect_arg(it, a, k):
            i, j = vals.concrete_int(a[0]), vals.concrete_int(a[1])
            effs = [e for e in it.path.effects if e[0] != "Fs"]
            if getattr(it, "effects_opaque", False) or i is None or j is None or i >= len(effs) or j >= len(effs[i]):
                return vals.BOTTOM
            return effs[i][j]

        self.spec_natives["effect_arg"] = _effect_arg
        def _ascii_fold(it, a, k):
            from .strings import unary_uf

            x = a[0].val if isinstance(a[0], VOpt) else a[0]
            return unary_uf(it, "str.translate", x, lambda s_, r: [z3.Length(r) == z3.Length(s_)])

        self.spec_natives["ascii_fold"] = _ascii_fold
        def _is_instance(it, a, k):
            qn = vals.concrete_str(a[1])
            ci = self.repo.lookup_class(qn)
            clsv = VClass(ci) if ci is not None else VExtClass(qn)
            return VBool(it.isinstance_(a[0], clsv))

        self.spec_natives["is_instance"] = _is_instance
        if "XmlOut" not in self.opaques:
            self.opaques["XmlOut"] = OpaqueClass("XmlOut", {"attrs": {"tag": "str"}})
        if "Match" not in self.opaques:
            self.opaques["Match"] = OpaqueClass("Match", {"truthy": "true"})   # re match objects: only tested for truth
        self.spec_natives["implies"] = lambda it, a, k: VBool(z3.Implies(it.truthy(a[0]), it.truthy(a[1])))
        def _struct_resolver(qualname):
            ci = self.repo.lookup_class(qualname)
            if ci is None:
                raise Unsupported(f"struct of unknown class {qualname}")
            fk = {}
            for c in reversed(ci.mro()):
                if isinstance(c, ClassInfo):
                    for f, k in self.fields.get(c.qualname, {}).items():
                        if not k.startswith("obj:") and not f.startswith("ghost_"):
                            fk[f] = k
            return ci, fk

        vals.STRUCT_RESOLVER = _struct_resolver
        from . import models  # noqa: F401  registers externals

        models.install(self)

    # ------------------------------------------------------------------ loading
    def load_contract_file(self, path):
        rel = os.path.relpath(path, VERIF_ROOT)
        sm = SpecModule(rel[:-3].replace("/", "."), path)
        assumed = "/assumed/" in path.replace(os.sep, "/")
        self.spec_modules.append(sm)
        for st in sm.tree.body:
            if isinstance(st, ast.FunctionDef):
                sm.functions[st.name] = st
                self.specs[st.name] = (sm, st)
            elif isinstance(st, ast.Assign) and len(st.targets) == 1 and isinstance(st.targets[0], ast.Name):
                sm.consts[st.targets[0].id] = st.value
            elif isinstance(st, ast.Expr) and isinstance(st.value, ast.Call) and isinstance(st.value.func, ast.Name):
                fn = st.value.func.id
                if fn == "fields":
                    cls = _lit(st.value.args[0])
                    self.fields.setdefault(cls, {}).update(_lit(st.value.args[1]))
                elif fn == "opaque":
                    name = _lit(st.value.args[0])
                    opts = {k.arg: _lit(k.value) for k in st.value.keywords}
                    self.opaques[name] = OpaqueClass(name, opts)
                elif fn == "ghost":
                    self.declare_ghost(_lit(st.value.args[0]), _lit(st.value.args[1]), _lit(st.value.args[2]))
                elif fn == "view":
                    self.views[(_lit(st.value.args[0]), _lit(st.value.args[1]))] = _lit(st.value.args[2])
                elif fn == "ext_base":
                    a, b = _lit(st.value.args[0]), _lit(st.value.args[1])
                    self.ext_bases.setdefault(a, []).append(b)
                elif fn == "refines":
                    # refines("pkg.Base.method", ["pkg.Sub1", ...]): the interface contract of
                    # Base.method must also hold of each subclass' own body (behavioural subtyping,
                    # checked mechanically as the variant contract  pkg.Sub.method@iface)
                    self.pending_refines.append((_lit(st.value.args[0]), _lit(st.value.args[1]),
                                                 {k.arg: _lit(k.value) for k in st.value.keywords}))
            elif isinstance(st, ast.ClassDef):
                for d in st.decorator_list:
                    if isinstance(d, ast.Call) and isinstance(d.func, ast.Name) and d.func.id == "contract":
                        target = _lit(d.args[0])
                        opts = {k.arg: _lit(k.value) for k in d.keywords}
                        funcs = {f.name: f for f in st.body if isinstance(f, ast.FunctionDef)}
                        c = Contract(target, sm, opts, funcs, st.lineno, assumed)
                        key = target + ("@" + opts["variant"] if opts.get("variant") else "")
                        if key in self.contracts:
                            raise ValueError(f"duplicate contract for {key}")
                        c.key = key
                        self.contracts[key] = c

    def declare_ghost(self, name, argkinds, retkind):
        """Uninterpreted specification function over data values."""

        def fn(it, args, kwargs, name=name, argkinds=argkinds, retkind=retkind):
            # a model object may define what an abstract ghost function means for it (e.g. in_store
            # of the concrete object-store model is membership in the repository's object set)
            if args and isinstance(args[0], VRef):
                nat = it.heap()[args[0].addr].native
                hook = getattr(nat, "ghost_" + name, None) if nat is not None else None
                if hook is not None:
                    return hook(it, args[0], list(args[1:]))
            terms = []
            for a, kd in zip(args, argkinds):
                like = vals.fresh(kd, "g")
                if isinstance(a, VRef):
                    ncell = it.heap()[a.addr]
                    if ncell.native is not None and hasattr(ncell.native, "as_opaque"):
                        a = ncell.native.as_opaque(it, a)
                a = it.deref(a)
                if isinstance(a, VOpt) and not isinstance(like, VOpt):
                    a = a.val
                if isinstance(a, VNone) and not isinstance(like, (VOpt, VNone)):
                    # partial spec terms under a false guard (e.g. effect_arg out of range): any value
                    a = vals.dummy_like(like)
                try:
                    a = vals.coerce(a, like)
                except Unsupported:
                    # ill-typed application: only arises for spec terms under a false guard
                    a = vals.dummy_like(like)
                terms += vals.canonical(a).leaves()
            sorts = [t.sort() for t in terms]

            def namer(n, s):
                if not terms:
                    return z3.Const(f"{name}/{n}", s)
                return z3.Function(f"{name}/{n}", *sorts, s)(*terms)

            out = vals.fresh(retkind, "r", namer=namer)
            from .strings import _tid

            key = ("ghostwf", name, tuple(_tid(t) for t in terms))
            if key not in it.path.memo:
                it.path.memo[key] = True
                for f in vals.wellformed(out):
                    it.path.assume(f)
                it.path.obs_log.append((name, list(args), out))
            return out

        self.spec_natives[name] = fn
        self.ghosts = getattr(self, "ghosts", {})
        self.ghosts[name] = (argkinds, retkind)

    # ------------------------------------------------------------------ lookups
    def contract_for(self, qualname):
        return self.contracts.get(qualname)

    def contract_for_call(self, it, qualname, func, args, kwargs):
        """The contract that applies to this call: the default one, unless a variant's parameter
        kinds fit the actual arguments better (e.g. `none` vs `str` for an optional parameter)."""
        default = self.contracts.get(qualname)
        variants = [c for k, c in self.contracts.items() if k.startswith(qualname + "@")]
        if default is None or not variants:
            return default
        from .ip_expr import Env

        try:
            bound = it.bind_args(func.node, list(args), dict(kwargs), Env(func.module, {}, func.closure, cls=func.owner))
        except (RaiseSignal, Unsupported):
            return default

        def fits(c):
            for pn, const in (c.when or {}).items():
                v = bound.get(pn)
                if v is None or vals.concrete_str(it.deref(v)) != const:
                    return False
            for pn, kind in c.params.items():
                v = bound.get(pn)
                d = it.deref(v) if v is not None else None
                if kind == "none" and not isinstance(d, VNone):
                    return False
                if kind in ("str", "bytes") and not isinstance(d, VStr):
                    return False
                if kind.startswith("opaque:") and isinstance(d, (VStr, VNone)):
                    return False
            return True

        for c in variants:   # a variant for particular constant arguments takes precedence
            if c.when and fits(c):
                return c
        if fits(default):
            return default
        for c in variants:
            if c.when:
                continue
            if fits(c):
                return c
        return default

    def field_kind(self, cls: ClassInfo, name):
        for c in cls.mro():
            if isinstance(c, ClassInfo):
                k = self.fields.get(c.qualname, {}).get(name)
                if k is not None:
                    return k
        return None

    def view_for(self, cls: ClassInfo, name):
        for c in cls.mro():
            if isinstance(c, ClassInfo) and (c.qualname, name) in self.views:
                return self.views[(c.qualname, name)]
        return None

    def model_class(self, name):
        return self.model_classes.get(name)

    def const_override(self, module, name):
        return self.const_overrides.get(f"{module}.{name}")

    def spec_lookup(self, it, module, name):
        if name in self.specs:
            sm, fn = self.specs[name]
            return VFunc(fn, sm, name=name)
        if name in module.consts:
            from .ip_expr import Env

            return it.ev(module.consts[name], Env(module, {}))
        for sm in self.spec_modules:
            if name in sm.consts:
                from .ip_expr import Env

                return it.ev(sm.consts[name], Env(sm, {}))
        if name in ("posixpath", "os", "urllib"):
            return VModule(name)
        if name in self.spec_natives:
            fn = self.spec_natives[name]
            if name in self.ghosts_names():
                return VNative(fn, name)
            return VNative(lambda it_, a, k, fn=fn: fn(it_, [x.val if isinstance(x, VOpt) else x for x in a], k), name)
        return None

    def ghosts_names(self):
        return getattr(self, "ghosts", {})

    def resolve_exception(self, it, contract, en):
        """Exception class named in a contract (raises_X / may_raise)."""
        if "." in en or ":" in en:
            ci = self.repo.lookup_class(en.replace(":", "."))
            return ci if ci is not None else en
        # search the target's module, then well-known repo modules, then builtins
        tgt = contract.target
        if tgt.startswith("iface:"):
            mods = []
        else:
            m, _, _ = self.repo.lookup(tgt)
            mods = [m] if m is not None else []
        for mn in ("xandikos.store", "xandikos.webdav", "xandikos.sync", "xandikos.icalendar", "xandikos.collation"):
            mm = self.repo.module(mn)
            if mm is not None:
                mods.append(mm)
        for m in mods:
            if en in m.classes:
                return m.classes[en]
            if en in m.imports:
                r = m.resolve_class_expr(ast.Name(id=en))
                if isinstance(r, ClassInfo):
                    return r
                if isinstance(r, str) and r != en:
                    return r
        return en

    # ------------------------------------------------------------------ externals
    def _ext_contract(self, key):
        """An ASSUMED contract on a dependency function: @contract("ext:<dotted name>", ...)."""
        c = self.contracts.get("ext:" + key)
        if c is None:
            return None
        nat = VNative(lambda it_, a, k, c=c: self.call_iface(it_, c, a, k), "ext:" + key)
        nat.external = True
        return nat

    def external(self, it, modname, attr):
        key = f"{modname}.{attr}"
        ec = self._ext_contract(key)
        if ec is not None:
            return ec
        if key in self.externals:
            x = self.externals[key]
            x = x(it) if callable(x) and not isinstance(x, V) else x
            if isinstance(x, VNative):
                x.external = True
            return x
        if key in self.ext_classes or key in self.model_classes:
            return VExtClass(key)
        if modname in ("typing", "collections.abc", "__future__") or key in ("datetime.datetime", "datetime.date", "datetime.timezone"):
            return VExtClass(key)
        if modname.split(".")[0] in ("icalendar", "vobject", "dateutil", "zoneinfo", "datetime") and (
                attr[:1].isupper() or (attr[:1] == "v" and attr[1:2].isupper())):
            return VExtClass(key)  # a dependency class: only used in isinstance tests / constructors
        raise Unsupported(f"external {key} has no model (assumed contract missing)")

    def extclass_attr(self, it, clsv: VExtClass, name):
        key = f"{clsv.name}.{name}"
        ec = self._ext_contract(key)
        if ec is not None:
            return ec
        if key in self.externals:
            x = self.externals[key]
            return x(it) if callable(x) and not isinstance(x, V) else x
        mk = self.model_classes.get(clsv.name)
        if mk is not None and hasattr(mk, "class_attr"):
            return mk.class_attr(it, name)
        if name == "__name__":
            return VStr(z3.StringVal(clsv.name.split(".")[-1]))
        raise Unsupported(f"attribute {name!r} of external class {clsv.name}")

    def ext_method(self, it, base: str, name, inst):
        if name == "__init__":
            def init(it_, a, k):
                it_.path.heap[a[0].addr].fields["args"] = VTuple(list(a[1:]))
                return NONE
            return VBound(inst, VNative(init, f"{base}.__init__")) if inst is not None else VNative(init, f"{base}.__init__")
        return None

    def ext_construct(self, it, name, args, kwargs):
        mk = self.model_classes.get(name)
        if mk is not None:
            return mk.construct(it, args, kwargs)
        key = name
        if key in self.ext_classes:
            return self.ext_classes[key](it, args, kwargs)
        import builtins

        b = getattr(builtins, name, None)
        if isinstance(b, type) and issubclass(b, BaseException):
            return it.new_exception(name, list(args))
        if name.split(".")[-1].endswith(("Error", "Exception")) or name in self.ext_bases:
            return it.new_exception(name, list(args))
        raise Unsupported(f"constructor of external class {name} has no model")

    # ------------------------------------------------------------------ opaque objects
    def _oc(self, v: VOpaque) -> OpaqueClass:
        oc = self.opaques.get(v.cls)
        if oc is None:
            raise Unsupported(f"opaque class {v.cls!r} is not declared")
        return oc

    def _attr_lookup(self, cls, name):
        oc = self.opaques.get(cls)
        if oc is None:
            return None, None
        if name in oc.attrs:
            return oc, oc.attrs[name]
        for b in oc.bases:
            r = self._attr_lookup(b, name)
            if r[0] is not None:
                return r
        return None, None

    def opaque_attr_value(self, it, v: VOpaque, owner: str, name, kind):
        def namer(n, s):
            return z3.Function(f"{owner}.{name}/{n}", v.t.sort(), s)(v.t)

        if kind.startswith("obj:") or kind.startswith("ref:"):
            raise Unsupported("object-valued attribute of opaque object")
        val = vals.fresh(kind, "a", namer=namer)
        from .strings import _tid

        key = ("wf", owner, name, _tid(v.t))
        if key not in it.path.memo:
            it.path.memo[key] = True
            for f in vals.wellformed(val):
                it.path.assume(f)
            it.path.obs_log.append((f"{owner}.{name}", [v], val))
        return val

    def opaque_getattr(self, it, v: VOpaque, name):
        oc, kind = self._attr_lookup(v.cls, name)
        if oc is not None:
            return self.opaque_attr_value(it, v, oc.name, name, kind)
        c = self.find_iface(v.cls, name)
        if c is not None:
            return VBound(v, VNative(lambda it_, a, k, c=c: self.call_iface(it_, c, a, k), f"iface:{v.cls}.{name}"))
        raise Unsupported(f"attribute/method {name!r} of interface {v.cls} has no contract")

    def find_iface(self, cls, name):
        c = self.contracts.get(f"iface:{cls}.{name}")
        if c is not None:
            return c
        oc = self.opaques.get(cls)
        if oc is not None:
            for b in oc.bases:
                c = self.find_iface(b, name)
                if c is not None:
                    return c
        return None

    def call_iface(self, it, c: Contract, args, kwargs):
        # variants of an interface contract (iface:Cls.m@v): chosen when the default's parameter
        # kinds do not fit the actual arguments (e.g. a list default where `none` is declared)
        key = getattr(c, "key", c.target)
        variants = [v for k, v in self.contracts.items() if k.startswith(key + "@")] if "@" not in key else []
        if variants:
            def fits(cc):
                nm = list(cc.params)
                for n, a in list(zip(nm[1:], args[1:])) + [(n, kwargs[n]) for n in nm if n in kwargs]:
                    kind = cc.params[n]
                    d = it.deref(a)
                    if kind == "none" and not isinstance(d, VNone):
                        return False
                    if kind.startswith("list[") and not isinstance(d, VList):
                        return False
                    if kind in ("str", "bytes") and not isinstance(d, VStr):
                        return False
                return True
            if not fits(c):
                for v in variants:
                    if fits(v):
                        c = v
                        break
        names = list(c.params)
        bound = {}
        for n, a in zip(names, args):
            bound[n] = a
        for n in names[len(args):]:
            if n in kwargs:
                bound[n] = kwargs[n]
            elif n in c.defaults:
                bound[n] = it.const_value(c.defaults[n])
            else:
                it.raise_builtin("TypeError")
        extra = set(kwargs) - set(names)
        if extra:
            it.raise_builtin("TypeError")
        return it.apply_contract(c, None, bound)

    def opaque_setattr(self, it, v, name, val):
        raise Unsupported(f"attribute store on interface object {v.cls}.{name}")

    def opaque_truthy(self, it, v):
        oc = self._oc(v)
        if oc.truthy == "true":
            return z3.BoolVal(True)
        if oc.truthy == "len":
            return it.iter_seq(v).length() > 0
        return z3.Function(f"{v.cls}.__bool__", v.t.sort(), BOOL)(v.t)

    def opaque_iter(self, it, v):
        if v.cls == "Chunks":
            # iterating an abstract chunk list: one chunk holding all the bytes (chunking is not
            # observable through write / join / hash updates)
            from .models.dulwichmodels import joined

            return VList(items=[joined(it, v)])
        oc = self._oc(v)
        if oc.iter is None:
            raise Unsupported(f"iteration over interface object {v.cls}")
        return self.opaque_attr_value(it, v, oc.name, "__iter__", f"list[{oc.iter}]")

    def opaque_isinstance(self, it, v, clsd):
        oc = self._oc(v)
        name = clsd.info.qualname if isinstance(clsd, VClass) else clsd.name
        if name in oc.isa:
            return z3.BoolVal(True)
        if name in oc.nota or name in ("str", "builtins.str", "bytes", "int", "list", "dict", "bool"):
            return z3.BoolVal(False)
        return z3.Function(f"{v.cls}.isinstance[{name}]", v.t.sort(), BOOL)(v.t)

    def opaque_str(self, it, v):
        return VStr(z3.Function(f"{v.cls}.__str__", v.t.sort(), STR)(v.t))

    def opaque_contains(self, it, v, item):
        c = self.find_iface(v.cls, "__contains__")
        if c is not None:
            r = self.call_iface(it, c, [v, item], {})
            return it.truthy(r)
        raise Unsupported(f"`in` on interface object {v.cls}")

    def opaque_getitem(self, it, v, idx):
        c = self.find_iface(v.cls, "__getitem__")
        if c is not None:
            return self.call_iface(it, c, [v, idx], {})
        oc = self._oc(v)
        if oc.iter is not None and isinstance(idx, VInt):
            return it.subscript(it.iter_seq(v), idx)
        raise Unsupported(f"subscript on interface object {v.cls}")

    def opaque_setitem(self, it, v, idx, val):
        c = self.find_iface(v.cls, "__setitem__")
        if c is not None:
            return self.call_iface(it, c, [v, idx, val], {})
        raise Unsupported(f"item store on interface object {v.cls}")

    def opaque_delitem(self, it, v, idx):
        c = self.find_iface(v.cls, "__delitem__")
        if c is not None:
            return self.call_iface(it, c, [v, idx], {})
        raise Unsupported(f"item delete on interface object {v.cls}")

    def opaque_call(self, it, v, args, kwargs):
        c = self.find_iface(v.cls, "__call__")
        if c is not None:
            return self.call_iface(it, c, [v] + list(args), kwargs)
        raise Unsupported(f"call of interface object {v.cls}")

    def opaque_compare(self, it, op, a, b):
        if a.cls == b.cls:
            f = z3.Function(f"{a.cls}.__lt__", a.t.sort(), b.t.sort(), BOOL)
            lt, gt = f(a.t, b.t), f(b.t, a.t)
            return {ast.Lt: lt, ast.Gt: gt, ast.LtE: z3.Not(gt), ast.GtE: z3.Not(lt)}[type(op)]
        raise Unsupported("comparison of interface objects")

    def opaque_as_int(self, it, v):
        oc = self._oc(v)
        if oc.as_int is None:
            raise Unsupported(f"interface object {v.cls} used in arithmetic")
        t = z3.Function(f"{v.cls}.{oc.as_int}", v.t.sort(), INT)(v.t)
        it.path.obs_log.append((f"{v.cls}.{oc.as_int}", [v], VInt(t)))
        if oc.nonneg:
            it.path.assume(t >= 0)
        return VInt(t)

    def opaque_binop(self, it, opname, a, b):
        if isinstance(a, VOpaque):
            a = self.opaque_as_int(it, a)
        if isinstance(b, VOpaque):
            b = self.opaque_as_int(it, b)
        if isinstance(a, VInt) and isinstance(b, VInt):
            return VInt(a.t + b.t) if opname == "add" else VInt(a.t - b.t)
        raise Unsupported(f"arithmetic {opname} on interface objects")
