"""Non-data values: functions, classes, modules, concrete dictionaries."""

from __future__ import annotations

from .values import V, Unsupported


class VFunc(V):
    kind = "function"

    def __init__(self, node, module, closure=None, owner=None, name=None):
        self.node = node
        self.module = module
        self.closure = closure or []
        self.owner = owner  # ClassInfo when defined in a class body
        self.name = name or getattr(node, "name", "<lambda>")

    @property
    def qualname(self):
        if self.owner is not None:
            return f"{self.owner.qualname}.{self.name}"
        return f"{self.module.name}.{self.name}"

    def __repr__(self):
        return f"<func {self.qualname}>"


class VBound(V):
    kind = "method"

    def __init__(self, recv, func):
        self.recv = recv
        self.func = func

    def __repr__(self):
        return f"<bound {self.func!r} of {self.recv!r}>"


class VNative(V):
    """A model implemented in Python: fn(interp, args, kwargs) -> V."""

    kind = "native"

    def __init__(self, fn, name):
        self.fn = fn
        self.name = name

    def __repr__(self):
        return f"<native {self.name}>"


class VClass(V):
    kind = "class"

    def __init__(self, info):
        self.info = info

    def __repr__(self):
        return f"<class {self.info.qualname}>"


class VExtClass(V):
    """A builtin or dependency class known only by name."""

    kind = "extclass"

    def __init__(self, name):
        self.name = name

    def __repr__(self):
        return f"<extclass {self.name}>"


class VModule(V):
    kind = "module"

    def __init__(self, name):
        self.name = name

    def __repr__(self):
        return f"<module {self.name}>"


class VSuper(V):
    kind = "super"

    def __init__(self, cls, recv):
        self.cls = cls
        self.recv = recv


class VConstDict(V):
    """Dictionary with concrete (Python) keys and arbitrary values."""

    kind = "constdict"

    def __init__(self, items):
        self.items = dict(items)

    def __repr__(self):
        return f"<constdict {list(self.items)}>"


class VPartial(V):
    kind = "partial"

    def __init__(self, func, args, kwargs):
        self.func = func
        self.args = args
        self.kwargs = kwargs
