"""Builtins and container methods (assumed contracts on Python's own types)."""

from __future__ import annotations

import builtins as _pybuiltins
import z3

from .values import *  # noqa: F401,F403
from .values import (
    V, VNone, NONE, VBool, VInt, VStr, VOpt, VTuple, VList, VMap, VSet, VRef, VOpaque,
    Unsupported, STR, INT, BOOL,
)
from . import values as vals
from .callables import *  # noqa: F401,F403
from .loader import ClassInfo

_TYPE_NAMES = {"str", "bytes", "int", "bool", "tuple", "list", "dict", "set", "object", "type", "float", "frozenset"}


class BuiltinsMixin:
    def builtin(self, name) -> V:
        if name in ("True", "False"):
            return VBool(name == "True")
        if name == "None":
            return NONE
        if ("builtins." + name) in self.registry.externals:
            return self.registry.externals["builtins." + name]
        fn = getattr(self, "bi_" + name, None)
        if fn is not None:
            return VNative(lambda it, a, k, fn=fn: fn(a, k), name)
        obj = getattr(_pybuiltins, name, None)
        if isinstance(obj, type):
            return VExtClass(name)
        if name == "NotImplemented":
            return VExtClass("NotImplemented")
        raise Unsupported(f"name {name!r} is not defined / has no model")

    # -- simple builtins
    def bi_len(self, a, k):
        d = self.deref(a[0])
        if isinstance(d, VStr):
            return VInt(z3.Length(d.t))
        if isinstance(d, (VTuple,)):
            return VInt(len(d.items))
        if isinstance(d, VList):
            return VInt(d.length())
        if isinstance(d, VConstDict):
            return VInt(len(d.items))
        if isinstance(d, (VMap, VSet)):
            n, _, _ = self.enum_dom(d.key, d.dom)
            return VInt(n)
        if isinstance(d, VOpt):
            if self.spec_mode:
                return self.bi_len([d.val], k)
            if self.path.branch(d.isnone):
                self.raise_builtin("TypeError")
            return self.bi_len([d.val], k)
        if isinstance(d, VOpaque):
            return VInt(self.iter_seq(d).length())
        if isinstance(a[0], VRef):
            cell = self.heap()[a[0].addr]
            if cell.native is not None and hasattr(cell.native, "iterate"):
                return VInt(cell.native.iterate(self, a[0]).length())
        if self.spec_mode and isinstance(d, (VNone, vals.VBottom)):
            return vals.BOTTOM   # specification text: a partial term under a (necessarily false) guard
        raise Unsupported(f"len of {d!r}")

    def bi_str(self, a, k):
        if not a:
            return VStr(z3.StringVal(""))
        v = a[0]
        if isinstance(v, VStr) and not v.b:
            return v
        if isinstance(v, VInt):
            return VStr(z3.IntToStr(v.t))
        if isinstance(v, VNone):
            return VStr(z3.StringVal("None"))
        if isinstance(v, VOpt) and isinstance(v.val, VStr) and not v.val.b:
            return VStr(z3.If(v.isnone, z3.StringVal("None"), v.val.t))
        if isinstance(v, VOpaque):
            return self.registry.opaque_str(self, v)
        if isinstance(v, VRef):
            cell = self.heap()[v.addr]
            if cell.native is not None and hasattr(cell.native, "to_str"):
                return cell.native.to_str(self, v)
        self.path.dropped.add("str() of a non-string: opaque text")
        return VStr(self.path.const("str", STR))

    def bi_repr(self, a, k):
        self.path.dropped.add("repr(): opaque text")
        return VStr(self.path.const("repr", STR))

    def bi_int(self, a, k):
        v = a[0]
        if isinstance(v, VOpt):
            if self.path.branch(v.isnone):
                self.raise_builtin("TypeError")
            v = v.val
        if isinstance(v, VInt):
            return v
        if isinstance(v, VStr) and vals.concrete_str(v) is not None:
            try:
                return VInt(int(vals.concrete_str(v)))
            except ValueError:
                self.raise_builtin("ValueError")
        if isinstance(v, VStr):
            # int(s): ValueError unless s is an optionally signed decimal (whitespace ignored: dropped)
            digits = z3.Plus(z3.Range("0", "9"))
            ok = z3.InRe(v.t, digits)
            if not self.path.branch(ok):
                neg = z3.InRe(v.t, z3.Concat(z3.Re(z3.StringVal("-")), digits))
                if self.path.branch(neg):
                    return VInt(-z3.StrToInt(z3.SubString(v.t, 1, z3.Length(v.t))))
                self.path.dropped.add("int(str): only plain decimal strings are modelled as valid")
                self.raise_builtin("ValueError")
            return VInt(z3.StrToInt(v.t))
        raise Unsupported(f"int() of {v!r}")

    def bi_bool(self, a, k):
        return VBool(self.truthy(a[0])) if a else VBool(False)

    def bi_print(self, a, k):
        return NONE

    def bi_callable(self, a, k):
        return VBool(isinstance(a[0], (VFunc, VBound, VNative, VClass, VExtClass, VPartial)))

    def bi_isinstance(self, a, k):
        return VBool(self.isinstance_(a[0], a[1]))

    def isinstance_(self, v, clsv):
        clsd = self.deref(clsv)
        if isinstance(clsd, VNative) and clsd.name in _TYPE_NAMES:
            clsd = VExtClass(clsd.name)  # str / list / dict ... are modelled as callables
        if isinstance(clsd, (VTuple, VList)):
            return z3.Or([self.isinstance_(v, c) for c in clsd.items] + [z3.BoolVal(False)])
        if isinstance(v, VOpt):
            return z3.And(z3.Not(v.isnone), self.isinstance_(v.val, clsv))
        if isinstance(clsd, VExtClass) and clsd.name in _TYPE_NAMES:
            n = clsd.name
            d = self.deref(v)
            table = {
                "str": isinstance(d, VStr) and not d.b,
                "bytes": isinstance(d, VStr) and d.b,
                "int": isinstance(d, (VInt, VBool)),
                "bool": isinstance(d, VBool),
                "tuple": isinstance(d, VTuple),
                "list": isinstance(d, VList),
                "dict": isinstance(d, (VMap, VConstDict)),
                "set": isinstance(d, VSet),
                "object": True,
                "type": isinstance(d, (VClass, VExtClass)),
                "float": False,
                "frozenset": False,
            }
            if isinstance(d, VOpaque):
                return self.registry.opaque_isinstance(self, d, clsd)
            return z3.BoolVal(bool(table[n]))
        if isinstance(v, VRef):
            cell = self.heap()[v.addr]
            if cell.val is not None:
                if isinstance(clsd, VExtClass):
                    nm = clsd.name.split(".")[-1]
                    d = cell.val
                    return z3.BoolVal({"dict": isinstance(d, (VMap, VConstDict)), "list": isinstance(d, VList),
                                       "set": isinstance(d, VSet), "deque": isinstance(d, VList),
                                       "object": True}.get(nm, False))
                return z3.BoolVal(False)
            if cell.native is not None:
                return z3.BoolVal(cell.native.isinstance(self, v, clsd))
            return z3.BoolVal(self.class_subclass(cell.cls, clsd))
        if isinstance(v, VOpaque):
            return self.registry.opaque_isinstance(self, v, clsd)
        if isinstance(v, (VStr, VInt, VBool, VNone, VTuple, VList, VMap, VSet, VConstDict)):
            return z3.BoolVal(False)
        raise Unsupported(f"isinstance({v!r}, {clsd!r})")

    def bi_issubclass(self, a, k):
        c = a[0]
        if isinstance(c, VClass):
            return VBool(self.class_subclass(c.info, a[1]))
        if isinstance(c, VExtClass):
            return VBool(self.class_subclass(c.name, a[1]))
        raise Unsupported("issubclass")

    def bi_type(self, a, k):
        v = a[0]
        if isinstance(v, VRef):
            return self.class_of(v)
        if isinstance(v, VStr):
            return VExtClass("bytes" if v.b else "str")
        raise Unsupported(f"type({v!r})")

    def bi_getattr(self, a, k):
        obj, name = a[0], vals.concrete_str(a[1])
        if name is None:
            raise Unsupported("getattr with symbolic name")
        if len(a) < 3:
            return self.getattr(obj, name)
        from .core import RaiseSignal

        try:
            return self.getattr(obj, name)
        except RaiseSignal as rs:
            if self.exc_matches(rs.exc, VExtClass("AttributeError")):
                return a[2]
            raise

    def bi_hasattr(self, a, k):
        from .core import RaiseSignal

        name = vals.concrete_str(a[1])
        d0 = self.deref(a[0])
        if isinstance(d0, vals.VOpaque):
            oc = self.registry.opaques.get(d0.cls)
            if oc is not None and name in getattr(oc, "maybe", []):
                # an optional method of an interface: whether this object has it is a fact about the object
                return VBool(z3.Function(f"has_attr[{d0.cls}.{name}]", d0.t.sort(), z3.BoolSort())(d0.t))
        try:
            self.getattr(a[0], name)
            return VBool(True)
        except RaiseSignal as rs:
            if self.exc_matches(rs.exc, VExtClass("AttributeError")):
                return VBool(False)
            raise

    def bi_set(self, a, k):
        if not a:
            return self._empty_set_cell()
        d = self.deref(a[0])
        if isinstance(d, VSet):
            return self.new_container(VSet(d.key, d.dom))
        if isinstance(d, VMap):
            return self.new_container(VSet(d.key, d.dom))
        if isinstance(d, (VTuple,)) or (isinstance(d, VList) and d.items is not None):
            return self.builtins_set_from_items(d.items)
        if isinstance(d, VList) and getattr(d, "from_map", None) is not None:
            return self.new_container(VSet(d.from_map.key, d.from_map.dom))
        if isinstance(d, VList):
            ks = d.elem.leaves()[0].sort().range()
            if len(d.elem.leaves()) != 1:
                raise Unsupported("set() of a list of composite values")
            dom = self.path.const("set_dom", z3.ArraySort(ks, BOOL))
            j = z3.FreshConst(INT, "j")
            kk = z3.FreshConst(ks, "k")
            pos = z3.Function(self.path.name("set_pos"), ks, INT)
            arr = d.elem.leaves()[0]
            self.path.assume(z3.ForAll([j], z3.Implies(z3.And(0 <= j, j < d.n), z3.Select(dom, z3.Select(arr, j)))))
            self.path.assume(z3.ForAll([kk], z3.Implies(z3.Select(dom, kk), z3.And(0 <= pos(kk), pos(kk) < d.n, z3.Select(arr, pos(kk)) == kk))))
            return self.new_container(VSet(vals.dummy_like(vals.sel(d.elem, z3.IntVal(0))), dom))
        raise Unsupported(f"set({d!r})")

    def _empty_set_cell(self):
        ref = self.new_container(VSet(VStr(z3.StringVal("")), z3.K(STR, z3.BoolVal(False))))
        self.untyped_empty.add(ref.addr)
        return ref

    def builtins_set_from_items(self, items):
        if not items:
            return self._empty_set_cell()
        key = items[0]
        if isinstance(key, VOpt):
            raise Unsupported("set of optionals")
        ks = key.leaves()[0].sort()
        dom = z3.K(ks, z3.BoolVal(False))
        for x in items:
            dom = z3.Store(dom, vals.coerce(x, key).leaves()[0], z3.BoolVal(True))
        return self.new_container(VSet(vals.dummy_like(key), dom))

    def bi_frozenset(self, a, k):
        return self.bi_set(a, k)

    def bi_list(self, a, k):
        if not a:
            return self.new_container(VList(items=[]))
        seq = self.iter_seq(a[0])
        if seq.items is not None:
            return self.new_container(VList(items=list(seq.items)))
        return self.new_container(VList(seq.n, seq.elem))

    def bi_tuple(self, a, k):
        if not a:
            return VTuple([])
        seq = self.iter_seq(a[0])
        if seq.items is not None:
            return VTuple(list(seq.items))
        return VList(seq.n, seq.elem)

    def bi_dict(self, a, k):
        if not a and not k:
            return self.new_container(VConstDict({}))
        if a:
            d = self.deref(a[0])
            if isinstance(d, VConstDict):
                items = dict(d.items)
                items.update(k)
                return self.new_container(VConstDict(items))
            if isinstance(d, VMap):
                return self.new_container(VMap(d.key, d.dom, d.val))
        raise Unsupported("dict() of this argument")

    def bi_sorted(self, a, k):
        seq = self.iter_seq(a[0])
        if seq.items is not None:
            cs = [vals.concrete_str(x) if isinstance(x, VStr) else None for x in seq.items]
            if all(c is not None for c in cs):
                return self.new_container(VList(items=[VStr(z3.StringVal(c)) for c in sorted(cs)]))
            if len(seq.items) <= 1:
                return self.new_container(VList(items=list(seq.items)))
        # a permutation: modelled as the same multiset in unspecified order -> we keep the
        # enumeration itself (order is unspecified for maps anyway)
        self.path.dropped.add("sorted(): result order not modelled (treated as a permutation = same enumeration)")
        if seq.items is not None:
            return self.new_container(VList(items=list(seq.items)))
        return self.new_container(VList(seq.n, seq.elem))

    def bi_sum(self, a, k):
        seq = self.iter_seq(a[0])
        if seq.items is not None:
            t = z3.IntVal(0)
            for x in seq.items:
                t = t + vals.coerce(x, VInt(0)).t
            return VInt(t)
        self.path.dropped.add("sum() over symbolic sequence: opaque integer")
        return VInt(self.path.const("sum", INT))

    def bi_map(self, a, k):
        f = a[0]
        seq = self.iter_seq(a[1])
        if seq.items is not None:
            return self.new_container(VList(items=[self.call(f, [x], {}) for x in seq.items]))
        if isinstance(f, VNative) and f.name == "len":
            j = z3.FreshConst(INT, "j")
            x = seq.at(j)
            if isinstance(x, VStr):
                return self.new_container(VList(seq.n, VInt(z3.Lambda([j], z3.Length(x.t)))))
        raise Unsupported("map() over a symbolic sequence")

    def bi_iter(self, a, k):
        return a[0]

    def bi_enumerate(self, a, k):
        seq = self.iter_seq(a[0])
        if seq.items is not None:
            return VList(items=[VTuple([VInt(i), x]) for i, x in enumerate(seq.items)])
        j = z3.FreshConst(INT, "j")
        return VList(seq.n, VTuple([VInt(z3.Lambda([j], j)), seq.elem]))

    def bi_zip(self, a, k):
        seqs = [self.iter_seq(x) for x in a]
        if all(s.items is not None for s in seqs):
            return VList(items=[VTuple(list(t)) for t in zip(*[s.items for s in seqs])])
        raise Unsupported("zip over symbolic sequences")

    def bi_range(self, a, k):
        c = [vals.concrete_int(x) for x in a]
        if all(x is not None for x in c):
            return VList(items=[VInt(i) for i in range(*c)])
        raise Unsupported("symbolic range")

    def bi_min(self, a, k):
        if len(a) == 2 and all(isinstance(x, VInt) for x in a):
            return VInt(z3.If(a[0].t <= a[1].t, a[0].t, a[1].t))
        raise Unsupported("min")

    def bi_max(self, a, k):
        if len(a) == 2 and all(isinstance(x, VInt) for x in a):
            return VInt(z3.If(a[0].t >= a[1].t, a[0].t, a[1].t))
        raise Unsupported("max")

    def bi_any(self, a, k):
        seq = self.iter_seq(a[0])
        if seq.items is not None:
            return VBool(z3.Or([self.truthy(x) for x in seq.items] + [z3.BoolVal(False)]))
        j = z3.FreshConst(INT, "j")
        return VBool(z3.Exists([j], z3.And(0 <= j, j < seq.n, self.truthy(seq.at(j)))))

    def bi_all(self, a, k):
        seq = self.iter_seq(a[0])
        if seq.items is not None:
            return VBool(z3.And([self.truthy(x) for x in seq.items] + [z3.BoolVal(True)]))
        j = z3.FreshConst(INT, "j")
        return VBool(z3.ForAll([j], z3.Implies(z3.And(0 <= j, j < seq.n), self.truthy(seq.at(j)))))

    # ------------------------------------------------------------------ container methods
    def retarget_empty(self, recv, like_key: V):
        """An empty set/list/dict literal gets its element sort at first use."""
        if isinstance(recv, VRef) and recv.addr in self.untyped_empty:
            self.untyped_empty.discard(recv.addr)
            if isinstance(like_key, VOpt):
                like_key = like_key.val
            ks = like_key.leaves()[0].sort()
            self.path.heap[recv.addr].val = VSet(vals.dummy_like(like_key), z3.K(ks, z3.BoolVal(False)))
            return self.path.heap[recv.addr].val
        return None

    def container_method(self, recv, r, name, args, kwargs):
        if isinstance(r, VSet):
            if name in ("add", "remove", "discard") and args:
                r = self.retarget_empty(recv, args[0]) or r
            if name == "add":
                self.set_container(recv, VSet(r.key, z3.Store(r.dom, vals.key_term(r, args[0]), z3.BoolVal(True))))
                return NONE
            if name in ("remove", "discard"):
                if name == "remove" and not self.path.branch(r.has(args[0])):
                    self.raise_builtin("KeyError")
                self.set_container(recv, VSet(r.key, z3.Store(r.dom, vals.key_term(r, args[0]), z3.BoolVal(False))))
                return NONE
            if name == "update":
                other = self.deref(args[0])
                if isinstance(other, (VSet, VMap)):
                    if recv.addr in self.untyped_empty:
                        self.untyped_empty.discard(recv.addr)
                        self.set_container(recv, VSet(other.key, other.dom))
                        return NONE
                    k = z3.FreshConst(r.key.leaves()[0].sort(), "k")
                    self.set_container(recv, VSet(r.key, z3.Lambda([k], z3.Or(z3.Select(r.dom, k), z3.Select(other.dom, k)))))
                    return NONE
                seq = self.iter_seq(args[0])
                if seq.items is not None:
                    for x in seq.items:
                        self.container_method(recv, self.deref(recv), "add", [x], {})
                    return NONE
                raise Unsupported("set.update with symbolic sequence")
            if name == "copy":
                return self.new_container(VSet(r.key, r.dom))
        if isinstance(r, VMap):
            if name == "put" and self.spec_mode:
                k_, v_ = args[0], args[1]
                if isinstance(k_, VOpt) and not isinstance(r.key, VOpt):
                    k_ = k_.val
                like = vals.sel(r.val, vals.key_term(r, k_))
                if isinstance(v_, VOpt) and not isinstance(like, VOpt):
                    v_ = v_.val  # guarded by `... is not None` in the specification
                return r.put(k_, v_)
            if name == "without" and self.spec_mode:
                return r.remove(args[0])
            if name == "get":
                k = args[0]
                default = args[1] if len(args) > 1 else NONE
                dd = self.deref(default) if isinstance(default, VRef) else default
                if isinstance(r.val, VMap) and isinstance(dd, VConstDict) and not dd.items:
                    # d.get(k, {}) on a map of maps: the empty map of the inner kind
                    inner = vals.sel(r.val, vals.key_term(r, k if not isinstance(k, (VOpt, VNone)) else r.key))
                    default = VMap(inner.key, z3.K(inner.ksort(), z3.BoolVal(False)), vals.dummy_like(inner.val))
                elif isinstance(dd, (VMap, VList, VSet)):
                    default = dd
                if isinstance(k, VNone):
                    return default
                knone = z3.BoolVal(False)
                if isinstance(k, VOpt):
                    knone, k = k.isnone, k.val
                return vals.ite(z3.And(z3.Not(knone), r.has(k)), r.get(k), default)
            if name == "keys":
                if self.spec_mode:
                    return VSet(r.key, r.dom)
                ks = self.enum_map(r)[0]
                ks.from_map = r
                return ks
            if name == "items":
                return self.enum_map(r)[1]
            if name == "values":
                return self.enum_map(r)[2]
            if name == "pop":
                k = args[0]
                if len(args) > 1:
                    has = r.has(k)
                    out = vals.ite(has, r.get(k), args[1])
                    self.set_container(recv, VMap(r.key, z3.Store(r.dom, vals.key_term(r, k), z3.BoolVal(False)), r.val))
                    return out
                if not self.path.branch(r.has(k)):
                    self.raise_builtin("KeyError")
                out = r.get(k)
                self.set_container(recv, r.remove(k))
                return out
            if name == "setdefault":
                k, dflt = args[0], args[1] if len(args) > 1 else NONE
                if self.path.branch(r.has(k)):
                    return r.get(k)
                self.set_container(recv, r.put(k, dflt))
                return self.deref(recv).get(k)
            if name == "copy":
                return self.new_container(VMap(r.key, r.dom, r.val))
        if isinstance(r, VConstDict):
            if name == "get":
                from .core import RaiseSignal

                k = args[0]
                default = args[1] if len(args) > 1 else NONE
                try:
                    return self.constdict_get(r, k)
                except RaiseSignal as rs:
                    if self.exc_matches(rs.exc, VExtClass("KeyError")):
                        return default
                    raise
            if name == "items":
                return VList(items=[VTuple([VStr(z3.StringVal(k)), v]) for k, v in r.items.items()])
            if name == "keys":
                return VList(items=[VStr(z3.StringVal(k)) for k in r.items])
            if name == "values":
                return VList(items=list(r.items.values()))
            if name == "setdefault":
                cs = vals.concrete_str(args[0])
                if cs is not None:
                    if cs not in r.items:
                        items = dict(r.items)
                        items[cs] = args[1] if len(args) > 1 else NONE
                        self.set_container(recv, VConstDict(items))
                        return items[cs]
                    return r.items[cs]
            if name == "update":
                other = self.deref(args[0])
                if isinstance(other, VConstDict):
                    items = dict(r.items)
                    items.update(other.items)
                    self.set_container(recv, VConstDict(items))
                    return NONE
            if name == "pop":
                cs = vals.concrete_str(args[0])
                if cs is not None:
                    items = dict(r.items)
                    if cs in items:
                        out = items.pop(cs)
                        self.set_container(recv, VConstDict(items))
                        return out
                    if len(args) > 1:
                        return args[1]
                    self.raise_builtin("KeyError")
        if isinstance(r, VList):
            if name == "append":
                if r.items is not None:
                    self.set_container(recv, VList(items=r.items + [args[0]]))
                else:
                    self.set_container(recv, VList(r.n + 1, vals.sto(r.elem, r.n, args[0])))
                return NONE
            if name == "extend":
                other = self.iter_seq(args[0])
                if r.items is not None and other.items is not None:
                    self.set_container(recv, VList(items=r.items + other.items))
                    return NONE
                like = r if r.items is None else other
                if r.items is not None and not r.items:
                    self.set_container(recv, VList(other.n, other.elem))
                    return NONE
                self.set_container(recv, self.list_concat(vals.coerce(r, like), vals.coerce(other, like)))
                return NONE
            if name in ("popleft", "pop") and (name == "popleft" or (args and vals.concrete_int(args[0]) == 0)):
                if r.items is not None:
                    if not r.items:
                        self.raise_builtin("IndexError")
                    self.set_container(recv, VList(items=r.items[1:]))
                    return r.items[0]
                if not self.path.branch(r.n > 0):
                    self.raise_builtin("IndexError")
                j = z3.FreshConst(INT, "j")
                elem = r.elem.rebuild([z3.Lambda([j], z3.Select(l, j + 1)) for l in r.elem.leaves()])
                first = r.at(z3.IntVal(0))
                self.set_container(recv, VList(r.n - 1, elem))
                return first
            if name == "pop" and not args:
                if r.items is not None:
                    if not r.items:
                        self.raise_builtin("IndexError")
                    self.set_container(recv, VList(items=r.items[:-1]))
                    return r.items[-1]
                if not self.path.branch(r.n > 0):
                    self.raise_builtin("IndexError")
                last = r.at(r.n - 1)
                self.set_container(recv, VList(r.n - 1, r.elem))
                return last
            if name == "copy":
                return self.new_container(VList(r.n, r.elem, r.items))
        raise Unsupported(f"method {name!r} on {r!r}")
