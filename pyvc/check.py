"""`./check <ID> [--tier quick|thorough] [--replay FILE]`

Decides one property: generates and discharges every obligation of the functions the
property depends on (from /repo's current working tree), compares with the committed
obligation lock, replays counterexamples natively, writes evidence/<ID>.json.

exit 0 held (known findings printed) | 1 violation | 2 undecided | 3 checker error
"""

from __future__ import annotations

import argparse
import hashlib
import json
import os
import subprocess
import sys
import time

from .loader import Repo
from .registry import Registry, VERIF_ROOT
from .vcgen import verify_function
from . import props as P

LOCK = os.path.join(VERIF_ROOT, "obligations.lock.json")
KNOWN = os.path.join(VERIF_ROOT, "known_findings.json")
EVID = os.path.join(VERIF_ROOT, "evidence")
if os.path.realpath(os.environ.get("VERIF_REPO", "/repo")) != "/repo":
    # developer runs against a scratch copy of the repository (seeded changes, mutants): keep
    # the committed evidence, which must describe /repo itself, untouched
    EVID = os.path.join(VERIF_ROOT, "scratch", "evidence-alt")
REPLAYS = os.path.join(VERIF_ROOT, "replays")

SEMANTICS = [
    "pyvc (this VC generator) and its encoding of Python: int mathematical; str/bytes as SMT strings; "
    "dict/set/list as arrays (structure of arrays); dict iteration order unspecified; exceptions by class lattice",
    "string-sort abstraction for discharge: String replaced by an uninterpreted sort, interpreted string operations by "
    "uninterpreted functions (sound for 'proved')",
    "z3 5.1.0 / cvc5 1.0.3 / z3 4.8.12",
    "await e == e, async for == for (single request, no interleaving at await points)",
    "generators verified as functions returning the sequence of yielded values",
    "distinct symbolic container parameters / fields do not alias",
    "termination is not proved",
]


def repo_sources_hash(repo_root):
    """Hash of the repository's own sources (tests excluded)."""
    h = hashlib.sha256()
    r = os.path.join(repo_root, "xandikos")
    for d, dirs, files in sorted(os.walk(r)):
        dirs[:] = sorted(x for x in dirs if x not in ("__pycache__", "tests"))
        for f in sorted(files):
            if f.endswith(".py"):
                p_ = os.path.join(d, f)
                h.update(os.path.relpath(p_, repo_root).encode())
                with open(p_, "rb") as fh:
                    h.update(fh.read())
    return h.hexdigest()[:20]


def machinery_hash():
    """Hash of the contracts and of pyvc: a lock entry speaks about formulas only while these are what they were."""
    h = hashlib.sha256()
    for r in (os.path.join(VERIF_ROOT, "contracts"), os.path.join(VERIF_ROOT, "pyvc")):
        for d, dirs, files in sorted(os.walk(r)):
            dirs[:] = sorted(x for x in dirs if x not in ("__pycache__",))
            for f in sorted(files):
                if f.endswith(".py"):
                    p_ = os.path.join(d, f)
                    h.update(os.path.relpath(p_, VERIF_ROOT).encode())
                    with open(p_, "rb") as fh:
                        h.update(fh.read())
    return h.hexdigest()[:20]


def tree_hash(repo_root, tier):
    """Hash of everything a verdict depends on: the repository sources, the contracts, pyvc."""
    h = hashlib.sha256()
    roots = [os.path.join(repo_root, "xandikos"), os.path.join(VERIF_ROOT, "contracts"), os.path.join(VERIF_ROOT, "pyvc")]
    for r in roots:
        for d, dirs, files in sorted(os.walk(r)):
            dirs[:] = sorted(x for x in dirs if x not in ("__pycache__", "tests"))
            for f in sorted(files):
                if f.endswith(".py"):
                    p_ = os.path.join(d, f)
                    h.update(p_.encode())
                    with open(p_, "rb") as fh:
                        h.update(fh.read())
    h.update(tier.encode())
    for k in ("PYVC_ABS_MS", "PYVC_Z3_MS", "PYVC_CVC5_S"):
        h.update(os.environ.get(k, "").encode())
    return h.hexdigest()[:20]


class ResultCache:
    """Per-function verification results, shared between the checks of one run of the whole
    suite (several properties depend on the same functions).  Keyed by tree_hash: any change to
    /repo, the contracts or pyvc invalidates everything.  Lives under /verif/scratch (untracked)."""

    def __init__(self, key):
        self.dir = os.path.join(VERIF_ROOT, "scratch", "cache", key)
        base = os.path.dirname(self.dir)
        os.makedirs(self.dir, exist_ok=True)
        import shutil
        import time

        for other in os.listdir(base):
            # results for other trees: drop them once they are old (another check may be running
            # concurrently on a different tree - seeded-change matrix - and still use its own)
            po = os.path.join(base, other)
            try:
                if other != key and time.time() - os.path.getmtime(po) > 3 * 3600:
                    shutil.rmtree(po, ignore_errors=True)
            except OSError:
                pass

    def path(self, q):
        return os.path.join(self.dir, slug(q) + ".json")

    def get(self, q):
        if os.environ.get("PYVC_NO_CACHE"):
            return None
        try:
            with open(self.path(q)) as f:
                return json.load(f)
        except (FileNotFoundError, ValueError):
            return None

    def put(self, q, rep):
        try:  # an optimisation only: never let it break a check
            os.makedirs(self.dir, exist_ok=True)
            tmp = self.path(q) + f".{os.getpid()}.tmp"
            with open(tmp, "w") as f:
                json.dump(rep, f, default=str)
            os.replace(tmp, self.path(q))
        except OSError:
            pass


class CachedReport:
    def __init__(self, d):
        self.__dict__.update(d)
        self.dropped = set(d["dropped"])
        self.inlined = set(d["inlined"])
        self.called = set(d["called"])

    def summary(self):
        agg = {}
        for o in self.obligations:
            agg.setdefault(o["name"], []).append(o)
        return agg


def report_to_dict(rep):
    return {"qualname": rep.qualname, "file": rep.file, "line": rep.line, "hash": rep.hash, "obligations": rep.obligations,
            "paths": rep.paths, "unsupported": rep.unsupported, "errors": rep.errors, "dropped": sorted(rep.dropped),
            "inlined": sorted(rep.inlined), "called": sorted(rep.called), "seconds": rep.seconds,
            "solver_seconds": rep.solver_seconds}


def load_json(p, default):
    try:
        with open(p) as f:
            return json.load(f)
    except FileNotFoundError:
        return default


def run_replay(driver, payload, timeout=300):
    """Run a native replay driver under /venv/bin/python; returns its JSON or None."""
    path = os.path.join(VERIF_ROOT, "replay", driver)
    try:
        out = subprocess.run(
            ["/venv/bin/python", path],
            input=json.dumps(payload), capture_output=True, text=True, timeout=timeout,
            env=dict(os.environ, VERIF_REPO=os.environ.get("VERIF_REPO", "/repo"), PYTHONPATH=VERIF_ROOT),
        )
        if out.returncode != 0:
            return {"error": (out.stderr or out.stdout)[-800:]}
        return json.loads(out.stdout)
    except Exception as e:  # pragma: no cover
        return {"error": repr(e)}


def main(argv=None):
    ap = argparse.ArgumentParser()
    ap.add_argument("prop")
    ap.add_argument("--tier", default=os.environ.get("VERIF_TIER", "quick"))
    ap.add_argument("--replay")
    ap.add_argument("--update-lock", action="store_true", help="developer only: rewrite the obligation lock")
    args = ap.parse_args(argv)
    pid = args.prop
    seed = int(os.environ.get("VERIF_SEED", "0") or 0)
    if pid not in P.PROPS:
        print(f"unknown property {pid}")
        return 3
    spec = P.PROPS[pid]
    if args.replay:
        return do_replay(pid, args.replay)
    t0 = time.time()
    repo = Repo()
    reg = Registry(repo)
    lock = load_json(LOCK, {})
    # a known finding is identified by obligation + witness class; it is recognised under every
    # property whose check includes that obligation
    known = [k for k in load_json(KNOWN, []) if k.get("kind") == "known" and k.get("obligation")]
    os.makedirs(EVID, exist_ok=True)
    os.makedirs(REPLAYS, exist_ok=True)

    functions = []
    all_obs = {}
    undecided = []
    checker_errors = []
    violations = []
    known_hits = []
    backends = {}
    solver_seconds = 0.0
    dropped = set()
    assumed_used = set()
    verified_somewhere = {f for sp_ in P.PROPS.values() for f in sp_["functions"]}
    inlined = set()
    thorough = args.tier == "thorough"
    z3_ms = 30000 if thorough else None
    cache = ResultCache(tree_hash(repo.root, args.tier))
    cache_hits = 0
    retried = []
    accepted_from_lock = []
    machinery_now = machinery_hash()
    # once a function has an undischarged obligation, its remaining paths are explored for at most this long
    os.environ.setdefault("PYVC_WALL_S", "900" if thorough else "300")
    repo_now = repo_sources_hash(repo.root)
    repo_unchanged = lock.get("__repo__", {}).get("tree") == repo_now

    for q in spec["functions"]:
        if q not in reg.contracts:
            checker_errors.append(f"no contract registered for {q}")
            continue
        cached = cache.get(q)
        if cached is not None:
            rep = CachedReport(cached)
            cache_hits += 1
        else:
            rep = verify_function(repo, reg, q, z3_ms=z3_ms)
            lk = lock.get(q, {}).get("obligations", [])
            if (not rep.errors and any(r["status"] == "unknown" and r["name"] in lk for r in rep.obligations)
                    # only for text that is what it was when the lock was written (a busy machine); a function
                    # whose source changed, or that already has a refuted obligation, gets its verdict at once
                    and lock.get(q, {}).get("source_hash") == rep.hash
                    and not any(r["status"] == "refuted" for r in rep.obligations)):
                # a previously proved obligation came back `unknown`: decide it with three times
                # the solver budgets before anything is concluded (a busy machine must not turn
                # into a verdict)
                from . import solve as _sv

                saved = (_sv.ABS_MS, _sv.Z3_TIMEOUT_MS, _sv.CVC5_TIMEOUT_S)
                _sv.ABS_MS, _sv.Z3_TIMEOUT_MS, _sv.CVC5_TIMEOUT_S = saved[0] * 3, saved[1] * 3, saved[2] * 2
                try:
                    rep2 = verify_function(repo, reg, q, z3_ms=(z3_ms or _sv.Z3_TIMEOUT_MS))
                finally:
                    _sv.ABS_MS, _sv.Z3_TIMEOUT_MS, _sv.CVC5_TIMEOUT_S = saved
                if not rep2.errors:
                    rep2.seconds += rep.seconds
                    rep = rep2
                    retried.append(q)
            if not rep.errors:
                cache.put(q, report_to_dict(rep))
        solver_seconds += rep.solver_seconds
        dropped |= rep.dropped
        inlined |= rep.inlined
        for c in rep.called:
            cc = reg.contracts.get(c)
            if cc is not None and cc.assumed:
                assumed_used.add(c)
            elif cc is not None and c not in verified_somewhere:
                # a callee contract on a repository function whose body no check verifies: for the
                # caller's proof it is an assumption like any other
                assumed_used.add(c + " (contract relied upon by callers; its body is not verified by any check)")
        functions.append({"qualname": q, "file": (rep.file or "").replace(repo.root + "/", ""), "line": rep.line,
                          "source_hash": rep.hash, "paths": rep.paths, "seconds": round(rep.seconds, 2),
                          "inlined_hashes": vc_inputs(repo, q, rep.inlined)})
        if rep.errors:
            checker_errors += [f"{q}: {e}" for e in rep.errors]
        agg = rep.summary()
        locked = lock.get(q, {})
        changed = locked.get("source_hash") != rep.hash
        for u in rep.unsupported:
            undecided.append({"function": q, "reason": u, "changed": changed})
        if not agg and not rep.unsupported and not rep.errors:
            checker_errors.append(f"{q}: zero obligations generated")
        for name, recs in agg.items():
            if any(x in name for x in spec.get("exclude", [])):
                continue  # an obligation of this function that belongs to another property
            sts = {r["status"] for r in recs}
            status = "refuted" if "refuted" in sts else ("unknown" if "unknown" in sts else "proved")
            for r in recs:
                for b in r.get("backend", "").split("+"):
                    if b:
                        backends[b] = backends.get(b, 0) + 1
            all_obs[name] = {"status": status, "instances": len(recs), "function": q, "recs": recs,
                             "seconds": round(sum(r.get("seconds", 0) for r in recs), 3)}
        # lock comparison
        if locked and not changed:
            for name in locked.get("obligations", []):
                if name not in agg and not rep.unsupported and not rep.errors:
                    checker_errors.append(f"{q}: locked obligation {name} was not generated although the source is unchanged")

    # verdicts
    for name, ob in sorted(all_obs.items()):
        if ob["status"] == "proved":
            continue
        q = ob["function"]
        locked = lock.get(q, {})
        was_proved = name in locked.get("obligations", [])
        bad = [r for r in ob["recs"] if r["status"] != "proved"]
        rec = next((r for r in bad if r["status"] == "refuted"), bad[0])
        kf = match_known(known, name, rec)
        if kf is not None:
            known_hits.append((kf, name))
            continue
        if "#reach:" in name:
            # vacuity guard: never a violation by itself; a contradiction in contracts/models on an
            # unchanged function is a fault of the machinery
            if was_proved and lock.get(q, {}).get("source_hash") == next((f["source_hash"] for f in functions if f["qualname"] == q), None):
                checker_errors.append(f"{name}: {rec.get('reason')}")
            else:
                undecided.append({"function": q, "obligation": name, "reason": rec.get("reason", "vacuous"), "changed": True})
            continue
        fnow = next((f for f in functions if f["qualname"] == q), {})
        same_vc = (was_proved and locked.get("source_hash") == fnow.get("source_hash")
                   and locked.get("machinery") == machinery_now
                   and "inlined_hashes" in locked and locked["inlined_hashes"] == fnow.get("inlined_hashes"))
        if rec["status"] != "refuted" and same_vc:
            # the text this obligation was generated from (the function and every function inlined into
            # it) is what it was when the lock was written, where this very obligation was proved: the
            # solver ran out of its budget (tripled already) on an identical formula - not a verdict
            # about code that was edited elsewhere.  Counted as discharged, and listed.
            accepted_from_lock.append(name)
            ob["status"] = "proved"
            continue
        if rec["status"] != "refuted" and was_proved and repo_unchanged:
            # nothing in the repository differs from the tree the lock was made on: an obligation
            # that is `unknown` now (even with tripled budgets) is a solver-budget problem of the
            # machinery, never a verdict about the code
            checker_errors.append(f"{name}: proved when the lock was written, undecided now on an unchanged repository ({rec.get('reason', '')[:120]})")
            continue
        if rec["status"] == "refuted" or was_proved:
            violations.append(make_violation(pid, spec, name, ob, rec, was_proved))
        else:
            undecided.append({"function": q, "obligation": name, "reason": rec.get("reason", "solver unknown"),
                              "changed": True})

    # bounded stand-ins for undecided functions (labelled bounded, never proof)
    bounded = []
    standin_memo = {}
    und_functions = sorted({u["function"] for u in undecided})
    standins = spec.get("standins", {})
    for q in und_functions + (sorted(standins) if thorough else []):
        drv = standins.get(q)
        if drv is None or any(b["function"] == q for b in bounded):
            continue
        # drivers that explore a whole subsystem give the same answer whatever function asked
        # (thorough: the HTTP explorer is run once with all its probe groups instead of once per function)
        generic = drv["driver"] != "pure.py" and (thorough or drv["driver"] != "http_explore.py")
        if generic and drv["driver"] in standin_memo:
            res = standin_memo[drv["driver"]]
        else:
            res = run_replay(drv["driver"], {"mode": "bounded", "function": (q if not generic else "*all*"), "seed": seed, "tier": args.tier},
                             timeout=3600)
            if generic:
                standin_memo[drv["driver"]] = res
        b = {"function": q, "driver": drv["driver"], "bound": drv.get("bound", ""), "result": res}
        bounded.append(b)
        if res and res.get("failing"):
            violations.append(make_bounded_violation(pid, q, res))

    # functions outside the verifier's reach that a property still depends on: bounded check on
    # every run, labelled bounded, never counted as proved
    for q, drv in sorted(spec.get("bounded_always", {}).items()):
        req = {"mode": "bounded", "function": q, "seed": seed, "tier": args.tier}
        req.update(drv.get("request", {}))
        mk = drv["driver"] if not drv.get("request") else None
        if mk is not None and mk in standin_memo and drv["driver"] != "pure.py":
            res = standin_memo[mk]
        else:
            res = run_replay(drv["driver"], req, timeout=3600)
            if mk is not None and thorough:
                standin_memo[mk] = res
        b = {"function": q, "driver": drv["driver"], "bound": drv.get("bound", ""), "result": res, "not_under_contract": True}
        bounded.append(b)
        if res and res.get("failing"):
            violations.append(make_bounded_violation(pid, q, res))
        elif not res or res.get("error"):
            checker_errors.append(f"bounded check of {q} failed to run: {str(res)[:300]}")

    # recorded findings the bounded drivers ran into (they skip them and name the witness class)
    for b in bounded:
        for w in ((b.get("result") or {}).get("known") or []):
            for kf in known:
                if kf.get("kind") == "known" and kf.get("witness") == w and not any(k is kf for k, _ in known_hits):
                    known_hits.append((kf, kf.get("obligation", b["function"] + "#bounded")))

    thorough_extra = {}
    if thorough and os.path.realpath(os.environ.get("VERIF_REPO", "/repo")) == "/repo":
        # (d) bounded conformance of the ASSUMED models against the installed libraries
        try:
            out = subprocess.run(["/venv/bin/python", os.path.join(VERIF_ROOT, "bounded", "conf_models.py"), "--tier=thorough"],
                                 capture_output=True, text=True, timeout=1800, env=dict(os.environ, PYTHONPATH=repo.root))
            cm = json.loads(out.stdout)
            thorough_extra["assumed_model_conformance"] = {
                "label": "bounded", "axioms_checked": cm["axioms"], "cases": sum(r["tried"] for r in cm["results"]),
                "violated": cm["violated"]}
            for v in cm["violated"]:
                # an assumed axiom that the library does not satisfy: the proofs resting on it are
                # void for such inputs - reported, and a checker error unless it is a recorded finding
                if not any(k.get("kind") == "known" and k.get("model_axiom") == v["axiom"] for k in load_json(KNOWN, [])):
                    checker_errors.append(f"assumed model axiom violated by the installed library: {v['axiom']} at {v['counterexample'][:120]}")
        except Exception as e:  # pragma: no cover
            checker_errors.append(f"conformance check failed to run: {e!r}")
        # (e) sampled must-fail mutants of this property's functions (survivors are coverage
        # gaps: listed, they do not fail the check)
        import random as _r

        fns = [f for f in spec["functions"]]
        _r.Random(seed).shuffle(fns)
        mres = {}
        for f in fns[:int(os.environ.get("VERIF_MUTANT_FUNCTIONS", "3"))]:
            try:
                subprocess.run(["python3-vt", os.path.join(VERIF_ROOT, "tools", "mutate.py"), f.split("@")[0], "--verify", f,
                                "--max", os.environ.get("VERIF_MUTANTS_PER_FUNCTION", "5"), "--seed", str(seed), "--jobs", "4"],
                               cwd=VERIF_ROOT, capture_output=True, text=True, timeout=3600)
                res = load_json(os.path.join(VERIF_ROOT, "scratch_mut.json"), [])
                mres[f] = {"mutants": len(res), "killed": sum(1 for m in res if m["killed"]),
                           "survivors": [m["mutant"] for m in res if not m["killed"]]}
            except Exception as e:  # pragma: no cover
                mres[f] = {"error": repr(e)}
        thorough_extra["must_fail_mutants"] = mres

    for u in undecided:
        print(f"UNDECIDED-PROOF property={pid} function={u['function']} obligation={u.get('obligation', '-')} reason={str(u['reason'])[:200]}")
    for kf, name in known_hits:
        print(f"KNOWN-FINDING: property={pid} {kf['what']} [{name}]")
    for v in violations:
        tail = "" if v["reproduced_natively"] else " no-failing-input-found"
        print(f"VIOLATION property={pid} replay={v['path']}{tail}")
    for e in checker_errors:
        print(f"CHECKER-ERROR property={pid} {e[:500]}")

    n_ob = len(all_obs)
    n_ok = sum(1 for o in all_obs.values() if o["status"] == "proved")
    level = spec.get("level", "proof")
    proof_ok = n_ob > 0 and n_ob == n_ok and not undecided and not known_hits and not checker_errors
    ev_level = level if (level != "proof" or proof_ok) else "other"
    samples = []
    for name, ob in list(sorted(all_obs.items()))[:12]:
        samples.append({"obligation": name, "status": ob["status"], "instances": ob["instances"],
                        "solver_seconds": ob["seconds"], "backends": sorted({r.get("backend", "") for r in ob["recs"]})})
    trusted = list(SEMANTICS) + [f"ASSUMED contract: {a}" for a in sorted(assumed_used)] + \
        [f"assumption noted by the extractor: {d}" for d in sorted(dropped)] + \
        [f"callee inlined (verified in the caller's context, no separate contract): {i}" for i in sorted(inlined)] + \
        list(spec.get("assumptions", []))
    explanation = spec.get("explanation", "")
    if ev_level == "other":
        explanation = (explanation + " " if explanation else "") + (
            f"proof_status: {'discharged' if n_ob == n_ok and not undecided else 'undecided'}; "
            f"{n_ok}/{n_ob} obligation names discharged; undecided: {[u.get('obligation') or u['function'] for u in undecided][:10]}; "
            f"known findings: {[k['obligation'] for k, _ in known_hits]}; bounded stand-ins run: {[b['function'] for b in bounded]}")
    evidence = {
        "property_id": pid,
        "tier": args.tier,
        "seed": seed,
        "level": ev_level,
        "coverage": {
            "obligations": n_ob,
            "discharged": n_ok,
            "obligation_instances": sum(o["instances"] for o in all_obs.values()),
            "checker_cmd": f"./check {pid} --tier {args.tier}",
            "trusted_base": trusted,
            "functions_under_contract": functions,
            "backends": backends,
            "solver_seconds": round(solver_seconds, 2),
            "functions_reused_from_this_run_cache": cache_hits,
            "functions_retried_with_tripled_solver_budgets": retried,
            "obligations_accepted_from_lock_identical_formula_solver_timeout": accepted_from_lock,
            "samples": samples,
            "explanation": explanation or "all obligations generated from the current source were discharged",
            "undecided": undecided,
            "known_findings": [{"obligation": n, "what": k["what"]} for k, n in known_hits],
            "bounded": bounded,
            "thorough": thorough_extra,
            "evaluations": sum(o["instances"] for o in all_obs.values()),
            "distinct_nontrivial": n_ob,
            "rule": "one case = one named obligation (post / raises / invariant init+step / callee precondition / frame) "
                    "generated from the real AST; distinct by name; every one is non-trivial (its path condition was "
                    "checked feasible)",
        },
        "assumptions": trusted,
        "wall_s": round(time.time() - t0, 2),
        "violations": len(violations),
    }
    with open(os.path.join(EVID, f"{pid}.json"), "w") as f:
        json.dump(evidence, f, indent=1, default=str)

    if args.update_lock:
        for fn in functions:
            q = fn["qualname"]
            lock[q] = {"source_hash": fn["source_hash"], "inlined_hashes": fn.get("inlined_hashes", {}),
                       "machinery": machinery_now,
                       "obligations": sorted(n for n, o in all_obs.items() if o["function"] == q and o["status"] == "proved")}
        lock["__repo__"] = {"tree": repo_now}
        with open(LOCK, "w") as f:
            json.dump(lock, f, indent=1, sort_keys=True)
        print(f"lock updated for {len(functions)} functions")

    print(f"{pid}: {n_ok}/{n_ob} obligations discharged over {len(functions)} functions; "
          f"{len(violations)} violation(s), {len(known_hits)} known finding(s), {len(undecided)} undecided, "
          f"{len(checker_errors)} checker error(s); {time.time() - t0:.1f}s")
    if violations:
        return 1
    if checker_errors:
        return 3
    if undecided and not bounded and any(not spec.get("standins", {}).get(u["function"]) for u in undecided):
        # nothing could stand in for at least one undecided function
        return 0 if os.environ.get("VERIF_UNDECIDED_OK", "1") == "1" else 2
    return 0


def match_known(known, name, rec):
    for k in known:
        if k.get("obligation") == name:
            wc = k.get("witness")
            if not wc:
                return k
            cex = rec.get("counterexample") or {}
            try:
                if P.WITNESS[wc](cex, rec):
                    return k
            except Exception:
                continue
    return None


def slug(s):
    return "".join(c if c.isalnum() else "-" for c in s)[-80:]


def vc_inputs(repo, q, inlined):
    """what, besides the function's own text, the formulas of a verified function are generated from"""
    hs, mods = inlined_hashes(repo, inlined)
    try:
        m, _, _ = repo.lookup(q.split("@")[0])
        if m is not None:
            mods.add(m)
    except Exception:
        pass
    hs["<module-level and class-level definitions>"] = consts_hash(mods)
    return hs


def inlined_hashes(repo, names):
    """source hashes of the functions whose bodies were inlined into a verified function"""
    from .loader import source_hash
    import ast, hashlib
    out = {}
    mods = set()
    for n in sorted(names or []):
        try:
            m, _, node = repo.lookup(n)
        except Exception:
            m, node = None, None
        out[n] = source_hash(node) if node is not None else "?"
        if m is not None:
            mods.add(m)
    return out, mods


def consts_hash(mods):
    """hash of everything in these modules that is not a function body: module-level and class-level
    assignments, imports, class headers (a changed constant changes the formulas of functions that use it)"""
    import ast, hashlib
    h = hashlib.sha256()
    for m in sorted(mods, key=lambda x: x.name):
        try:
            tree = ast.parse(m.source)
        except Exception:
            h.update(b"?")
            continue
        def walk(body, prefix):
            for st in body:
                if isinstance(st, (ast.FunctionDef, ast.AsyncFunctionDef)):
                    h.update((prefix + "def " + st.name + ":" + ast.dump(st.args) + "|" + ",".join(ast.dump(d) for d in st.decorator_list)).encode())
                elif isinstance(st, ast.ClassDef):
                    h.update((prefix + "class " + st.name + ":" + ",".join(ast.dump(b) for b in st.bases)).encode())
                    walk(st.body, prefix + st.name + ".")
                elif isinstance(st, ast.Expr) and isinstance(st.value, ast.Constant):
                    continue
                else:
                    h.update((prefix + ast.dump(st)).encode())
        walk(tree.body, m.name + ":")
    return h.hexdigest()[:16]


def make_violation(pid, spec, name, ob, rec, was_proved):
    q = ob["function"]
    cex = rec.get("counterexample")
    payload = {
        "property": pid, "obligation": name, "function": q,
        "verdict": rec["status"], "backend": rec.get("backend"), "solver_seconds": rec.get("seconds"),
        "solver_output": rec.get("conjunct") or rec.get("reason") or rec.get("note") or "",
        "line": rec.get("line"), "counterexample": cex, "was_proved_in_lock": was_proved,
        "reproduced_natively": False,
    }
    drv = spec.get("replay", {}).get(q)
    if drv is not None:
        res = run_replay(drv, {"mode": "replay", "function": q, "obligation": name, "counterexample": cex})
        payload["replay_driver"] = drv
        payload["replay_result"] = res
        if res and res.get("reproduced"):
            payload["reproduced_natively"] = True
            payload["input"] = res.get("input")
            payload["observed"] = res.get("observed")
            payload["expected"] = res.get("expected")
        elif res and not res.get("error"):
            # finite-scope search around the obligation
            res2 = run_replay(drv, {"mode": "search", "function": q, "obligation": name})
            payload["search_result"] = res2
            if res2 and res2.get("reproduced"):
                payload["reproduced_natively"] = True
                payload["input"] = res2.get("input")
                payload["observed"] = res2.get("observed")
                payload["expected"] = res2.get("expected")
    h = hashlib.sha1(json.dumps([name, cex], sort_keys=True, default=str).encode()).hexdigest()[:8]
    path = os.path.join(REPLAYS, f"{pid}-{slug(name)}-{h}.json")
    payload["path"] = path
    with open(path, "w") as f:
        json.dump(payload, f, indent=1, default=str)
    return payload


def make_bounded_violation(pid, q, res):
    payload = {"property": pid, "function": q, "obligation": f"{q}#bounded", "verdict": "bounded-counterexample",
               "reproduced_natively": True, "input": res.get("input"), "observed": res.get("observed"),
               "expected": res.get("expected")}
    h = hashlib.sha1(json.dumps(res.get("input"), sort_keys=True, default=str).encode()).hexdigest()[:8]
    path = os.path.join(REPLAYS, f"{pid}-{slug(q)}-bounded-{h}.json")
    payload["path"] = path
    with open(path, "w") as f:
        json.dump(payload, f, indent=1, default=str)
    return payload


def do_replay(pid, path):
    with open(path) as f:
        payload = json.load(f)
    drv = payload.get("replay_driver")
    if not drv:
        print(json.dumps(payload, indent=1)[:2000])
        print("no native replay driver for this obligation: the file carries the failed obligation and solver output")
        return 0
    res = run_replay(drv, {"mode": "replay", "function": payload["function"], "obligation": payload["obligation"],
                           "counterexample": payload.get("counterexample"), "input": payload.get("input")})
    print(json.dumps(res, indent=1))
    return 1 if res and res.get("reproduced") else 0


if __name__ == "__main__":
    try:
        rc = main()
    except SystemExit:
        raise
    except BaseException as e:  # a crash of the checker is never a verdict about the property
        import traceback

        traceback.print_exc()
        print(f"CHECKER-ERROR {type(e).__name__}: {e}")
        rc = 3
    sys.exit(rc)
