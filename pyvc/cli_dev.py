"""Developer entry: python3-vt -m pyvc.cli_dev <qualname> ..."""
import sys, json, os
from .loader import Repo
from .registry import Registry
from .vcgen import verify_function


def main():
    repo = Repo()
    reg = Registry(repo)
    targets = sys.argv[1:] or sorted(t for t in reg.contracts if not t.startswith("iface:"))
    for q in targets:
        rep = verify_function(repo, reg, q)
        print(f"== {q}  paths={rep.paths} outcomes={getattr(rep,'outcomes',None)} t={rep.seconds:.1f}s")
        for u in rep.unsupported:
            print("   UNSUPPORTED:", u)
        for e in rep.errors:
            print("   ERROR:", e)
        agg = rep.summary()
        import os as _os
        if _os.environ.get("PYVC_JSON"):
            obl = {}
            for name, recs in agg.items():
                sts = {r["status"] for r in recs}
                obl[name] = "refuted" if "refuted" in sts else ("unknown" if "unknown" in sts else "proved")
            print("JSON " + json.dumps({"function": q, "obligations": obl, "unsupported": rep.unsupported, "errors": rep.errors}))
        for name, recs in agg.items():
            st = sorted(set(r["status"] for r in recs))
            print(f"   {name}: {len(recs)} instance(s) {st} {sorted(set(r['backend'] for r in recs))}")
            for r in recs:
                if r["status"] == "refuted":
                    print("      CEX line", r["line"], json.dumps(r.get("counterexample"), default=str)[:int(os.environ.get("PYVC_CEX_CHARS", "400"))], r.get("note", ""))
                    break
                if r["status"] == "unknown":
                    print("      UNKNOWN:", r.get("reason", "")[:200])
                    break
        pass
        if os.environ.get("PYVC_DUMP"):
            for r in rep.obligations:
                print("     ", r["name"].split("#")[1], r["status"], r.get("seconds"), r.get("backend"), "L%s" % r.get("line"), (r.get("conjunct") or "")[:160].replace("\n", " "))
            print("   explore seconds:", round(rep.seconds - 0, 1), "solver(sum):", round(rep.solver_seconds, 1))
        if rep.dropped:
            print("   dropped:", sorted(rep.dropped))


main()
