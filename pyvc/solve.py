"""Back ends: z3 (API) -> cvc5 (CLI, --strings-exp) -> z3 4.8 (CLI).

Verdicts: proved / refuted (with model) / unknown.  `unknown` is never a violation."""

from __future__ import annotations

import os
import subprocess
import tempfile
import time

import z3

Z3_TIMEOUT_MS = int(os.environ.get("PYVC_Z3_MS", "10000"))
CVC5_TIMEOUT_S = int(os.environ.get("PYVC_CVC5_S", "75"))
Z3OLD_TIMEOUT_S = int(os.environ.get("PYVC_Z3OLD_S", "0"))
SEED = 0


def _smt2(assumptions, goal):
    s = z3.Solver()
    for a in assumptions:
        s.add(a)
    s.add(z3.Not(goal))
    return s.to_smt2()


ABS_MS = int(os.environ.get("PYVC_ABS_MS", "20000"))


def _has_q(f):
    from .core import _has_quantifier

    return _has_quantifier(f)


def solve(assumptions, goal, want_model=True, z3_ms=None, use_cvc5=True):
    """Abstraction first (sound for `proved`), then the precise back ends."""
    from .abstraction import abstract_query

    t0 = time.time()
    abstract_sat = False
    q = abstract_query(assumptions, goal) if os.environ.get("PYVC_NO_ABS") is None else None
    if q is not None:
        na, ng, exact = q
        # 1. E-matching only (no model-based quantifier instantiation): the Boogie/Dafny style
        #    of discharging VCs; sound for unsat, fast when it works
        if any(_has_q(a) for a in na) or _has_q(ng):
            s0 = z3.Solver()
            s0.set("timeout", ABS_MS)
            s0.set("random_seed", SEED)
            s0.set("smt.mbqi", False)
            s0.set("smt.auto_config", False)
            for a in na:
                s0.add(a)
            s0.add(z3.Not(ng))
            if s0.check() == z3.unsat:
                return {"status": "proved", "backend": "z3-" + z3.get_version_string() + "/strU/ematching", "seconds": time.time() - t0}
        s = z3.Solver()
        s.set("timeout", ABS_MS)
        s.set("random_seed", SEED)
        for a in na:
            s.add(a)
        s.add(z3.Not(ng))
        r = s.check()
        if r == z3.unsat:
            return {"status": "proved", "backend": "z3-" + z3.get_version_string() + "/strU", "seconds": time.time() - t0}
        if r == z3.sat and exact:
            abstract_sat = True
    res = solve_precise(assumptions, goal, want_model, z3_ms if not abstract_sat else min(z3_ms or Z3_TIMEOUT_MS, 5000), use_cvc5 and not abstract_sat)
    res["seconds"] = time.time() - t0
    if abstract_sat and res["status"] == "unknown":
        # equisatisfiable abstraction is sat: the obligation is refuted, but no string model
        return {"status": "refuted", "backend": "z3-" + z3.get_version_string() + "/strU-exact", "seconds": res["seconds"], "model": None}
    return res


def inconsistent(assumptions, ms=3000):
    """Vacuity guard: True when the assumptions alone are (cheaply) refutable - a path whose
    obligations would all be discharged for the wrong reason."""
    from .abstraction import abstract_query

    q = abstract_query(assumptions, z3.BoolVal(False))
    fs = q[0] if q is not None else list(assumptions)
    s0 = z3.Solver()
    s0.set("timeout", ms)
    s0.set("random_seed", SEED)
    s0.set("smt.mbqi", False)
    s0.set("smt.auto_config", False)
    for a in fs:
        s0.add(a)
    return s0.check() == z3.unsat


def solve_precise(assumptions, goal, want_model=True, z3_ms=None, use_cvc5=True):
    t0 = time.time()
    s = z3.Solver()
    s.set("timeout", z3_ms or Z3_TIMEOUT_MS)
    s.set("random_seed", SEED)
    for a in assumptions:
        s.add(a)
    s.add(z3.Not(goal))
    r = s.check()
    dt = time.time() - t0
    if r == z3.unsat:
        return {"status": "proved", "backend": "z3-" + z3.get_version_string(), "seconds": dt}
    if r == z3.sat:
        if os.environ.get("PYVC_MODEL"):
            import sys

            m = s.model()
            print("MODEL", file=sys.stderr)
            for d in m.decls():
                if d.arity() == 0:
                    print("  ", d.name(), "=", str(m[d])[:120], file=sys.stderr)
                else:
                    print("  ", d.name(), "=", str(m[d])[:400].replace("\n", " "), file=sys.stderr)
        return {"status": "refuted", "backend": "z3-" + z3.get_version_string(), "seconds": dt, "model": s.model()}
    reason = s.reason_unknown()
    from .core import _has_quantifier

    if use_cvc5 and (any(_has_quantifier(a) for a in assumptions) or _has_quantifier(goal)):
        # cvc5 1.0 cannot read z3's lambda / quantified array terms and rarely decides these
        use_cvc5 = False
    if not use_cvc5:
        return {"status": "unknown", "backend": "z3", "seconds": dt, "reason": reason}
    text = _smt2(assumptions, goal)
    res = run_cvc5(text)
    res["seconds"] += dt
    if res["status"] != "unknown":
        return res
    if Z3OLD_TIMEOUT_S <= 0:
        res["reason"] = f"z3: {reason}; cvc5: {res.get('reason')}"
        return res
    res2 = run_z3_old(text)
    res2["seconds"] += res["seconds"]
    if res2["status"] == "unknown":
        res2["reason"] = f"z3: {reason}; cvc5: {res.get('reason')}; z3-4.8: {res2.get('reason')}"
    return res2


def run_cvc5(text):
    t0 = time.time()
    with tempfile.NamedTemporaryFile("w", suffix=".smt2", delete=False) as f:
        f.write("(set-logic ALL)\n")
        f.write(text.replace("(check-sat)", "(check-sat)\n"))
        p = f.name
    try:
        out = subprocess.run(
            ["/usr/bin/cvc5", "--strings-exp", f"--tlimit={CVC5_TIMEOUT_S * 1000}", "--seed=0", p],
            capture_output=True,
            text=True,
            timeout=CVC5_TIMEOUT_S + 10,
        )
        o = out.stdout.strip().splitlines()
        first = o[0] if o else ""
        if first == "unsat":
            st = "proved"
        elif first == "sat":
            st = "refuted"
        else:
            st = "unknown"
        return {"status": st, "backend": "cvc5-1.0.3", "seconds": time.time() - t0, "reason": (out.stdout + out.stderr)[:300], "model": None}
    except subprocess.TimeoutExpired:
        return {"status": "unknown", "backend": "cvc5-1.0.3", "seconds": time.time() - t0, "reason": "timeout", "model": None}
    finally:
        os.unlink(p)


def run_z3_old(text):
    t0 = time.time()
    with tempfile.NamedTemporaryFile("w", suffix=".smt2", delete=False) as f:
        f.write(text)
        p = f.name
    try:
        out = subprocess.run(["/usr/bin/z3", f"-T:{Z3OLD_TIMEOUT_S}", p], capture_output=True, text=True, timeout=Z3OLD_TIMEOUT_S + 10)
        o = out.stdout.strip().splitlines()
        first = o[0] if o else ""
        st = {"unsat": "proved", "sat": "refuted"}.get(first, "unknown")
        return {"status": st, "backend": "z3-4.8.12", "seconds": time.time() - t0, "reason": out.stdout[:300], "model": None}
    except subprocess.TimeoutExpired:
        return {"status": "unknown", "backend": "z3-4.8.12", "seconds": time.time() - t0, "reason": "timeout", "model": None}
    finally:
        os.unlink(p)


# ----------------------------------------------------------------------------
# model -> Python values


def py_scalar(model, t):
    v = model.eval(t, model_completion=True)
    if z3.is_int_value(v):
        return v.as_long()
    if z3.is_true(v):
        return True
    if z3.is_false(v):
        return False
    if z3.is_string_value(v):
        return decode_z3_string(v.as_string())
    return str(v)


def decode_z3_string(s: str) -> str:
    import re

    def rep(m):
        return chr(int(m.group(1), 16))

    s = re.sub(r"\\u\{([0-9a-fA-F]+)\}", rep, s)
    s = re.sub(r"\\x([0-9a-fA-F]{2})", rep, s)
    return s


def array_entries(model, arr):
    """Evaluate an array term to ({key: value}, default) with Python scalars."""
    v = model.eval(arr, model_completion=True)
    entries = {}
    default = None
    seen = 0
    while seen < 1000:
        seen += 1
        if z3.is_store(v):
            k = v.arg(1)
            val = v.arg(2)
            kk = py_scalar(model, k)
            if kk not in entries:
                entries[kk] = py_scalar(model, val)
            v = v.arg(0)
        elif z3.is_const_array(v):
            default = py_scalar(model, v.arg(0))
            break
        elif z3.is_as_array(v):
            fi = model[z3.get_as_array_func(v)]
            for e in fi.as_list()[:-1]:
                kk = py_scalar(model, e[0])
                if kk not in entries:
                    entries[kk] = py_scalar(model, e[1])
            default = py_scalar(model, fi.else_value())
            break
        else:
            default = str(v)
            break
    return entries, default


def value_to_py(model, v, heap=None, _depth=0, _seen=None):
    if _depth > 5:
        return "<...>"
    _seen = _seen or set()
    from .values import VNone, VBool, VInt, VStr, VOpt, VTuple, VList, VMap, VSet, VRef, VOpaque

    if isinstance(v, VNone):
        return None
    if isinstance(v, (VBool, VInt)):
        return py_scalar(model, v.t)
    if isinstance(v, VStr):
        s = py_scalar(model, v.t)
        return {"bytes": s} if v.b else s
    if isinstance(v, VOpaque):
        return f"<{v.cls}:{py_scalar(model, v.t)}>"
    if isinstance(v, VOpt):
        if py_scalar(model, v.isnone):
            return None
        return value_to_py(model, v.val, heap)
    if isinstance(v, VTuple):
        return [value_to_py(model, x, heap) for x in v.items]
    if isinstance(v, VList):
        if v.items is not None:
            return [value_to_py(model, x, heap) for x in v.items]
        n = py_scalar(model, v.n)
        n = max(0, min(int(n), 8)) if isinstance(n, int) else 0
        return [value_to_py(model, v.at(z3.IntVal(i)), heap) for i in range(n)]
    if isinstance(v, VSet):
        ent, dflt = array_entries(model, v.dom)
        return {"set": sorted([k for k, b in ent.items() if b is True], key=str)}
    if isinstance(v, VMap):
        ent, dflt = array_entries(model, v.dom)
        out = {}
        for k, b in ent.items():
            if b is True:
                kt = z3.StringVal(k) if isinstance(k, str) else (z3.IntVal(k) if isinstance(k, int) else None)
                if kt is None:
                    continue
                from . import values as vals

                out[str(k)] = value_to_py(model, vals.sel(v.val, kt), heap)
        return {"map": out}
    if isinstance(v, VRef) and heap is not None and v.addr in heap:
        cell = heap[v.addr]
        if cell.val is not None:
            return value_to_py(model, cell.val, heap, _depth + 1, _seen)
        if v.addr in _seen:
            return f"<ref {v.addr}>"
        _seen = _seen | {v.addr}
        out = {"__class__": getattr(cell.cls, "qualname", str(cell.cls))}
        for fname, fv in cell.fields.items():
            try:
                if isinstance(fv, z3.ExprRef):
                    out[fname] = str(model.eval(fv, model_completion=True))[:200]
                else:
                    out[fname] = value_to_py(model, fv, heap, _depth + 1, _seen)
            except Exception:
                out[fname] = "<?>"
        return out
    return repr(v)
