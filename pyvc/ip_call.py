"""Calls, objects, attribute access, iteration, contract application."""

from __future__ import annotations

import ast
import z3

from .values import *  # noqa: F401,F403
from .values import (
    V, VNone, NONE, VBool, VInt, VStr, VOpt, VTuple, VList, VMap, VSet, VRef, VOpaque, VStruct,
    Unsupported, STR, INT, BOOL,
)
from . import values as vals
from .callables import *  # noqa: F401,F403
from .core import (
    Cell, RaiseSignal, ReturnSignal, BreakSignal, ContinueSignal, PathEnd,
)
from .ip_expr import Env
from .ip_stmt import loops_of, has_yield
from .loader import ClassInfo, ext_subclass
from . import strings


class Frame:
    def __init__(self, interp, func: VFunc, contract=None):
        self.func = func
        self.node = func.node
        self.qualname = func.qualname
        if contract is not None and getattr(contract, "key", contract.target) != contract.target and contract.target == func.qualname:
            self.qualname = contract.key  # a variant contract of the same function: own obligation names
        self.contract = contract
        self.loops = loops_of(func.node) if not isinstance(func.node, ast.Lambda) else []
        self.yielded = None
        self.entry_env = None
        self.entry_heap = None
        self.verifying = False

    def loop_ordinal(self, st):
        for i, l in enumerate(self.loops):
            if l is st:
                return i
        return -1

    def invariant(self, k):
        if self.contract is None or not self.verifying:
            return None
        return self.contract.funcs.get(f"inv_{k}")

    def loop_modifies(self, k):
        if self.contract is None:
            return []
        return self.contract.loop_modifies.get(k, [])

    def local_kind(self, name):
        if self.contract is None:
            return None
        return self.contract.locals.get(name)

    def yield_kind(self):
        if self.contract is None:
            return None
        return self.contract.yields


MAX_INLINE_DEPTH = 8


class CallMixin:
    # ------------------------------------------------------------------ exceptions
    def raise_builtin(self, name, *args):
        raise RaiseSignal(self.new_exception(name, list(args)))

    def new_exception(self, cls, args):
        cell = Cell(cls=cls, fields={"args": VTuple(args)})
        return VRef(self.path.alloc(cell), cls)

    def class_of(self, ref: VRef):
        c = self.heap()[ref.addr].cls
        if isinstance(c, ClassInfo):
            return VClass(c)
        return VExtClass(c)

    def exc_matches(self, exc: VRef, clsv) -> bool:
        if isinstance(clsv, (VTuple, VList)):
            return any(self.exc_matches(exc, c) for c in clsv.items)
        clsv = self.deref(clsv)
        if isinstance(clsv, (VTuple, VList)):
            return any(self.exc_matches(exc, c) for c in clsv.items)
        c = self.heap()[exc.addr].cls
        return self.class_subclass(c, clsv)

    def class_subclass(self, c, clsv) -> bool:
        """c: ClassInfo|str ; clsv: VClass|VExtClass."""
        if isinstance(clsv, VClass):
            return isinstance(c, ClassInfo) and c.is_subclass_of(clsv.info)
        if isinstance(clsv, VExtClass):
            tgt = clsv.name
            if tgt in ("BaseException",):
                return True
            if isinstance(c, ClassInfo):
                return any(isinstance(b, str) and self.ext_sub(b, tgt) for b in c.mro())
            return self.ext_sub(c, tgt)
        raise Unsupported(f"class test against {clsv!r}")

    def ext_sub(self, a: str, b: str) -> bool:
        if a == b:
            return True
        if b == "Exception":
            return a not in ("BaseException", "KeyboardInterrupt", "SystemExit", "GeneratorExit")
        if b == "object":
            return True
        sa, sb = a.split(".")[-1], b.split(".")[-1]
        if "." not in a and "." not in b:
            return ext_subclass(a, b)
        known = self.registry.ext_bases
        seen = set()
        todo = [a]
        while todo:
            x = todo.pop()
            if x == b:
                return True
            if x in seen:
                continue
            seen.add(x)
            todo.extend(known.get(x, []))
            if "." not in x and "." not in b and ext_subclass(x, b):
                return True
        return False

    # ------------------------------------------------------------------ objects
    def dataify(self, v: V) -> V:
        """Objects entering a symbolic container are stored by value (VStruct)."""
        if isinstance(v, VTuple):
            return VTuple([self.dataify(x) for x in v.items], getattr(v, "names", None))
        if isinstance(v, VRef):
            cell = self.heap()[v.addr]
            if cell.native is not None and cell.cls == "xml.etree.ElementTree.Element":
                # an output element stored in a symbolic sequence: only its tag is kept
                tag = cell.fields.get("tag")
                o = VOpaque(self.path.const("xmlout", vals.usort("XmlOut")), "XmlOut")
                if isinstance(tag, VStr):
                    self.path.assume(z3.Function("XmlOut.tag", vals.usort("XmlOut"), STR)(o.t) == tag.t)
                return o
            if isinstance(cell.cls, ClassInfo) and cell.val is None and cell.native is None:
                _, fk = vals.STRUCT_RESOLVER(cell.cls.qualname)
                fields = {}
                for f, k in fk.items():
                    if f in cell.fields:
                        fv = cell.fields[f]
                    elif v.addr in self.symbolic_objs:
                        fv = self.getattr(v, f)
                    else:
                        raise Unsupported(f"{cell.cls.qualname}.{f} is declared but was never set")
                    fields[f] = vals.coerce(self.deref(self.dataify(fv)), vals.fresh(k, "t"))
                extra = [f for f in cell.fields if f not in fk and not isinstance(cell.fields[f], VRef)]
                return VStruct(cell.cls, fields)
        return v

    def new_object(self, cls, symbolic=False, fields=None):
        cell = Cell(cls=cls, fields=dict(fields or {}))
        ref = VRef(self.path.alloc(cell), cls)
        if symbolic:
            self.symbolic_objs.add(ref.addr)
        return ref

    def fresh_value(self, kind: str, name: str) -> V:
        """Fresh symbolic value; containers get their own heap cell; obj:... makes objects."""
        self.path.materializing += 1
        try:
            return self._fresh_value(kind, name)
        finally:
            self.path.materializing -= 1
            if self.path.materializing == 0:
                self.path.end_materialize()

    def _fresh_value(self, kind: str, name: str) -> V:
        kind = kind.strip()
        if kind.startswith("constdict:"):
            import json as _json

            spec = _json.loads(kind[len("constdict:"):])
            return self.new_container(VConstDict({k: self._fresh_value(v, f"{name}[{k}]") for k, v in spec.items()}))
        if kind.startswith("obj:"):
            cn = kind[4:]
            ci = self.repo.lookup_class(cn)
            if ci is not None:
                return self.new_object(ci, symbolic=True)
            mk = self.registry.model_class(cn)
            if mk is not None:
                return mk.fresh(self, name)
            raise Unsupported(f"unknown class {cn!r} in kind")
        if kind.startswith("oneof:"):
            # an object of one of several classes: which one is a (fresh) decision of the path
            alts = [a.strip() for a in kind[len("oneof:"):].split("|")]
            for alt in alts[:-1]:
                if self.path.branch(self.path.const(f"{name}.is[{alt.rsplit('.', 1)[-1]}]", BOOL)):
                    return self._fresh_value("obj:" + alt, name)
            return self._fresh_value("obj:" + alts[-1], name)
        if kind.startswith("optobj:"):
            raise Unsupported("optional objects must be declared as two contract cases")
        v = vals.fresh(kind, self.path.name(name))
        for f in vals.wellformed(v):
            self.path.assume(f)
        if isinstance(v, (VMap, VSet, VList)):
            return self.new_container(v)
        return v

    def getattr(self, obj: V, name: str) -> V:
        if isinstance(obj, VOpt):
            if self.spec_mode:
                obj = obj.val
            else:
                if self.path.branch(obj.isnone):
                    self.raise_builtin("AttributeError")
                obj = obj.val
        if isinstance(obj, vals.VBottom):
            return vals.BOTTOM
        if isinstance(obj, VNone):
            if self.spec_mode:
                return vals.BOTTOM
            self.raise_builtin("AttributeError")
        if isinstance(obj, VRef):
            cell = self.heap()[obj.addr]
            if cell.native is not None:
                return cell.native.getattr(self, obj, name)
            if cell.val is not None:
                return VBound(obj, VNative(None, "container." + name))
            if name in cell.fields:
                return cell.fields[name]
            cls = cell.cls
            if isinstance(cls, ClassInfo):
                vw = self.registry.view_for(cls, name)
                if vw is not None:
                    # ghost field defined by an abstraction function over the concrete state
                    return self.registry.spec_natives[vw](self, [obj], {})
                if obj.addr in self.symbolic_objs:
                    kind = self.registry.field_kind(cls, name)
                    if kind is not None:
                        if self.heap_override is not None:
                            # field first read inside old(): materialise in both heaps
                            v = self.fresh_value(kind, f"{cls.name}.{name}")
                            self.path.heap[obj.addr].fields.setdefault(name, v)
                            cell.fields[name] = v
                            return v
                        v = self.fresh_value(kind, f"{cls.name}.{name}")
                        cell.fields[name] = v
                        for fr in self.frames:
                            if fr.entry_heap is not None and obj.addr in fr.entry_heap:
                                fr.entry_heap[obj.addr].fields.setdefault(name, v)
                                if isinstance(v, VRef) and v.addr not in fr.entry_heap:
                                    fr.entry_heap[v.addr] = self.path.heap[v.addr].copy()
                        # ... and of every snapshot taken so far (old() at call sites): a field that
                        # is read for the first time now had this value all along
                        for snap in self.path.snapshots:
                            if obj.addr in snap:
                                snap[obj.addr].fields.setdefault(name, v)
                                if isinstance(v, VRef) and v.addr not in snap:
                                    snap[v.addr] = self.path.heap[v.addr].copy()
                        return v
                return self.class_getattr(cls, name, obj)
            if name == "args":
                return cell.fields.get("args", VTuple([]))
            if name == "errno":
                return cell.fields.get("errno", VInt(self.path.const("errno", INT)))
            raise Unsupported(f"attribute {name!r} of external object of class {cls}")
        if isinstance(obj, VStruct):
            if name in obj.fields:
                return obj.fields[name]
            return self.class_getattr(obj.cls, name, obj)
        if isinstance(obj, VStr):
            return VBound(obj, VNative(None, "str." + name))
        if isinstance(obj, VTuple) and getattr(obj, "names", None) and name in obj.names:
            return obj.items[obj.names.index(name)]
        if isinstance(obj, (VTuple, VList, VMap, VSet, VConstDict)):
            return VBound(obj, VNative(None, "container." + name))
        if isinstance(obj, VModule):
            return self.module_attr(obj.name, name)
        if isinstance(obj, VClass):
            if name == "__name__":
                return VStr(z3.StringVal(obj.info.name))
            return self.class_getattr(obj.info, name, None, on_class=obj)
        if isinstance(obj, VExtClass):
            return self.registry.extclass_attr(self, obj, name)
        if isinstance(obj, VSuper):
            mro = obj.cls.mro()
            idx = mro.index(obj.cls) if obj.cls in mro else 0
            recv_cls = self.heap()[obj.recv.addr].cls if isinstance(obj.recv, VRef) else obj.cls
            full = recv_cls.mro() if isinstance(recv_cls, ClassInfo) else mro
            after = False
            for c in full:
                if after and isinstance(c, ClassInfo) and name in c.methods:
                    fn = VFunc(c.methods[name], c.module, owner=c, name=name)
                    if self.is_classmethod(fn.node):
                        return VBound(VClass(recv_cls) if isinstance(obj.recv, VRef) else obj.recv, fn)
                    return VBound(obj.recv, fn)
                if c is obj.cls or (isinstance(c, ClassInfo) and c.qualname == obj.cls.qualname):
                    after = True
            return VNative(lambda it, a, k: NONE, "super." + name)
        if isinstance(obj, VOpaque):
            return self.registry.opaque_getattr(self, obj, name)
        if isinstance(obj, VFunc) and name == "__name__":
            return VStr(z3.StringVal(obj.name))
        if isinstance(obj, (VInt, VBool)):
            self.raise_builtin("AttributeError")
        raise Unsupported(f"attribute {name!r} of {obj!r}")

    def is_classmethod(self, node):
        return any(isinstance(d, ast.Name) and d.id == "classmethod" for d in getattr(node, "decorator_list", []))

    def is_staticmethod(self, node):
        return any(isinstance(d, ast.Name) and d.id == "staticmethod" for d in getattr(node, "decorator_list", []))

    def is_property(self, node):
        return any(isinstance(d, ast.Name) and d.id == "property" for d in getattr(node, "decorator_list", []))

    def class_getattr(self, cls: ClassInfo, name, inst, on_class=None):
        owner, m = cls.find_method(name)
        if m is not None:
            fn = VFunc(m, owner.module, owner=owner, name=name)
            if getattr(owner, "local_env", None) is not None:
                fn.closure = [owner.local_env.locals] + owner.local_env.closure
            if self.is_staticmethod(m):
                return fn
            if self.is_classmethod(m):
                return VBound(on_class or VClass(cls), fn)
            if inst is None:
                return fn
            if self.is_property(m):
                return self.call(VBound(inst, fn), [], {})
            return VBound(inst, fn)
        owner, a = cls.find_attr(name)
        if a is not None:
            if (inst is not None and isinstance(inst, VRef) and inst.addr in self.symbolic_objs
                    and self.repo.assigns_instance_attr(name)):
                # a class-level default that some method rebinds on instances (`self.x = ...`): on a
                # symbolic object its value is whatever an earlier call left there, not the default
                raise Unsupported(f"field {name!r} of symbolic {cls.qualname} has a class-level default but is assigned on "
                                  "instances somewhere in the repository; it is not declared in the typing sidecar")
            key = ("classattr", owner.qualname, name)
            if key not in self.path.memo:
                self.path.memo[key] = self.ev(a, Env(owner.module, {}, cls=owner))
            return self.path.memo[key]
        if name == "__name__":
            return VStr(z3.StringVal(cls.name))
        if name == "__class__" and inst is not None:
            return VClass(cls)
        # external bases
        for b in cls.mro():
            if isinstance(b, str):
                r = self.registry.ext_method(self, b, name, inst)
                if r is not None:
                    return r
        if inst is not None and isinstance(inst, VRef) and inst.addr in self.symbolic_objs:
            raise Unsupported(f"field {name!r} of symbolic {cls.qualname} is not declared in the typing sidecar")
        if self.spec_mode:
            return vals.BOTTOM
        self.raise_builtin("AttributeError")

    def setattr(self, obj, name, v):
        if self.heap_override is not None:
            raise Unsupported("mutation inside old()")
        if isinstance(obj, VRef):
            cell = self.path.heap[obj.addr]
            if cell.native is not None:
                cell.native.setattr(self, obj, name, v)
                return
            cell.fields[name] = self._typed_empty_for_field(cell, name, v)
            return
        if isinstance(obj, VOpaque):
            self.registry.opaque_setattr(self, obj, name, v)
            return
        raise Unsupported(f"attribute store on {obj!r}")

    def _typed_empty_for_field(self, cell, name, v):
        """`self.f = {}` / `[]` on a field whose kind is declared: the empty container of that
        kind (an untyped empty literal cannot take symbolic keys later)."""
        d = self.deref(v)
        cls = getattr(cell, "cls", None)
        if cls is None or not ((isinstance(d, VConstDict) and not d.items) or (isinstance(d, VList) and d.items == [])):
            return v
        kind = self.registry.field_kind(cls, name) if isinstance(cls, ClassInfo) else None
        if kind is None or not (kind.startswith("dict[") or kind.startswith("list[")):
            return v
        return self.new_container(self.empty_of_kind(kind))

    def empty_of_kind(self, kind):
        tmpl = vals.fresh(kind, self.path.name("empty"))
        if isinstance(tmpl, VMap):
            ks = tmpl.ksort()
            return VMap(tmpl.key, z3.K(ks, z3.BoolVal(False)), vals.dummy_like(tmpl.val))
        if isinstance(tmpl, VList):
            return VList(z3.IntVal(0), vals.dummy_like(tmpl.elem))
        raise Unsupported(f"empty value of kind {kind}")

    # ------------------------------------------------------------------ globals
    def global_lookup(self, name, module) -> V:
        if module is not None:
            if getattr(module, "is_spec", False):
                r = self.registry.spec_lookup(self, module, name)
                if r is not None:
                    return r
            else:
                ov = self.registry.const_override(module.name, name)
                if ov is not None:
                    key = ("const", module.name, name)
                    if key not in self.path.memo:
                        self.path.memo[key] = ov(self)
                    return self.path.memo[key]
                if name in module.functions:
                    return VFunc(module.functions[name], module, name=name)
                if name in module.classes:
                    return VClass(module.classes[name])
                if name in module.consts:
                    key = ("const", module.name, name)
                    if key not in self.path.memo:
                        ov = self.registry.const_override(module.name, name)
                        if ov is not None:
                            self.path.memo[key] = ov(self)
                        else:
                            self.path.memo[key] = self.ev(module.consts[name], Env(module, {}))
                    return self.path.memo[key]
                if name in module.imports:
                    imp = module.imports[name]
                    if imp[0] == "module":
                        return VModule(imp[1])
                    return self.module_attr(imp[1], imp[2])
        return self.builtin(name)

    def module_attr(self, modname, attr) -> V:
        m = self.repo.module(modname)
        if m is not None:
            if attr in m.functions or attr in m.classes or attr in m.consts or attr in m.imports:
                return self.global_lookup(attr, m)
            sub = self.repo.module(f"{modname}.{attr}")
            if sub is not None:
                return VModule(f"{modname}.{attr}")
            raise Unsupported(f"{modname}.{attr} not found in repository source")
        return self.registry.external(self, modname, attr)

    # ------------------------------------------------------------------ calls
    def ev_Call(self, node, env):
        if isinstance(node.func, ast.Name):
            nm = node.func.id
            if nm == "old" and self.spec_mode:
                return self.eval_old(node.args[0], env)
            if nm == "super" and not node.args:
                return VSuper(env.cls, env.locals.get("self") or env.locals.get("cls"))
            if nm in ("any", "all") and len(node.args) == 1 and isinstance(node.args[0], (ast.GeneratorExp, ast.ListComp)):
                return self.quantified(nm, node.args[0], env)
            if nm in ("forall", "exists") and self.spec_mode:
                return self.spec_quant(nm, node, env)
        fv = self.ev(node.func, env)
        args = []
        for a in node.args:
            if isinstance(a, ast.Starred):
                args.extend(self.concrete_items(self.deref(self.ev(a.value, env))))
            else:
                args.append(self.ev(a, env))
        kwargs = {}
        for k in node.keywords:
            if k.arg is None:
                d = self.deref(self.ev(k.value, env))
                if isinstance(d, VConstDict):
                    kwargs.update(d.items)
                else:
                    raise Unsupported("** with a non-concrete dictionary")
            else:
                kwargs[k.arg] = self.ev(k.value, env)
        self.cur_line = node.lineno
        return self.call(fv, args, kwargs)

    def concrete_items(self, v):
        if isinstance(v, (VTuple,)):
            return v.items
        if isinstance(v, VList) and v.items is not None:
            return v.items
        raise Unsupported(f"cannot expand {v!r} (symbolic length)")

    def call(self, fv: V, args, kwargs) -> V:
        if isinstance(fv, vals.VBottom) or (self.spec_mode and any(isinstance(a, vals.VBottom) for a in args)):
            return vals.BOTTOM
        if isinstance(fv, VNative):
            if self.spec_mode and getattr(fv, "external", False):
                if any(isinstance(a, VNone) for a in args):
                    return vals.BOTTOM
                args = [a.val if isinstance(a, VOpt) else a for a in args]
            elif (getattr(fv, "external", False) and not getattr(fv, "accepts_none", False)
                  and any(isinstance(a, VOpt) for a in args)):
                # passing a possibly-None value to a library function: None is a TypeError there
                na = []
                for a in args:
                    if isinstance(a, VOpt):
                        if self.path.branch(a.isnone):
                            self.raise_builtin("TypeError")
                        a = a.val
                    na.append(a)
                args = na
            return fv.fn(self, args, kwargs)
        if isinstance(fv, VBound):
            f = fv.func
            if isinstance(f, VNative) and f.fn is None:
                return self.call_method(fv.recv, f.name.split(".", 1)[1], args, kwargs)
            return self.call(f, [fv.recv] + list(args), kwargs)
        if isinstance(fv, VPartial):
            kw = dict(fv.kwargs)
            kw.update(kwargs)
            return self.call(fv.func, list(fv.args) + list(args), kw)
        if isinstance(fv, VFunc):
            return self.call_func(fv, args, kwargs)
        if isinstance(fv, VClass):
            return self.instantiate(fv.info, args, kwargs)
        if isinstance(fv, VExtClass):
            return self.registry.ext_construct(self, fv.name, args, kwargs)
        if isinstance(fv, VOpaque):
            return self.registry.opaque_call(self, fv, args, kwargs)
        if isinstance(fv, VRef):
            cell = self.heap()[fv.addr]
            if isinstance(cell.cls, ClassInfo):
                return self.call_method(fv, "__call__", args, kwargs)
        raise Unsupported(f"call of {fv!r}")

    def call_method(self, recv, name, args, kwargs):
        if isinstance(recv, vals.VBottom):
            return vals.BOTTOM
        r = self.deref(recv) if not (isinstance(recv, VRef) and self.heap()[recv.addr].val is None) else recv
        if isinstance(r, VStr):
            return strings.call_method(self, r, name, args, kwargs)
        if isinstance(r, (VList, VMap, VSet, VConstDict, VTuple)):
            return self.container_method(recv, r, name, args, kwargs)
        if isinstance(r, VOpt):
            if self.path.branch(r.isnone):
                self.raise_builtin("AttributeError")
            return self.call_method(r.val, name, args, kwargs)
        m = self.getattr(recv, name)
        return self.call(m, args, kwargs)

    def bind_args(self, fnode, args, kwargs, env_for_defaults: Env):
        a = fnode.args
        names = [x.arg for x in a.posonlyargs + a.args]
        bound = {}
        args = list(args)
        if len(args) > len(names) and a.vararg is None:
            self.raise_builtin("TypeError")
        for n, v in zip(names, args):
            bound[n] = v
        if a.vararg is not None:
            bound[a.vararg.arg] = VTuple(args[len(names):])
        kw = dict(kwargs)
        defaults = a.defaults
        first_default = len(names) - len(defaults)
        for i, n in enumerate(names):
            if n in bound:
                if n in kw:
                    self.raise_builtin("TypeError")
                continue
            if n in kw:
                bound[n] = kw.pop(n)
            elif i >= first_default:
                bound[n] = self.ev(defaults[i - first_default], env_for_defaults)
            else:
                self.raise_builtin("TypeError")
        for ka, kd in zip(a.kwonlyargs, a.kw_defaults):
            if ka.arg in kw:
                bound[ka.arg] = kw.pop(ka.arg)
            elif kd is not None:
                bound[ka.arg] = self.ev(kd, env_for_defaults)
            else:
                self.raise_builtin("TypeError")
        if a.kwarg is not None:
            bound[a.kwarg.arg] = self.new_container(VConstDict(kw))
        elif kw:
            self.raise_builtin("TypeError")
        return bound

    def call_func(self, f: VFunc, args, kwargs) -> V:
        if self.spec_mode and not getattr(f.module, "is_spec", False):
            # a repository function applied inside a quantified expression (any/all over a symbolic
            # sequence): only possible through a *functional* contract: value(params) is the result
            # whenever the call returns; that it cannot raise there is the enclosing contract's
            # stated precondition
            c0 = self.registry.contract_for(f.qualname)
            if c0 is not None and "value" in c0.funcs:
                bound = self.bind_args(f.node, args, kwargs, Env(f.module, {}, f.closure, cls=f.owner))
                self.called.add(c0.target)
                return self.eval_contract_fn(c0, "value", dict(bound))
        if getattr(f.module, "is_spec", False) or self.spec_mode:
            return self.call_spec(f, args, kwargs)
        c = self.registry.contract_for_call(self, f.qualname, f, args, kwargs)
        top = self.frames[0].contract if self.frames else None
        if c is not None and top is not None and f.qualname in top.inline_calls:
            # the caller's contract asks for this callee's body (its precondition is still an
            # obligation here; its own contract is verified separately)
            bound = self.bind_args(f.node, args, kwargs, Env(f.module, {}, f.closure, cls=f.owner))
            if "requires" in c.funcs:
                caller = self.frames[-1].qualname
                pre = self.truthy(self.eval_contract_fn(c, "requires", dict(bound)))
                self.path.oblige(f"{caller}#pre:{c.short}@{self.call_ordinal(caller, c.short)}", pre, line=self.cur_line, kind="pre")
            self.inlined.add(f.qualname)
            old_heap = self.path.snapshot()
            res = self.run_function(f, args, kwargs)
            # the callee's own (separately verified) postcondition is available as a lemma
            vals_ = dict(bound)
            vals_["result"] = res
            for en_ in sorted(n for n in c.funcs if n == "ensures" or (n.startswith("ensures_") and not n.startswith("ensures_raise"))):
                try:
                    self.path.assume(self.truthy(self.eval_contract_fn(c, en_, vals_, old_heap, dict(bound))))
                except Unsupported:
                    pass
            self.path.snapshots.remove(old_heap)
            return res
        if c is not None and not c.inline:
            bound = self.bind_args(f.node, args, kwargs, Env(f.module, {}, f.closure, cls=f.owner))
            return self.apply_contract(c, f, bound)
        if len(self.frames) > MAX_INLINE_DEPTH:
            raise Unsupported(f"inline depth exceeded at {f.qualname}")
        if any(fr.func.node is f.node for fr in self.frames):
            raise Unsupported(f"recursive call of {f.qualname} without a contract")
        self.inlined.add(f.qualname)
        return self.run_function(f, args, kwargs)

    def run_function(self, f: VFunc, args, kwargs, frame: Frame | None = None) -> V:
        env = Env(f.module, {}, f.closure, cls=f.owner, func=f)
        bound = self.bind_args(f.node, args, kwargs, Env(f.module, {}, f.closure, cls=f.owner))
        env.locals.update(bound)
        fr = frame or Frame(self, f, None)
        if isinstance(f.node, ast.Lambda):
            self.frames.append(fr)
            try:
                return self.ev(f.node.body, env)
            finally:
                self.frames.pop()
        gen = has_yield(f.node)
        if gen:
            fr.yielded = VList(items=[])
        self.frames.append(fr)
        fr.env = env
        try:
            try:
                self.exec_block(f.node.body, env)
                ret = NONE
            except ReturnSignal as r:
                ret = r.v
            if gen:
                y = fr.yielded
                return self.new_container(y)
            return ret
        finally:
            self.frames.pop()

    def instantiate(self, cls: ClassInfo, args, kwargs):
        c = self.registry.contract_for(cls.qualname + ".__new__")
        obj = self.new_object(cls)
        owner, init = cls.find_method("__init__")
        if init is not None:
            fn = VFunc(init, owner.module, owner=owner, name="__init__")
            if getattr(owner, "local_env", None) is not None:
                fn.closure = [owner.local_env.locals] + owner.local_env.closure
            self.call(VBound(obj, fn), args, kwargs)
        else:
            self.path.heap[obj.addr].fields["args"] = VTuple(list(args))
        return obj

    # ------------------------------------------------------------------ spec evaluation
    def call_spec(self, f: VFunc, args, kwargs):
        saved = self.spec_mode
        self.spec_mode = True
        try:
            bound = self.bind_args(f.node, args, kwargs, Env(f.module, {}, f.closure))
            env = Env(f.module, dict(bound), f.closure)
            if isinstance(f.node, ast.Lambda):
                return self.ev(f.node.body, env)
            return self.spec_block(f.node.body, env)
        finally:
            self.spec_mode = saved

    def spec_block(self, stmts, env: Env) -> V:
        for i, st in enumerate(stmts):
            if isinstance(st, ast.Return):
                return self.ev(st.value, env) if st.value is not None else NONE
            if isinstance(st, ast.Expr) and isinstance(st.value, ast.Constant):
                continue
            if isinstance(st, ast.Assign) and len(st.targets) == 1:
                self.assign(st.targets[0], self.ev(st.value, env), env)
                continue
            if isinstance(st, ast.If):
                c = self.truthy(self.ev(st.test, env))
                rest = stmts[i + 1 :]
                cb = vals.is_concrete_bool(c)
                if cb is True:
                    return self.spec_block(st.body + rest, env)
                if cb is False:
                    return self.spec_block(st.orelse + rest, env)
                e1 = Env(env.module, dict(env.locals), env.closure)
                e2 = Env(env.module, dict(env.locals), env.closure)
                a = self.spec_block(st.body + rest, e1)
                b = self.spec_block(st.orelse + rest, e2)
                return vals.ite(c, self.deref(a), self.deref(b))
            raise Unsupported(f"statement {type(st).__name__} in a specification function (line {st.lineno})")
        return NONE

    def eval_old(self, expr, env):
        fr = self.spec_frame
        if fr is None or fr.get("old_heap") is None:
            raise Unsupported("old() outside a contract")
        saved_h = self.heap_override
        self.heap_override = fr["old_heap"]
        try:
            env2 = Env(env.module, dict(env.locals), env.closure)
            env2.locals.update(fr.get("old_env") or {})
            # a container reference is resolved *now*, in the old heap
            return self.deref(self.ev(expr, env2))
        finally:
            self.heap_override = saved_h

    def eval_contract_fn(self, contract, fname, values: dict, old_heap=None, old_env=None, in_old_state=False) -> V:
        """Evaluate contract function `fname` in spec mode; parameters resolved by name.
        in_old_state: evaluate entirely in the entry heap (requires / raises_* conditions)."""
        fn = contract.funcs[fname]
        saved = (self.spec_mode, self.spec_frame)
        saved_line = self.cur_line
        saved_override = self.heap_override
        if in_old_state and old_heap is not None:
            self.heap_override = old_heap
        self.spec_mode = True
        self.spec_frame = {"old_heap": old_heap, "old_env": old_env}
        try:
            loc = {}
            for a in fn.args.args:
                if a.arg not in values:
                    raise Unsupported(
                        f"contract {contract.target}.{fname} names {a.arg!r}, which does not exist here"
                    )
                loc[a.arg] = values[a.arg]
            env = Env(contract.module, loc)
            return self.spec_block(fn.body, env)
        finally:
            self.spec_mode, self.spec_frame = saved
            self.cur_line = saved_line
            self.heap_override = saved_override

    def eval_invariant(self, fr: Frame, inv_fn, env: Env, extra: dict):
        values = dict(env.locals)
        values.update(extra)
        if fr.yielded is not None:
            y = fr.yielded
            if y.items is not None and fr.yield_kind() is not None:
                tmpl = vals.fresh("list[" + fr.yield_kind() + "]", "tmpl")
                if y.items:
                    y = vals.coerce(VList(items=[self.dataify(x) for x in y.items]), tmpl)
                else:
                    y = VList(z3.IntVal(0), vals.lift_const(vals.dummy_like(vals.sel(tmpl.elem, z3.IntVal(0))), INT))
            values["_yielded"] = y
        # only names that are bound
        values = {k: v for k, v in values.items() if v is not None}
        # concrete-shaped containers with a declared kind are viewed symbolically
        for k, v in list(values.items()):
            kind = fr.local_kind(k)
            if kind is None:
                continue
            d = self.deref(v)
            if isinstance(d, VConstDict) and not d.items and kind.startswith("dict["):
                tmpl = vals.fresh(kind, "tmpl")
                ks = tmpl.key.leaves()[0].sort()
                values[k] = VMap(tmpl.key, z3.K(ks, z3.BoolVal(False)), tmpl.val)
            elif isinstance(d, VList) and d.items is not None and kind.startswith("list["):
                tmpl = vals.fresh(kind, "tmpl")
                if d.items:
                    values[k] = vals.coerce(VList(items=[self.dataify(x) for x in d.items]), tmpl)
                else:
                    values[k] = VList(z3.IntVal(0), tmpl.elem)
        saved = (self.spec_mode, self.spec_frame)
        saved_line = self.cur_line
        self.spec_mode = True
        self.spec_frame = {"old_heap": fr.entry_heap, "old_env": fr.entry_env}
        try:
            loc = {}
            for a in inv_fn.args.args:
                if a.arg not in values:
                    raise Unsupported(
                        f"invariant {inv_fn.name} of {fr.qualname} names local {a.arg!r}, which is not bound at the loop head"
                    )
                loc[a.arg] = values[a.arg]
            return self.truthy(self.spec_block(inv_fn.body, Env(fr.contract.module, loc)))
        finally:
            self.spec_mode, self.spec_frame = saved
            self.cur_line = saved_line

    # ------------------------------------------------------------------ contract application at call sites
    def apply_contract(self, c, f, bound: dict) -> V:
        caller = self.frames[-1].qualname if self.frames else "<top>"
        line = self.cur_line
        if self.spec_mode:
            # inside a quantified expression (any/all over a symbolic sequence) a call can only be
            # a term: the contract's functional form value(params); that the call cannot raise
            # there is the enclosing contract's stated precondition
            if "value" in c.funcs:
                self.called.add(c.target)
                return self.eval_contract_fn(c, "value", dict(bound))
            raise Unsupported(f"call of {c.target} inside a quantified expression: its contract has no functional form (value)")
        for pn, kind in c.params.items():
            v = bound.get(pn)
            if kind == "opaque:Chunks" and v is not None and not isinstance(v, VOpaque):
                from .models.dulwichmodels import chunks_of, joined

                bound[pn] = chunks_of(self, joined(self, v).t)
                continue
            want = {"str": VStr, "bytes": VStr, "int": (VInt, VBool), "bool": VBool}.get(kind)
            vd = self.deref(v) if v is not None else None
            if want is not None and vd is not None and not isinstance(vd, (VOpt, vals.VBottom)) and not isinstance(vd, want):
                # the argument is not of the type the callee is written for (e.g. a list where a
                # string is expected): the call cannot meet the callee's contract
                self.path.oblige(f"{caller}#pre:{c.short}:{pn}-type@{self.call_counts.get((caller, c.short), 0)}",
                                 z3.BoolVal(False), line=line, kind="pre",
                                 note=f"argument {pn} is a {vd.kind}, the callee expects {kind}")
                raise PathEnd()
            if isinstance(v, VOpt) and not kind.startswith("opt["):
                # a possibly-None argument for a parameter the contract types as non-optional
                self.path.oblige(f"{caller}#pre:{c.short}:{pn}-not-None@{self.call_counts.get((caller, c.short), 0)}",
                                 z3.Not(v.isnone), line=line, kind="pre")
                bound[pn] = v.val
        values = dict(bound)
        if "requires" in c.funcs:
            pre = self.truthy(self.eval_contract_fn(c, "requires", values))
            self.path.oblige(f"{caller}#pre:{c.short}@{self.call_ordinal(caller, c.short)}", pre, line=line, kind="pre")
        old_heap = self.path.snapshot()
        old_env = dict(bound)
        exc_names = [n[len("raises_"):] for n in c.funcs if n.startswith("raises_")]
        conds = []
        for en in exc_names:
            conds.append(self.truthy(self.eval_contract_fn(c, "raises_" + en, values)))
        outcomes = [("normal", None)] + [("raise", en) for en in exc_names] + [("may", en) for en in c.may_raise]
        oc = []
        for kind, en in outcomes:
            if kind == "normal":
                oc.append(z3.And([z3.Not(x) for x in conds] + [z3.BoolVal(True)]))
            elif kind == "raise":
                oc.append(conds[exc_names.index(en)])
            else:
                oc.append(z3.BoolVal(True))
        k = self.path.choose(len(outcomes), oc, label=f"call:{c.short}")
        kind, en = outcomes[k]
        self.called.add(c.target)
        # effect_names() / effect_arg() inside a callee's postcondition are obligations on the
        # callee's body, not facts for its callers (callers learn effects from `effects=` only):
        # they evaluate to an unconstrained value here
        saved = getattr(self, "effects_opaque", False)
        self.effects_opaque = True
        try:
            return self._call_contract_outcome(c, kind, en, bound, values, old_heap, old_env)
        finally:
            self.effects_opaque = saved

    def _call_contract_outcome(self, c, kind, en, bound, values, old_heap, old_env):
        for eff in c.effects:  # the call happened, whatever its outcome
            if isinstance(eff, (list, tuple)):
                self.path.effects.append((eff[0],) + tuple(bound.get(a) for a in eff[1:]))
            else:
                self.path.effects.append((eff,))
        if kind == "normal":
            for eff in c.effects_ok:  # only when the call returned normally
                self.path.effects.append((eff[0],) + tuple(bound.get(a) for a in eff[1:]))
            for target in c.modifies:
                self.havoc_path(target, Env(c.module, dict(bound)))
            result = NONE
            if c.returns and c.returns != "none":
                result = self.fresh_value(c.returns, f"{c.short}.ret")
            values["result"] = result
            for en_ in sorted(n for n in c.funcs if n == "ensures" or (n.startswith("ensures_") and not n.startswith("ensures_raise"))):
                post = self.truthy(self.eval_contract_fn(c, en_, values, old_heap, old_env))
                self.path.assume(post)
            if "names_result" in c.funcs:
                # definitional: a ghost function names what this (deterministic, read-only) call returns
                self.path.assume(self.truthy(self.eval_contract_fn(c, "names_result", values, old_heap, old_env)))
                self.path.dropped.add(f"definitional naming of the result of {c.target} by a ghost function (assumed at call sites)")
            return result
        # exceptional outcome
        for target in c.modifies_on_raise:
            self.havoc_path(target, Env(c.module, dict(bound)))
        exc = self.make_exception(c, en)
        values["exc"] = exc
        for er_ in sorted(n for n in c.funcs if n.startswith("ensures_raise")):
            post = self.truthy(self.eval_contract_fn(c, er_, values, old_heap, old_env))
            self.path.assume(post)
        if ("exc_" + en) in c.funcs:
            self.path.assume(self.truthy(self.eval_contract_fn(c, "exc_" + en, values, old_heap, old_env)))
        raise RaiseSignal(exc)

    def call_ordinal(self, caller, short):
        key = (caller, short)
        n = self.call_counts.get(key, 0)
        self.call_counts[key] = n + 1
        return n

    def make_exception(self, c, en: str) -> VRef:
        ci = self.registry.resolve_exception(self, c, en)
        if isinstance(ci, ClassInfo):
            obj = self.new_object(ci, symbolic=True)
            return obj
        return self.new_exception(ci, [])

    # ------------------------------------------------------------------ iteration
    def iter_seq(self, v: V) -> VList:
        d = self.deref(v)
        if isinstance(d, VOpt):
            if not self.spec_mode and self.path.branch(d.isnone):
                self.raise_builtin("TypeError")
            d = self.deref(d.val)
        if isinstance(d, VList):
            return d
        if isinstance(d, VTuple):
            return VList(items=d.items)
        if isinstance(d, VMap):
            return self.enum_map(d)[0]
        if isinstance(d, VSet):
            return self.enum_set(d)
        if isinstance(d, VConstDict):
            return VList(items=[VStr(z3.StringVal(k)) for k in d.items])
        if isinstance(v, VRef):
            cell = self.heap()[v.addr]
            if cell.native is not None and hasattr(cell.native, "iterate"):
                return cell.native.iterate(self, v)
        if isinstance(d, VOpaque):
            return self.registry.opaque_iter(self, d)
        if isinstance(d, VNone):
            if self.spec_mode:
                return VList(items=[])  # partial spec term under a (necessarily false) guard
            self.raise_builtin("TypeError")
        raise Unsupported(f"iteration over {d!r}")

    def enum_dom(self, key: V, dom):
        """Enumeration of a finite domain: (n, order: Int->K, pos: K->Int) with the
        bijection facts.  Memoised on the dom term."""
        mk = ("enum", strings._tid(dom))
        if mk in self.path.memo:
            return self.path.memo[mk]
        ks = key.leaves()[0].sort()
        n = self.path.const("enum_n", INT)
        order = self.path.const("enum_order", z3.ArraySort(INT, ks))
        pos = z3.Function(self.path.name("enum_pos"), ks, INT)
        j = z3.FreshConst(INT, "j")
        k = z3.FreshConst(ks, "k")
        A = self.path.assume
        A(n >= 0)
        A(z3.ForAll([j], z3.Implies(z3.And(0 <= j, j < n), z3.And(z3.Select(dom, z3.Select(order, j)), pos(z3.Select(order, j)) == j))))
        A(z3.ForAll([k], z3.Implies(z3.Select(dom, k), z3.And(0 <= pos(k), pos(k) < n, z3.Select(order, pos(k)) == k))))
        self.path.memo[mk] = (n, order, pos)
        return self.path.memo[mk]

    def enum_map(self, m: VMap):
        """-> (keys list, items list, pos)"""
        n, order, pos = self.enum_dom(m.key, m.dom)
        keys = VList(n, m.key.rebuild([order]))
        j = z3.FreshConst(INT, "j")
        vals_elem = m.val.rebuild([z3.Lambda([j], z3.Select(l, z3.Select(order, j))) for l in m.val.leaves()])
        items = VList(n, VTuple([m.key.rebuild([order]), vals_elem]))
        values = VList(n, vals_elem)
        return keys, items, values, pos

    def enum_set(self, s: VSet) -> VList:
        n, order, pos = self.enum_dom(s.key, s.dom)
        return VList(n, s.key.rebuild([order]))

    # ------------------------------------------------------------------ quantifiers
    def quantified_items(self, which, comp, env, g, items):
        terms = []
        for x in items:
            e2 = Env(env.module, dict(env.locals), env.closure, cls=env.cls)
            self.assign(g.target, x, e2)
            conds = [self.truthy(self.ev(c, e2)) for c in g.ifs]
            saved = self.spec_mode
            if not self.spec_mode:
                # code mode over a concrete list: evaluate eagerly but without forking
                self.spec_mode = True
            try:
                body = self.truthy(self.ev(comp.elt, e2))
            finally:
                self.spec_mode = saved
            if which == "all":
                terms.append(z3.Implies(z3.And(conds + [z3.BoolVal(True)]), body))
            else:
                terms.append(z3.And(conds + [body]))
        return VBool(z3.And(terms + [z3.BoolVal(True)]) if which == "all" else z3.Or(terms + [z3.BoolVal(False)]))

    def quantified(self, which, comp, env):
        """any(...)/all(...) over a generator expression."""
        if len(comp.generators) != 1:
            raise Unsupported("nested generators in any/all")
        g = comp.generators[0]
        src = self.ev(g.iter, env)
        if isinstance(src, vals.VBottom):
            return VBool(z3.FreshConst(BOOL, "bottom"))
        d = self.deref(src)
        if isinstance(d, VOpt) and self.spec_mode:
            # Optional sequence under a guard that excludes None (partial spec term)
            d = self.deref(d.val)
            src = d
        if isinstance(d, (VTuple,)) or (isinstance(d, VList) and d.items is not None):
            return self.quantified_items(which, comp, env, g, d.items)
        if False:
            items = d.items
            terms = []
            for x in items:
                e2 = Env(env.module, dict(env.locals), env.closure, cls=env.cls)
                self.assign(g.target, x, e2)
                conds = [self.truthy(self.ev(c, e2)) for c in g.ifs]
                saved = self.spec_mode
                if not self.spec_mode:
                    # code mode over a concrete list: evaluate eagerly but without forking
                    self.spec_mode = True
                try:
                    body = self.truthy(self.ev(comp.elt, e2))
                finally:
                    self.spec_mode = saved
                if which == "all":
                    terms.append(z3.Implies(z3.And(conds + [z3.BoolVal(True)]), body))
                else:
                    terms.append(z3.And(conds + [body]))
            return VBool(z3.And(terms + [z3.BoolVal(True)]) if which == "all" else z3.Or(terms + [z3.BoolVal(False)]))
        seq = self.iter_seq(src)
        if seq.items is not None:
            # a sequence of known shape reached through an Optional / a container cell: unroll it
            return self.quantified_items(which, comp, env, g, seq.items)
        j = z3.FreshConst(INT, "q")
        e2 = Env(env.module, dict(env.locals), env.closure, cls=env.cls)
        self.assign(g.target, seq.at(j), e2)
        saved = self.spec_mode
        self.spec_mode = True
        mark = len(self.path.assumptions)
        try:
            conds = [self.truthy(self.ev(c, e2)) for c in g.ifs]
            body = self.truthy(self.ev(comp.elt, e2))
        finally:
            self.spec_mode = saved
        facts = self.path.assumptions[mark:]
        del self.path.assumptions[mark:]
        if facts:
            self.path.assume(z3.ForAll([j], z3.And(facts)))
        rng = z3.And(0 <= j, j < seq.length())
        if which == "all":
            return VBool(z3.ForAll([j], z3.Implies(z3.And([rng] + conds), body)))
        return VBool(z3.Exists([j], z3.And([rng] + conds + [body])))

    def spec_quant(self, which, node, env):
        """forall("kind", lambda x: P) / exists(...)"""
        kinds = []
        for a in node.args[:-1]:
            kinds.append(ast.literal_eval(a))
        lam = node.args[-1]
        if not isinstance(lam, ast.Lambda):
            raise Unsupported("forall/exists need a lambda")
        names = [a.arg for a in lam.args.args]
        if len(kinds) == 1 and len(names) > 1:
            kinds = kinds * len(names)
        bound = []
        e2 = Env(env.module, dict(env.locals), env.closure)
        for nme, kd in zip(names, kinds):
            v = vals.fresh(kd, nme, namer=lambda n, s: z3.FreshConst(s, n))
            bound += v.leaves()
            e2.locals[nme] = v
        mark = len(self.path.assumptions)
        body = self.truthy(self.ev(lam.body, e2))
        # axiom instances created while evaluating the body mention the bound variables: they
        # are valid for every value, so they belong inside the quantifier
        facts = self.path.assumptions[mark:]
        del self.path.assumptions[mark:]
        if facts:
            # valid for every value of the bound variables: asserted as universally quantified
            # axioms (sound whether the quantified formula ends up assumed or to be proved)
            self.path.assume(z3.ForAll(bound, z3.And(facts)))
        if which == "forall":
            return VBool(z3.ForAll(bound, body))
        return VBool(z3.Exists(bound, body))

    # ------------------------------------------------------------------ comprehensions
    def ev_ListComp(self, node, env):
        return self.comprehension(node, env, "list")

    def ev_GeneratorExp(self, node, env):
        return self.comprehension(node, env, "list")

    def ev_SetComp(self, node, env):
        return self.comprehension(node, env, "set")

    def ev_DictComp(self, node, env):
        return self.comprehension(node, env, "dict")

    def comprehension(self, node, env, what):
        if len(node.generators) != 1:
            raise Unsupported("nested comprehension")
        g = node.generators[0]
        src = self.ev(g.iter, env)
        if isinstance(src, vals.VBottom):
            return vals.BOTTOM  # unknown sequence (e.g. a callee's effect trace): unknown result
        seq = self.iter_seq(src)
        if seq.items is not None:
            out = []
            for x in seq.items:
                e2 = Env(env.module, dict(env.locals), [env.locals] + env.closure, cls=env.cls)
                e2.locals = dict(env.locals)
                self.assign(g.target, x, e2)
                ok = True
                for c in g.ifs:
                    if not self.path.branch(self.truthy(self.ev(c, e2))):
                        ok = False
                        break
                if not ok:
                    continue
                if what == "dict":
                    out.append((self.ev(node.key, e2), self.ev(node.value, e2)))
                else:
                    out.append(self.ev(node.elt, e2))
            if what == "list":
                return self.new_container(VList(items=out))
            if what == "set":
                return self.builtins_set_from_items(out)
            if all(vals.concrete_str(k) is not None for k, _ in out if isinstance(k, VStr)) and all(isinstance(k, VStr) for k, _ in out):
                return self.new_container(VConstDict({vals.concrete_str(k): v for k, v in out}))
            raise Unsupported("dict comprehension with symbolic keys over a concrete list")
        # symbolic source
        j = z3.FreshConst(INT, "c")
        e2 = Env(env.module, dict(env.locals), env.closure, cls=env.cls)
        self.assign(g.target, seq.at(j), e2)
        saved = self.spec_mode
        self.spec_mode = True
        try:
            conds = [self.truthy(self.ev(c, e2)) for c in g.ifs]
            if what == "dict":
                kv, vv = self.ev(node.key, e2), self.ev(node.value, e2)
            else:
                ev_ = self.ev(node.elt, e2)
        finally:
            self.spec_mode = saved
        if what == "list" and not conds:
            elem = ev_.rebuild([z3.Lambda([j], l) for l in ev_.leaves()])
            out = VList(seq.n, elem)
            return out if self.spec_mode else self.new_container(out)
        if what == "dict" and not conds:
            return self.map_from_seq(seq, j, kv, vv)
        if what == "set" and not conds:
            ks = ev_.leaves()[0].sort()
            k = z3.FreshConst(ks, "k")
            dom = self.path.const("setc", z3.ArraySort(ks, BOOL))
            rng = z3.And(0 <= j, j < seq.n)
            self.path.assume(z3.ForAll([j], z3.Implies(rng, z3.Select(dom, ev_.leaves()[0]))))
            pos = z3.Function(self.path.name("setc_pos"), ks, INT)
            kt = z3.substitute(ev_.leaves()[0], (j, pos(k)))
            self.path.assume(z3.ForAll([k], z3.Implies(z3.Select(dom, k), z3.And(0 <= pos(k), pos(k) < seq.n, kt == k))))
            return self.new_container(VSet(vals.dummy_like(ev_), dom))
        raise Unsupported("filtered comprehension over a symbolic sequence")

    def map_from_seq(self, seq, j, kv: V, vv: V):
        """{k(j): v(j) for j in range(n)}: last occurrence wins."""
        ks = kv.leaves()[0].sort()
        tmpl = VMap(vals.dummy_like(kv), None, None)
        dom = self.path.const("dc_dom", z3.ArraySort(ks, BOOL))
        val = vals.lift(vals.dummy_like(vv), ks)
        val = val.rebuild([self.path.const("dc_val", l.sort()) for l in val.leaves()])
        m = VMap(vals.dummy_like(kv), dom, val)
        pos = z3.Function(self.path.name("dc_pos"), ks, INT)
        k = z3.FreshConst(ks, "k")
        rng = z3.And(0 <= j, j < seq.n)
        kt = kv.leaves()[0]
        A = self.path.assume
        A(z3.ForAll([j], z3.Implies(rng, z3.And(z3.Select(dom, kt), pos(kt) >= j))))
        ktp = z3.substitute(kt, (j, pos(k)))
        vvp = vv.rebuild([z3.substitute(l, (j, pos(k))) for l in vv.leaves()])
        A(z3.ForAll([k], z3.Implies(z3.Select(dom, k), z3.And(0 <= pos(k), pos(k) < seq.n, ktp == k, vals.eq(vals.sel(val, k), vvp)))))
        return self.new_container(m)
