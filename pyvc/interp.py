"""The symbolic executor: one Interp per path."""

from __future__ import annotations

import z3

from .values import *  # noqa: F401,F403
from .values import VStr, VRef, VTuple, VList, VNone, NONE, Unsupported
from .callables import *  # noqa: F401,F403
from .core import Path
from .ip_expr import ExprMixin, Env
from .ip_stmt import StmtMixin
from .ip_call import CallMixin, Frame
from .ip_builtins import BuiltinsMixin


class Interp(ExprMixin, StmtMixin, CallMixin, BuiltinsMixin):
    def __init__(self, repo, registry, path: Path):
        self.repo = repo
        self.registry = registry
        self.path = path
        self.frames: list[Frame] = []
        self.spec_mode = False
        self.spec_frame = None
        self.heap_override = None
        self.cur_line = 0
        self.current_exc = []
        self.symbolic_objs = set()
        self.untyped_empty = set()
        self.local_cells = set()
        self.inlined = set()
        self.called = set()
        self.call_counts = {}

    def builtin(self, name):
        if name == "__name__":
            return VStr(z3.StringVal("module"))
        return BuiltinsMixin.builtin(self, name)
