"""pyvc: verification-condition generator over the real xandikos source."""
