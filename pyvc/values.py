"""Symbolic values for pyvc.

Every Python value the symbolic executor manipulates is a `V`.  Scalars carry a
z3 term; composite data is "structure of arrays": a container of tuples is a
tuple of arrays, so no SMT datatypes or sequence sorts are needed (only Int,
Bool, String, uninterpreted sorts and arrays of those).

Leaves protocol: every *data* value can list its z3 leaf terms and be rebuilt
from a list of replacement leaves.  That gives generic `lift` (make every leaf an
array over an index sort), `sel`, `sto`, `ite`, `eq` and `fresh` for free.
"""

from __future__ import annotations

import itertools
import z3

STR = z3.StringSort()
INT = z3.IntSort()
BOOL = z3.BoolSort()

_sorts: dict[str, z3.SortRef] = {}


def usort(name: str) -> z3.SortRef:
    if name not in _sorts:
        _sorts[name] = z3.DeclareSort(name)
    return _sorts[name]


class Unsupported(Exception):
    """A construct outside the accepted subset was reached."""


class V:
    """Base class of symbolic values."""

    kind = "?"

    def leaves(self):
        raise Unsupported(f"value {self!r} has no SMT representation")

    def rebuild(self, leaves):
        raise Unsupported(f"value {self!r} has no SMT representation")

    def __repr__(self):
        return f"<{type(self).__name__}>"


class VBottom(V):
    """Result of an ill-typed specification term (e.g. an attribute of None).  It only arises
    under a guard that is false on that path; every predicate over it is an unconstrained
    Boolean, so nothing can be *proved* from it."""

    kind = "bottom"

    def leaves(self):
        return []

    def rebuild(self, leaves):
        return self

    def __repr__(self):
        return "Bottom"


BOTTOM = VBottom()


class VNone(V):
    kind = "none"

    def leaves(self):
        return []

    def rebuild(self, leaves):
        return NONE

    def __repr__(self):
        return "None"


NONE = VNone()


class VBool(V):
    kind = "bool"

    def __init__(self, t):
        if isinstance(t, bool):
            t = z3.BoolVal(t)
        self.t = t

    def leaves(self):
        return [self.t]

    def rebuild(self, leaves):
        return VBool(leaves[0])

    def __repr__(self):
        return f"Bool({self.t})"


class VInt(V):
    kind = "int"

    def __init__(self, t):
        if isinstance(t, int):
            t = z3.IntVal(t)
        self.t = t

    def leaves(self):
        return [self.t]

    def rebuild(self, leaves):
        return VInt(leaves[0])

    def __repr__(self):
        return f"Int({self.t})"


class VStr(V):
    """str (b=False) or bytes (b=True); both are SMT strings."""

    def __init__(self, t, b=False):
        if isinstance(t, str):
            t = z3.StringVal(t)
        elif isinstance(t, bytes):
            t = z3.StringVal(t.decode("latin-1"))
            b = True
        self.t = t
        self.b = b

    @property
    def kind(self):
        return "bytes" if self.b else "str"

    def leaves(self):
        return [self.t]

    def rebuild(self, leaves):
        return VStr(leaves[0], self.b)

    def __repr__(self):
        return f"{'Bytes' if self.b else 'Str'}({self.t})"


class VOptKey(VStr):
    """Key *template* of a set / dict whose keys are Optional[str]: such a key is stored as one
    string - "N" for None, "S" + s for the string s (an injective encoding; see coerce).  Only a
    template: key terms themselves are plain encoded strings, and enumerating such a container's
    keys is not supported (rebuild refuses)."""

    def __init__(self):
        VStr.__init__(self, z3.StringVal(""), False)

    @property
    def kind(self):
        return "opt[str]"

    def rebuild(self, leaves):
        raise Unsupported("enumerating the keys of a container with Optional keys")

    @staticmethod
    def encode(v):
        if isinstance(v, VNone):
            return VStr(z3.StringVal("N"))
        if isinstance(v, VOpt) and isinstance(v.val, VStr) and not v.val.b:
            return VStr(z3.If(v.isnone if not isinstance(v.isnone, bool) else z3.BoolVal(v.isnone),
                              z3.StringVal("N"), z3.Concat(z3.StringVal("S"), v.val.t)))
        if isinstance(v, VStr) and not v.b:
            return VStr(z3.Concat(z3.StringVal("S"), v.t))
        raise Unsupported(f"cannot use {v!r} as an Optional[str] key")


class VOpaque(V):
    """Element of an uninterpreted sort (an abstract library / interface object)."""

    def __init__(self, t, cls: str):
        self.t = t
        self.cls = cls

    @property
    def kind(self):
        return "opaque:" + self.cls

    def leaves(self):
        return [self.t]

    def rebuild(self, leaves):
        return VOpaque(leaves[0], self.cls)

    def __repr__(self):
        return f"Opaque[{self.cls}]({self.t})"


class VOpt(V):
    """Optional[T] as a pair (isnone, val).  `val` is meaningless when isnone."""

    def __init__(self, isnone, val: V):
        if isinstance(isnone, bool):
            isnone = z3.BoolVal(isnone)
        assert not isinstance(val, (VOpt, VNone)), val
        self.isnone = isnone
        self.val = val

    @property
    def kind(self):
        return f"opt[{self.val.kind}]"

    def leaves(self):
        return [self.isnone] + self.val.leaves()

    def rebuild(self, leaves):
        return VOpt(leaves[0], self.val.rebuild(leaves[1:]))

    def __repr__(self):
        return f"Opt({self.isnone}, {self.val!r})"


class VTuple(V):
    def __init__(self, items, names=None):
        self.items = list(items)
        self.names = names  # field names of a namedtuple

    @property
    def kind(self):
        return "tuple[" + ",".join(i.kind for i in self.items) + "]"

    def leaves(self):
        return [l for i in self.items for l in i.leaves()]

    def rebuild(self, leaves):
        out = []
        p = 0
        for i in self.items:
            n = len(i.leaves())
            out.append(i.rebuild(leaves[p : p + n]))
            p += n
        return VTuple(out, self.names)

    def __repr__(self):
        return "Tuple(" + ", ".join(map(repr, self.items)) + ")"


UNION_NAMES = ("__union__",)


class VMap(V):
    """Finite map value: dom : K -> Bool and a lifted value template.

    `key` is a template scalar value (VStr/VInt/VOpaque) fixing the key sort;
    `val` is a value whose leaves are arrays K -> leaf sort.
    `uid` identifies the enumeration order functions (see interp.enum_map).
    """

    def __init__(self, key: V, dom, val: V):
        self.key = key
        self.dom = dom
        self.val = val

    @property
    def kind(self):
        return f"dict[{self.key.kind},{unlift_kind(self.val)}]"

    def ksort(self):
        return self.key.leaves()[0].sort()

    def leaves(self):
        return [self.dom] + self.val.leaves()

    def rebuild(self, leaves):
        return VMap(self.key, leaves[0], self.val.rebuild(leaves[1:]))

    def has(self, k: V):
        return z3.Select(self.dom, key_term(self, k))

    def get(self, k: V) -> V:
        return sel(self.val, key_term(self, k))

    def put(self, k: V, v: V) -> "VMap":
        kt = key_term(self, k)
        return VMap(self.key, z3.Store(self.dom, kt, z3.BoolVal(True)), sto(self.val, kt, v))

    def remove(self, k: V) -> "VMap":
        kt = key_term(self, k)
        return VMap(self.key, z3.Store(self.dom, kt, z3.BoolVal(False)), self.val)

    def __repr__(self):
        return f"Map[{self.kind}]"


class VSet(V):
    def __init__(self, key: V, dom):
        self.key = key
        self.dom = dom

    @property
    def kind(self):
        return f"set[{self.key.kind}]"

    def leaves(self):
        return [self.dom]

    def rebuild(self, leaves):
        return VSet(self.key, leaves[0])

    def has(self, k):
        return z3.Select(self.dom, key_term(self, k))

    def __repr__(self):
        return f"Set[{self.kind}]"


class VList(V):
    """Sequence value: length n and a lifted element template over Int.

    `items` is a Python list when the list is fully concrete in *shape*
    (literal lists, tuples of objects): then n/elem are None.
    """

    def __init__(self, n=None, elem: V | None = None, items=None):
        self.n = n
        self.elem = elem
        self.items = items

    @property
    def kind(self):
        if self.items is not None:
            return "list[*]"
        return f"list[{unlift_kind(self.elem)}]"

    def length(self):
        if self.items is not None:
            return z3.IntVal(len(self.items))
        return self.n

    def at(self, i) -> V:
        if self.items is not None:
            i = z3.simplify(i) if not isinstance(i, int) else z3.IntVal(i)
            if z3.is_int_value(i):
                return self.items[i.as_long()]
            raise Unsupported("symbolic index into a concrete-shaped list")
        return sel(self.elem, i)

    def leaves(self):
        if self.items is not None:
            return [l for i in self.items for l in i.leaves()]
        return [self.n] + self.elem.leaves()

    def rebuild(self, leaves):
        if self.items is not None:
            out = []
            p = 0
            for i in self.items:
                n = len(i.leaves())
                out.append(i.rebuild(leaves[p : p + n]))
                p += n
            return VList(items=out)
        return VList(leaves[0], self.elem.rebuild(leaves[1:]))

    def __repr__(self):
        if self.items is not None:
            return "List(" + ", ".join(map(repr, self.items)) + ")"
        return f"List[{self.kind}](n={self.n})"


class VStruct(V):
    """An object of a repository class held *by value* (all fields data).  Used when objects
    are stored in symbolic sequences / yielded: aliasing and later mutation are not modelled
    (the resources concerned are immutable after construction)."""

    def __init__(self, cls, fields):
        self.cls = cls
        self.fields = dict(fields)

    @property
    def kind(self):
        return "struct:" + self.cls.qualname

    def leaves(self):
        return [l for k in self.fields for l in self.fields[k].leaves()]

    def rebuild(self, leaves):
        out = {}
        p = 0
        for k, v in self.fields.items():
            n = len(v.leaves())
            out[k] = v.rebuild(leaves[p : p + n])
            p += n
        return VStruct(self.cls, out)

    def __repr__(self):
        return f"Struct[{self.cls.name}]({', '.join(self.fields)})"


STRUCT_RESOLVER = None  # set by the registry: qualname -> (ClassInfo, {field: kind})


class VRef(V):
    """Reference to a heap cell holding an object or a mutable container."""

    def __init__(self, addr: int, cls=None):
        self.addr = addr
        self.cls = cls  # ClassInfo for objects, None for container cells

    @property
    def kind(self):
        return "ref"

    def leaves(self):
        raise Unsupported("references cannot be stored in symbolic containers")

    def __repr__(self):
        cn = getattr(self.cls, "name", self.cls)
        return f"Ref({self.addr}{':' + str(cn) if self.cls else ''})"


# ----------------------------------------------------------------------------
# generic structure-of-arrays operations


def lift(template: V, isort) -> V:
    """A value like `template` whose every leaf l : T becomes a *fresh* array isort -> T."""
    return template.rebuild(
        [z3.FreshConst(z3.ArraySort(isort, l.sort()), "arr") for l in template.leaves()]
    )


def lift_const(template: V, isort) -> V:
    """Constant array version (every index maps to `template`)."""
    return template.rebuild([z3.K(isort, l) for l in template.leaves()])


def sel(lifted: V, idx) -> V:
    return lifted.rebuild([z3.Select(l, idx) for l in lifted.leaves()])


def sto(lifted: V, idx, v: V) -> V:
    v = coerce(v, sel(lifted, idx))
    return lifted.rebuild(
        [z3.Store(a, idx, x) for a, x in zip(lifted.leaves(), v.leaves())]
    )


def unlift_kind(lifted: V) -> str:
    return lifted.kind


def key_term(m, k: V):
    k = coerce(k, m.key)
    return k.leaves()[0]


def dummy_like(v: V) -> V:
    """An arbitrary but fixed value shaped like v (used under isnone)."""
    out = []
    for l in v.leaves():
        s = l.sort()
        if s == INT:
            out.append(z3.IntVal(0))
        elif s == BOOL:
            out.append(z3.BoolVal(False))
        elif s == STR:
            out.append(z3.StringVal(""))
        else:
            out.append(z3.Const(f"dummy!{s}", s))  # one fixed element per sort
    return v.rebuild(out)


def canonical(v: V) -> V:
    """Optional values compare equal when both are None whatever their payload: functions over
    them (ghosts) must not see the payload of a None."""
    if isinstance(v, VOpt):
        inner = canonical(v.val)
        d = dummy_like(inner)
        return VOpt(v.isnone, inner.rebuild([z3.If(v.isnone, dl, il) for dl, il in zip(d.leaves(), inner.leaves())]))
    if isinstance(v, VTuple):
        return VTuple([canonical(x) for x in v.items], getattr(v, "names", None))
    return v


def coerce(v: V, like: V) -> V:
    """Bring v to the leaf shape of `like` (None/T -> Optional[T], etc.)."""
    if isinstance(v, VBottom):
        return dummy_like(like) if not isinstance(like, VBottom) else v
    if isinstance(like, VOptKey):
        return VOptKey.encode(v)
    if isinstance(like, VOpt):
        if isinstance(v, VNone):
            return VOpt(True, dummy_like(like.val))
        if isinstance(v, VOpt):
            return VOpt(v.isnone, coerce(v.val, like.val))
        return VOpt(False, coerce(v, like.val))
    if isinstance(like, VTuple) and like.names == UNION_NAMES:
        # union[struct:A|struct:B]: (tag, an A, a B) - the object's class selects the tag, the other slots are dummies
        if isinstance(v, VTuple) and v.names == UNION_NAMES:
            return VTuple([coerce(a, b) for a, b in zip(v.items, like.items)], UNION_NAMES)
        if isinstance(v, VStruct):
            for i, alt in enumerate(like.items[1:]):
                if alt.cls.qualname == v.cls.qualname:
                    return VTuple([VInt(z3.IntVal(i))] + [coerce(v, a) if j == i else dummy_like(a)
                                                          for j, a in enumerate(like.items[1:])], UNION_NAMES)
        raise Unsupported(f"cannot coerce {v!r} to {like.kind}")
    if isinstance(like, VTuple):
        if isinstance(v, VList) and v.items is not None:
            v = VTuple(v.items)
        if not isinstance(v, VTuple) or len(v.items) != len(like.items):
            raise Unsupported(f"cannot coerce {v!r} to {like.kind}")
        return VTuple([coerce(a, b) for a, b in zip(v.items, like.items)])
    if isinstance(like, VStr):
        if isinstance(v, VStr):
            return v
    if isinstance(like, VInt):
        if isinstance(v, VInt):
            return v
        if isinstance(v, VBool):
            return VInt(z3.If(v.t, 1, 0))
    if isinstance(like, VBool) and isinstance(v, VBool):
        return v
    if isinstance(like, VOpaque) and isinstance(v, VOpaque) and v.t.sort() == like.t.sort():
        return v
    if isinstance(like, VMap) and isinstance(v, VMap):
        return v
    if isinstance(like, VSet) and isinstance(v, VSet):
        return v
    if isinstance(like, VList) and isinstance(v, VList):
        if like.items is None and v.items is not None:
            return symbolic_list(v, like)
        return v
    if isinstance(like, VNone) and isinstance(v, VNone):
        return v
    if isinstance(like, VStruct) and isinstance(v, VStruct) and v.cls.qualname == like.cls.qualname:
        return VStruct(like.cls, {k: coerce(v.fields[k], like.fields[k]) for k in like.fields})
    raise Unsupported(f"cannot coerce {v!r} to shape {like.kind}")


def symbolic_list(v: VList, like: VList) -> VList:
    elem = lift_const(dummy_like(sel(like.elem, z3.IntVal(0))), INT)
    for i, it in enumerate(v.items):
        elem = sto(elem, z3.IntVal(i), it)
    return VList(z3.IntVal(len(v.items)), elem)


def ite(c, a: V, b: V) -> V:
    if z3.is_true(c):
        return a
    if z3.is_false(c):
        return b
    # unify shapes
    if isinstance(a, VNone) and isinstance(b, VNone):
        return NONE
    if isinstance(a, VNone) or isinstance(a, VOpt) or isinstance(b, VNone) or isinstance(b, VOpt):
        base = a if not isinstance(a, VNone) else b
        if isinstance(base, VNone):
            return NONE
        like = base if isinstance(base, VOpt) else VOpt(False, base)
        a, b = coerce(a, like), coerce(b, like)
    else:
        b = coerce(b, a)
    return a.rebuild([z3.If(c, x, y) for x, y in zip(a.leaves(), b.leaves())])


def same_shape(a: V, b: V) -> bool:
    try:
        la, lb = a.leaves(), b.leaves()
    except Unsupported:
        return False
    return len(la) == len(lb) and all(x.sort() == y.sort() for x, y in zip(la, lb))


def eq(a: V, b: V):
    """Python `==` on data values as a z3 Bool."""
    if isinstance(a, VBottom) or isinstance(b, VBottom):
        return z3.FreshConst(BOOL, "bottom")
    if isinstance(a, VRef) or isinstance(b, VRef):
        if isinstance(a, VRef) and isinstance(b, VRef):
            return z3.BoolVal(a.addr == b.addr)
        return z3.BoolVal(False)
    if isinstance(a, VNone) and isinstance(b, VNone):
        return z3.BoolVal(True)
    if isinstance(a, VNone):
        a, b = b, a
    if isinstance(b, VNone):
        if isinstance(a, VOpt):
            return a.isnone
        return z3.BoolVal(False)
    if isinstance(a, VOpt) or isinstance(b, VOpt):
        if not isinstance(a, VOpt):
            a = VOpt(False, a)
        if not isinstance(b, VOpt):
            b = VOpt(False, b)
        return z3.Or(
            z3.And(a.isnone, b.isnone),
            z3.And(z3.Not(a.isnone), z3.Not(b.isnone), eq(a.val, b.val)),
        )
    if isinstance(a, VStr) and isinstance(b, VStr):
        if a.b != b.b:
            return z3.BoolVal(False)
        return a.t == b.t
    if isinstance(a, (VInt, VBool)) and isinstance(b, (VInt, VBool)):
        if isinstance(a, VBool) and isinstance(b, VBool):
            return a.t == b.t
        return coerce(a, VInt(0)).t == coerce(b, VInt(0)).t
    if isinstance(a, VOpaque) and isinstance(b, VOpaque):
        if a.t.sort() != b.t.sort():
            return z3.BoolVal(False)
        return a.t == b.t
    if isinstance(a, VList) and a.items is not None:
        a = VTuple(a.items)
    if isinstance(b, VList) and b.items is not None:
        b = VTuple(b.items)
    if isinstance(a, VTuple) and isinstance(b, VTuple):
        if len(a.items) != len(b.items):
            return z3.BoolVal(False)
        return z3.And([eq(x, y) for x, y in zip(a.items, b.items)] + [z3.BoolVal(True)])
    if isinstance(a, VStruct) and isinstance(b, VStruct):
        if a.cls.qualname != b.cls.qualname:
            return z3.BoolVal(False)
        return z3.And([eq(a.fields[k], b.fields[k]) for k in a.fields] + [z3.BoolVal(True)])
    if isinstance(a, VMap) and isinstance(b, VMap):
        if a.ksort() != b.ksort():
            return z3.BoolVal(False)
        k = z3.FreshConst(a.ksort(), "k")
        return z3.And(
            a.dom == b.dom,
            z3.ForAll([k], z3.Implies(z3.Select(a.dom, k), eq(sel(a.val, k), sel(b.val, k)))),
        )
    if isinstance(a, VSet) and isinstance(b, VSet):
        return a.dom == b.dom
    if isinstance(a, VList) and isinstance(b, VList):
        i = z3.FreshConst(INT, "i")
        return z3.And(
            a.n == b.n,
            z3.ForAll(
                [i], z3.Implies(z3.And(0 <= i, i < a.n), eq(sel(a.elem, i), sel(b.elem, i)))
            ),
        )
    # values of different Python types are unequal
    return z3.BoolVal(False)


# ----------------------------------------------------------------------------
# kinds: a small type language for fresh symbolic values

_fresh_counter = itertools.count()


def _split_top(s: str):
    parts, depth, cur = [], 0, ""
    for ch in s:
        if ch == "[":
            depth += 1
        elif ch == "]":
            depth -= 1
        if ch == "," and depth == 0:
            parts.append(cur.strip())
            cur = ""
        else:
            cur += ch
    if cur.strip():
        parts.append(cur.strip())
    return parts


def fresh(kind: str, name: str, namer=None) -> V:
    """A fresh symbolic *data* value of the given kind.

    Container kinds return values (not heap refs); the interpreter wraps them.
    """
    mk = namer or (lambda n, s: z3.Const(f"{n}", s))
    kind = kind.strip()
    if kind == "int":
        return VInt(mk(name, INT))
    if kind == "bool":
        return VBool(mk(name, BOOL))
    if kind == "str":
        return VStr(mk(name, STR), False)
    if kind == "bytes":
        return VStr(mk(name, STR), True)
    if kind == "none":
        return NONE
    if kind.startswith("opaque:"):
        cls = kind[len("opaque:") :]
        return VOpaque(mk(name, usort(cls)), cls)
    if kind.startswith("union[") and kind.endswith("]"):
        # one of several struct kinds, stored as (tag, one slot per alternative)
        alts = [a.strip() for a in kind[6:-1].split("|")]
        return VTuple([VInt(mk(name + ".tag", INT))] + [fresh(a, f"{name}.alt{i}", namer) for i, a in enumerate(alts)], UNION_NAMES)
    if kind.startswith("struct:"):
        ci, fkinds = STRUCT_RESOLVER(kind[7:])
        return VStruct(ci, {f: fresh(k, f"{name}.{f}", namer) for f, k in fkinds.items()})
    if kind.startswith("opt[") and kind.endswith("]"):
        inner = fresh(kind[4:-1], name + ".v", namer)
        return VOpt(mk(name + ".none", BOOL), inner)
    if kind.startswith("tuple[") and kind.endswith("]"):
        parts = _split_top(kind[6:-1])
        return VTuple([fresh(p, f"{name}.{i}", namer) for i, p in enumerate(parts)])
    if kind.startswith("dict[") and kind.endswith("]"):
        k, v = _split_top(kind[5:-1])
        key = VOptKey() if k.strip() == "opt[str]" else fresh(k, name + ".key", namer)
        if isinstance(key, VOpt):
            raise Unsupported(f"optional keys other than opt[str] are not supported: {kind}")
        ks = key.leaves()[0].sort()
        valt = fresh(v, name + ".val", namer)
        val = valt.rebuild(
            [mk(f"{name}.val{i}", z3.ArraySort(ks, l.sort())) for i, l in enumerate(valt.leaves())]
        )
        return VMap(key, mk(name + ".dom", z3.ArraySort(ks, BOOL)), val)
    if kind.startswith("set[") and kind.endswith("]"):
        if kind[4:-1].strip() == "opt[str]":
            return VSet(VOptKey(), mk(name + ".dom", z3.ArraySort(STR, BOOL)))
        key = fresh(kind[4:-1], name + ".key", namer)
        if isinstance(key, VOpt):
            raise Unsupported(f"optional keys other than opt[str] are not supported: {kind}")
        ks = key.leaves()[0].sort()
        return VSet(key, mk(name + ".dom", z3.ArraySort(ks, BOOL)))
    if kind.startswith("list[") and kind.endswith("]"):
        et = fresh(kind[5:-1], name + ".el", namer)
        elem = et.rebuild(
            [mk(f"{name}.el{i}", z3.ArraySort(INT, l.sort())) for i, l in enumerate(et.leaves())]
        )
        return VList(mk(name + ".len", INT), elem)
    raise Unsupported(f"unknown kind {kind!r}")


def fresh_like(v: V, name: str) -> V:
    return v.rebuild([z3.FreshConst(l.sort(), name) for l in v.leaves()])


def wellformed(v: V):
    """Constraints every value of this shape satisfies (list lengths >= 0)."""
    out = []
    if isinstance(v, VStruct):
        for f in v.fields.values():
            out += wellformed(f)
        return out
    if isinstance(v, VList) and v.items is None:
        out.append(v.n >= 0)
    elif isinstance(v, VTuple):
        for i in v.items:
            out += wellformed(i)
    elif isinstance(v, VOpt):
        out += wellformed(v.val)
    return out


def is_concrete_bool(t):
    t = z3.simplify(t)
    if z3.is_true(t):
        return True
    if z3.is_false(t):
        return False
    return None


def concrete_str(v: V):
    if isinstance(v, VStr):
        t = z3.simplify(v.t)
        if z3.is_string_value(t):
            return t.as_string()
    return None


def concrete_int(v: V):
    if isinstance(v, VInt):
        t = z3.simplify(v.t)
        if z3.is_int_value(t):
            return t.as_long()
    return None
