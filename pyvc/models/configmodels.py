"""ASSUMED models of configparser.ConfigParser and of dulwich's git config / description.

ConfigParser: options are a map 'SECTION/option' -> raw string.  With the default
BasicInterpolation, `set` rejects values with a bad '%' syntax (ValueError) and `get`
returns interp(raw) where interp is the identity only on values without '%'.  With
interpolation=None both are raw.  write()/read() round trip is assumed to be the identity
on the map - which the libraries guarantee only for values WITHOUT a line feed and without
outer white space (bounded conformance: bounded/conf_models.py and replay/config_explore.py;
values with a line feed are a recorded known finding of C15).  Section fall-back to DEFAULT is
not modelled (the code reads DEFAULT and [calendar] with distinct option names)."""

from __future__ import annotations

import z3

from ..values import (
    V, VNone, NONE, VBool, VInt, VStr, VOpt, VTuple, VList, VMap, VSet, VRef, VOpaque, Unsupported, STR, BOOL,
)
from .. import values as vals
from ..callables import VNative, VExtClass, VBound
from ..strings import uf
from .dulwichmodels import Model, new, F, REPO, raise_ext

S = z3.StringVal
INTERP = uf("configparser.interpolate", STR, STR)
INTERP_OK = uf("configparser.valid_interpolation_syntax", STR, BOOL)


def _key(section, option):
    cs, co = vals.concrete_str(section), vals.concrete_str(option)
    if cs is None or co is None:
        raise Unsupported("configparser access with symbolic section / option name")
    return VStr(S(cs + "/" + co.lower()))


class ConfigParserModel(Model):
    cls_name = "configparser.ConfigParser"

    def getattr(self, it, ref, name):
        if name == "add_section":
            def add_section(it_, self_ref, a, k):
                f = it_.path.heap[self_ref.addr].fields
                sec = vals.concrete_str(a[0])
                secs = f["sections"]
                if it_.path.branch(secs.has(VStr(S(sec)))):
                    raise_ext(it_, "configparser.DuplicateSectionError")
                f["sections"] = VSet(secs.key, z3.Store(secs.dom, S(sec), z3.BoolVal(True)))
                return NONE
            return self.method(ref, add_section, name)
        if name in ("read_string", "read_file", "read"):
            def rd(it_, self_ref, a, k):
                # what parsing yields is a function of the text (cfg_parse); round trip with
                # write() is ASSUMED
                src = a[0]
                cell = it_.path.heap[self_ref.addr]
                if isinstance(src, VStr):
                    cell.fields["data"] = parsed_config(src.t)
                else:
                    cell.fields["data"] = vals.fresh("dict[str,str]", it_.path.name("cfg.read"))
                return NONE
            return self.method(ref, rd, name)
        if name == "write":
            def wr(it_, self_ref, a, k):
                # serialising: the text written is some text whose parse is exactly this parser's
                # options (configparser write/read round trip: ASSUMED, bounded conformance; it is
                # false for values with a line feed - the recorded C15 finding)
                it_.path.effects.append(("ConfigWrite",))
                tgt = a[0] if a else None
                if isinstance(tgt, VRef) and it_.heap()[tgt.addr].native is STRINGIO:
                    f = F(it_, self_ref)
                    r = it_.path.const("configparser.rendered", STR)
                    pc = parsed_config(r)
                    it_.path.assume(pc.dom == f["data"].dom)
                    it_.path.assume(pc.val.t == f["data"].val.t)
                    it_.path.dropped.add("configparser write / read_string round trip (assumed: parsing what was written gives the same options)")
                    cell = it_.path.heap[tgt.addr]
                    cell.fields["data"] = VStr(z3.Concat(cell.fields["data"].t, r))
                return NONE
            return self.method(ref, wr, name)
        raise Unsupported(f"ConfigParser.{name}")

    def getitem(self, it, ref, idx):
        sec = vals.concrete_str(idx)
        if sec is None:
            raise Unsupported("ConfigParser[section] with symbolic section")
        if sec != "DEFAULT":
            f = F(it, ref)
            if not it.spec_mode and not it.path.branch(f["sections"].has(VStr(S(sec)))):
                it.raise_builtin("KeyError")
        return new(it, SECTION, {"cp": ref, "section": VStr(S(sec))})

    def frame_eq(self, it, old, cur):
        out = []
        for k, ov in old.fields.items():
            cv = cur.fields.get(k)
            if cv is ov:
                continue
            out.append((f"configparser.{k}", vals.eq(ov, cv)))
        return out


class SectionProxyModel(Model):
    cls_name = "configparser.SectionProxy"

    def _cp(self, it, ref):
        f = F(it, ref)
        return f["cp"], f["section"]

    def getitem(self, it, ref, idx):
        cp, sec = self._cp(it, ref)
        cf = F(it, cp)
        k = _key(sec, idx)
        if not it.spec_mode and not it.path.branch(cf["data"].has(k)):
            it.raise_builtin("KeyError")
        raw = cf["data"].get(k)
        interp = cf["interp"].t
        r = z3.If(interp, INTERP(raw.t), raw.t)
        key = ("interp", raw.t.get_id())
        it.path.assume(z3.Implies(z3.Not(z3.Contains(raw.t, S("%"))), INTERP(raw.t) == raw.t))
        return VStr(r)

    def setitem(self, it, ref, idx, v):
        cp, sec = self._cp(it, ref)
        cell = it.path.heap[cp.addr]
        k = _key(sec, idx)
        if isinstance(v, VOpt):
            if it.path.branch(v.isnone):
                it.raise_builtin("TypeError")
            v = v.val
        if not isinstance(v, VStr):
            it.raise_builtin("TypeError")
        it.path.assume(z3.Implies(z3.Not(z3.Contains(v.t, S("%"))), INTERP_OK(v.t)))
        if it.path.branch(z3.And(cell.fields["interp"].t, z3.Not(INTERP_OK(v.t)))):
            it.raise_builtin("ValueError")
        cell.fields["data"] = cell.fields["data"].put(k, v)

    def delitem(self, it, ref, idx):
        cp, sec = self._cp(it, ref)
        cell = it.path.heap[cp.addr]
        k = _key(sec, idx)
        if not it.path.branch(cell.fields["data"].has(k)):
            it.raise_builtin("KeyError")
        cell.fields["data"] = cell.fields["data"].remove(k)

    def contains(self, it, ref, item):
        cp, sec = self._cp(it, ref)
        return F(it, cp)["data"].has(_key(sec, item))


def parsed_config(text_t):
    dom = z3.Function("cfg_parse.dom", STR, z3.ArraySort(STR, BOOL))(text_t)
    val = z3.Function("cfg_parse.val", STR, z3.ArraySort(STR, STR))(text_t)
    return VMap(VStr(S("")), dom, VStr(val))


CP = ConfigParserModel()
SECTION = SectionProxyModel()


def fresh_cp(it, name, interp=None):
    data = vals.fresh("dict[str,str]", it.path.name(name + ".data"))
    secs = vals.fresh("set[str]", it.path.name(name + ".sections"))
    flag = VBool(it.path.const(name + ".interpolation", BOOL)) if interp is None else VBool(interp)
    return new(it, CP, {"data": data, "sections": secs, "interp": flag})


def cp_construct(it, a, k):
    interp = True
    if "interpolation" in k:
        interp = not isinstance(k["interpolation"], VNone)
    ks = STR
    data = VMap(VStr(S("")), z3.K(ks, z3.BoolVal(False)), VStr(z3.K(ks, S(""))))
    secs = VSet(VStr(S("")), z3.K(ks, z3.BoolVal(False)))
    return new(it, CP, {"data": data, "sections": secs, "interp": VBool(interp)})


# ---------------------------------------------------------------------------- git config
class GitConfigModel(Model):
    """dulwich ConfigFile read from / written back to the repository (a private copy)."""

    cls_name = "dulwich.config.ConfigFile"

    def getattr(self, it, ref, name):
        if name == "get":
            def get(it_, self_ref, a, k):
                f = F(it_, self_ref)
                key = _gkey(a[0], a[1])
                if not it_.spec_mode and not it_.path.branch(f["data"].has(key)):
                    it_.raise_builtin("KeyError")
                return f["data"].get(key)
            return self.method(ref, get, name)
        if name == "set":
            def set_(it_, self_ref, a, k):
                cell = it_.path.heap[self_ref.addr]
                cell.fields["data"] = cell.fields["data"].put(_gkey(a[0], a[1]), a[2])
                if _gkey(a[0], a[1]).t.as_string().startswith("xandikos/"):
                    cell.fields["has_xandikos"] = VBool(True)   # set() creates the section
                return NONE
            return self.method(ref, set_, name)
        if name == "has_section":
            def has_section(it_, self_ref, a, k):
                return VBool(F(it_, self_ref)["has_xandikos"].t)
            return self.method(ref, has_section, name)
        if name == "write_to_file":
            def write_to_file(it_, self_ref, a, k):
                # serialising: the bytes written are some text whose parse is exactly this
                # configuration (dulwich write/read round trip: ASSUMED, bounded conformance)
                tgt = a[0]
                if not (isinstance(tgt, VRef) and it_.heap()[tgt.addr].native is BYTESIO):
                    raise Unsupported("ConfigFile.write_to_file to something other than an in-memory buffer")
                f = F(it_, self_ref)
                r = it_.path.const("gitconfig.rendered", STR)
                it_.path.assume(GCP_DOM(r) == f["data"].dom)
                it_.path.assume(GCP_VAL(r) == f["data"].val.t)
                it_.path.assume(GCP_HAS(r) == f["has_xandikos"].t)
                it_.path.dropped.add("dulwich ConfigFile write_to_file / from_file round trip (assumed: parsing what was written gives the same options)")
                cell = it_.path.heap[tgt.addr]
                cell.fields["data"] = VStr(z3.Concat(cell.fields["data"].t, r), True)
                return NONE
            return self.method(ref, write_to_file, name)
        raise Unsupported(f"ConfigFile.{name}")


GCP_DOM = z3.Function("gitconfig_parse.dom", STR, z3.ArraySort(STR, BOOL))
GCP_VAL = z3.Function("gitconfig_parse.val", STR, z3.ArraySort(STR, STR))
GCP_HAS = z3.Function("gitconfig_parse.has_xandikos", STR, BOOL)


def parsed_gitconfig(text_t, like):
    """The options a repository's config file with these bytes holds."""
    return VMap(like.key, GCP_DOM(text_t), VStr(GCP_VAL(text_t), True)), VBool(GCP_HAS(text_t))


class BytesIOModel(Model):
    cls_name = "io.BytesIO"

    def getattr(self, it, ref, name):
        if name == "write":
            def write(it_, self_ref, a, k):
                cell = it_.path.heap[self_ref.addr]
                cell.fields["data"] = VStr(z3.Concat(cell.fields["data"].t, a[0].t), True)
                return VInt(z3.Length(a[0].t))
            return self.method(ref, write, name)
        if name == "getvalue":
            return self.method(ref, lambda it_, r, a, k: F(it_, r)["data"], name)
        raise Unsupported(f"BytesIO.{name}")


BYTESIO = BytesIOModel()


class StringIOModel(Model):
    cls_name = "io.StringIO"

    def getattr(self, it, ref, name):
        if name == "write":
            def write(it_, self_ref, a, k):
                cell = it_.path.heap[self_ref.addr]
                cell.fields["data"] = VStr(z3.Concat(cell.fields["data"].t, a[0].t))
                return VInt(z3.Length(a[0].t))
            return self.method(ref, write, name)
        if name == "getvalue":
            return self.method(ref, lambda it_, r, a, k: F(it_, r)["data"], name)
        raise Unsupported(f"StringIO.{name}")


STRINGIO = StringIOModel()


def stringio_new(it, a, k):
    if a or k:
        raise Unsupported("StringIO with initial contents")
    return new(it, STRINGIO, {"data": VStr(S(""))})


def bytesio_new(it, a, k):
    if a or k:
        raise Unsupported("BytesIO with initial contents")
    return new(it, BYTESIO, {"data": VStr(S(""), True)})


def _gkey(section, option):
    def c(v):
        if isinstance(v, VTuple):
            v = v.items[0]
        s = vals.concrete_str(v)
        if s is None:
            raise Unsupported("git config access with symbolic section / option")
        return s
    return VStr(S(c(section) + "/" + c(option)), True)


GITCONFIG = GitConfigModel()


def install(reg):
    E = reg.externals
    E["configparser.ConfigParser"] = VNative(cp_construct, "configparser.ConfigParser")
    E["io.BytesIO"] = VNative(bytesio_new, "io.BytesIO")
    E["io.StringIO"] = VNative(stringio_new, "io.StringIO")
    E["configparser.DuplicateSectionError"] = VExtClass("configparser.DuplicateSectionError")

    class CPFactory:
        @staticmethod
        def fresh(it, name):
            return fresh_cp(it, name)

    reg.model_classes["configparser.ConfigParser"] = CPFactory

    class GCFactory:
        @staticmethod
        def fresh(it, name):
            return new(it, GITCONFIG, {"data": vals.fresh("dict[bytes,bytes]", it.path.name(name + ".data")),
                                        "has_xandikos": VBool(it.path.const(name + ".has_xandikos", BOOL))})

    reg.model_classes["dulwich.config.ConfigFile"] = GCFactory
    SN = reg.spec_natives
    SN["cp_raw"] = lambda it, a, k: (lambda f: vals.ite(f["data"].has(_key(a[1], a[2])), f["data"].get(_key(a[1], a[2])), NONE))(F(it, a[0]))
    SN["cp_data"] = lambda it, a, k: F(it, a[0])["data"]
    SN["cp_key"] = lambda it, a, k: _key(a[0], a[1])
    SN["cfg_parse"] = lambda it, a, k: parsed_config(a[0].t)
    SN["empty"] = lambda it, a, k: it.empty_of_kind(vals.concrete_str(a[0]))
    SN["cp_interpolating"] = lambda it, a, k: F(it, a[0])["interp"]
