"""logging, functools, collections, itertools, uuid, errno, stat: assumed models."""

from __future__ import annotations

import z3

from . import *  # noqa: F401,F403
from . import _noop, native
from ..values import NONE, VInt, VStr, VList, VTuple, Unsupported, STR, INT
from .. import values as vals_mod
from ..callables import VNative, VPartial, VExtClass, VModule
from ..core import Cell
from ..values import VRef


class LoggerModel:
    """logging.Logger: every method is a no-op (arguments are not inspected)."""

    def getattr(self, it, ref, name):
        n = VNative(_noop, "logger." + name)
        n.accepts_none = True
        return n

    def isinstance(self, it, ref, cls):
        return False


def install(reg):
    E = reg.externals
    for fn in ("debug", "info", "warning", "error", "exception", "critical", "log"):
        E[f"logging.{fn}"] = VNative(_noop, f"logging.{fn}")
        E[f"logging.{fn}"].accepts_none = True   # arguments are only formatted into the message

    def get_logger(it, a, k):
        return VRef(it.path.alloc(Cell(cls="logging.Logger", native=LoggerModel())), "logging.Logger")

    E["logging.getLogger"] = VNative(get_logger, "logging.getLogger")
    for lvl, n in (("DEBUG", 10), ("INFO", 20), ("WARNING", 30), ("ERROR", 40)):
        E[f"logging.{lvl}"] = VInt(n)

    def partial(it, a, k):
        return VPartial(a[0], list(a[1:]), dict(k))

    E["functools.partial"] = VNative(partial, "functools.partial")

    def deque(it, a, k):
        if a:
            seq = it.iter_seq(a[0])
            if seq.items is not None:
                return it.new_container(VList(items=list(seq.items)))
            return it.new_container(VList(seq.n, seq.elem))
        return it.new_container(VList(items=[]))

    E["collections.deque"] = VNative(deque, "collections.deque")

    def chain(it, a, k):
        seqs = [it.iter_seq(x) for x in a]
        if all(s.items is not None for s in seqs):
            return VList(items=[x for s in seqs for x in s.items])
        out = seqs[0]
        for s in seqs[1:]:
            like = out if out.items is None else s
            from .. import values as vals

            out = it.list_concat(vals.coerce(out, like), vals.coerce(s, like))
        return out

    E["itertools.chain"] = VNative(chain, "itertools.chain")

    def uuid4(it, a, k):
        # a fresh identifier: an arbitrary string (collision freedom is not assumed here)
        it.path.dropped.add("uuid.uuid4(): an arbitrary string, the same one the ghost uuid4_str() names (one call per operation)")
        return VStr(z3.Const("uuid4_str/r", STR))

    E["uuid.uuid4"] = VNative(uuid4, "uuid.uuid4")

    # re: a compiled pattern is its source text; whether it matches a string is an uninterpreted
    # predicate of (pattern, mode, string) - nothing about the regular language is assumed; match
    # objects are only tested for truth
    RE_MATCHES = z3.Function("re.matches", STR, STR, STR, z3.BoolSort())

    class PatternModel:
        def getattr(self, it, ref, name):
            if name in ("match", "search", "fullmatch"):
                def m(it_, a, k):
                    pat = it_.heap()[a[0].addr].fields["pattern"]
                    s_ = a[1]
                    if not isinstance(s_, VStr):
                        raise Unsupported("re match on a non-string")
                    from ..values import VOpt, VOpaque, usort
                    hit = RE_MATCHES(pat.t, z3.StringVal(name), s_.t)
                    return VOpt(z3.Not(hit), VOpaque(it_.path.const("re.Match", usort("Match")), "Match"))
                from ..callables import VBound
                return VBound(ref, VNative(m, "Pattern." + name))
            raise Unsupported(f"re.Pattern.{name}")

        def isinstance(self, it, ref, cls):
            return False

    PATTERN = PatternModel()

    def re_compile(it, a, k):
        if len(a) != 1 or k or not isinstance(a[0], VStr):
            raise Unsupported("re.compile with flags / non-string pattern")
        return VRef(it.path.alloc(Cell(cls="re.Pattern", fields={"pattern": a[0]}, native=PATTERN)), "re.Pattern")

    E["re.compile"] = VNative(re_compile, "re.compile")
    def timedelta(it, a, k):
        days = a[0] if a else k.get("days", VInt(0))
        return VInt(days.t * 86400)

    E["datetime.timedelta"] = VNative(timedelta, "datetime.timedelta")
    from ..values import VOpaque, usort
    E["datetime.timezone.utc"] = lambda it: VOpaque(z3.Const("timezone.utc", usort("TZ")), "TZ")
    class CIMultiDictModel:
        """multidict.CIMultiDict built from a concrete list of (name, value) pairs: lookups are
        case-insensitive and '-' / '_' are different characters (ASSUMED, conformance-checked)."""

        def getattr(self, it, ref, name):
            if name == "get":
                def get(it_, a, k):
                    self_ref = a[0]
                    key = vals_mod.concrete_str(a[1])
                    default = a[2] if len(a) > 2 else NONE
                    if key is None:
                        raise Unsupported("CIMultiDict.get with symbolic key")
                    for kk, vv in it_.heap()[self_ref.addr].fields["pairs"]:
                        if kk.lower() == key.lower():
                            return vv
                    return default
                from ..callables import VBound
                return VBound(ref, VNative(get, "CIMultiDict.get"))
            raise Unsupported(f"CIMultiDict.{name}")

        def isinstance(self, it, ref, cls):
            return False

    CIM = CIMultiDictModel()

    def cimultidict(it, a, k):
        seq = it.iter_seq(a[0]) if a else VList(items=[])
        if seq.items is None:
            raise Unsupported("CIMultiDict from a symbolic list")
        pairs = []
        for pr in seq.items:
            kk, vv = it.unpack(pr, 2)
            ck = vals_mod.concrete_str(kk)
            if ck is None:
                raise Unsupported("CIMultiDict with symbolic header name")
            pairs.append((ck, vv))
        return VRef(it.path.alloc(Cell(cls="multidict.CIMultiDict", fields={"pairs": pairs}, native=CIM)), "multidict.CIMultiDict")

    E["multidict.CIMultiDict"] = VNative(cimultidict, "CIMultiDict")

    def request_uri(it, a, k):
        return VStr(it.path.const("request_uri", STR))

    E["wsgiref.util.request_uri"] = VNative(request_uri, "request_uri")

    def cal_from_ical(it, a, k):
        """icalendar.Calendar.from_ical(bytes): ValueError unless it parses (ghost ical_parses);
        the component tree is ghost ical_parsed(bytes).  ASSUMED."""
        data = a[0]
        parses = it.registry.spec_natives["ical_parses"](it, [data], {})
        if not it.path.branch(parses.t):
            it.raise_builtin("ValueError")
        return it.registry.spec_natives["ical_parsed"](it, [data], {})

    def vobject_readone(it, a, k):
        text = a[0]
        parses = it.registry.spec_natives["vobj_parses"](it, [text], {})
        if not it.path.branch(parses.t):
            from ..core import RaiseSignal

            raise RaiseSignal(it.new_exception("vobject.base.ParseError", []))
        return it.registry.spec_natives["vobj_parsed"](it, [text], {})

    E["vobject.readOne"] = VNative(vobject_readone, "vobject.readOne")
    E["vobject.base"] = VModule("vobject.base")
    reg.ext_bases["vobject.base.ParseError"] = ["Exception"]
    E["icalendar.cal.Calendar.from_ical"] = VNative(cal_from_ical, "Calendar.from_ical")

    def to_thread(it, a, k):
        # asyncio.to_thread(f, *args, **kw): runs f in a worker thread and awaits the result;
        # sequentially that is f(*args, **kw) (interleavings are C05's subject)
        return it.call(a[0], list(a[1:]), k)

    E["asyncio.to_thread"] = VNative(to_thread, "asyncio.to_thread")
    reg.const_overrides["xandikos.web.to_thread"] = lambda it: VNative(to_thread, "to_thread")
    from ..callables import VConstDict

    def propstatus(it, a, k):
        names = ["statuscode", "responsedescription", "prop"]
        items = list(a) + [k[n] for n in names[len(a):]]
        return VTuple(items, names)

    reg.const_overrides["xandikos.webdav.PropStatus"] = lambda it: VNative(propstatus, "PropStatus")

    # translation table of the ASCII case map: only ever passed to str.translate (modelled as UF)
    reg.const_overrides["xandikos.collation._ASCII_CASEMAP"] = lambda it: it.new_container(VConstDict({}))
    E["errno.ENOSPC"] = VInt(28)
    E["stat.S_IFREG"] = VInt(0o100000)
    E["os.environ"] = lambda it: it.fresh_value("dict[str,str]", "os.environ")
    E["os.sep"] = VStr("/")
    E["posixpath.sep"] = VStr("/")
    reg.ext_bases.update(
        {
            "FileNotFoundError": ["OSError"],
            "IsADirectoryError": ["OSError"],
            "FileExistsError": ["OSError"],
            "dulwich.file.FileLocked": ["Exception"],
            "dulwich.repo.NotGitRepository": ["Exception"],
            "dulwich.errors.NotGitRepository": ["Exception"],
            "configparser.DuplicateSectionError": ["configparser.Error"],
            "configparser.Error": ["Exception"],
            "xml.etree.ElementTree.ParseError": ["SyntaxError"],
        }
    )
