"""ASSUMED model of the POSIX file system calls the stores use.

A directory is identified by the *term* of its path string; its content is a map
name -> bytes.  A path built as os.path.join(dir, name) remembers (dir, name), so
open()/unlink()/replace() on it act on entry `name` of directory `dir`.
Assumptions: no symlinks, member names contain no '/', os.replace is atomic,
open(..., 'wb') truncates then writes (non-atomically: effect WriteFile(atomic=False))."""

from __future__ import annotations

import z3

from ..values import (
    V, VNone, NONE, VBool, VInt, VStr, VOpt, VTuple, VList, VMap, VSet, VRef, VOpaque,
    Unsupported, STR, INT, BOOL,
)
from .. import values as vals
from ..callables import VNative, VExtClass, VBound
from ..core import Cell, RaiseSignal
from ..strings import uf, _tid
from .dulwichmodels import Model, new, F, joined, raise_ext

S = z3.StringVal
ARR_B = z3.ArraySort(STR, BOOL)
ARR_S = z3.ArraySort(STR, STR)


def fs_cell(it):
    """The single file-system cell of this path (created before the entry snapshot)."""
    addr = it.path.memo.get("fs_addr")
    if addr is None:
        addr = it.path.alloc(Cell(cls="posix.FS", fields={}, native=FS))
        it.path.memo["fs_addr"] = addr
    return addr


def dir_state(it, dir_t):
    """(dom, data, isdir) arrays/terms of directory `dir_t` in the *current view* heap."""
    addr = fs_cell(it)
    key = f"dir:{dir_t.sexpr()}"
    cell = it.heap()[addr] if addr in it.heap() else it.path.heap[addr]
    if key + ".dom" not in cell.fields:
        dom = it.path.const("fs.dom", ARR_B)
        data = it.path.const("fs.data", ARR_S)
        sub = it.path.const("fs.subdirs", ARR_B)
        for h in [it.path.heap] + [fr.entry_heap for fr in it.frames if fr.entry_heap is not None] + (
                [it.heap_override] if it.heap_override is not None else []):
            if addr not in h:
                h[addr] = Cell(cls="posix.FS", fields={}, native=FS)
            h[addr].fields.setdefault(key + ".dom", dom)
            h[addr].fields.setdefault(key + ".data", data)
            h[addr].fields.setdefault(key + ".sub", sub)
        # a name is a file or a sub-directory, not both
        k = z3.FreshConst(STR, "k")
        it.path.assume(z3.ForAll([k], z3.Not(z3.And(z3.Select(dom, k), z3.Select(sub, k)))))
        it.path.memo.setdefault("fs_dirs", {})[key] = dir_t
    return key


def get(it, key, what):
    addr = fs_cell(it)
    return it.heap()[addr].fields[f"{key}.{what}"]


def put(it, key, what, val):
    if it.heap_override is not None:
        raise Unsupported("file-system mutation inside old()")
    it.path.heap[fs_cell(it)].fields[f"{key}.{what}"] = val


class FSModel(Model):
    cls_name = "posix.FS"

    def frame_eq(self, it, old, cur):
        out = []
        for k, ov in old.fields.items():
            cv = cur.fields.get(k)
            if cv is not ov:
                out.append((f"fs.{k}", ov == cv))
        return out


FS = FSModel()


def split_path(it, p: V):
    """(dir_term, name_term) of a path value built with os.path.join(dir, name)."""
    parts = getattr(p, "parts", None)
    if parts is None:
        raise Unsupported("file operation on a path that was not built as os.path.join(dir, name)")
    return parts[0].t, parts[1].t


class FileModel(Model):
    cls_name = "io.FileIO"

    def getattr(self, it, ref, name):
        f = F(it, ref)
        if name in ("write", "writelines"):
            def write(it_, self_ref, a, k):
                ff = it_.path.heap[self_ref.addr].fields
                data = a[0]
                if name == "writelines" or not isinstance(data, VStr):
                    data = joined(it_, data)
                ff["buf"] = VStr(z3.Concat(ff["buf"].t, data.t) if vals.concrete_str(ff["buf"]) != "" else data.t, ff["binary"])
                key, nm = ff["key"], ff["name"]
                put(it_, key, "data", z3.Store(get(it_, key, "data"), nm, ff["buf"].t))
                return NONE
            return self.method(ref, write, name)
        if name == "read":
            def read(it_, self_ref, a, k):
                ff = F(it_, self_ref)
                return VStr(z3.Select(get(it_, ff["key"], "data"), ff["name"]), ff["binary"])
            return self.method(ref, read, name)
        if name == "__enter__":
            return self.method(ref, lambda it_, r, a, k: r, name)
        if name == "__exit__":
            return self.method(ref, lambda it_, r, a, k: VBool(False), name)
        if name == "close":
            return self.method(ref, lambda it_, r, a, k: NONE, name)
        raise Unsupported(f"file.{name}")

    def iterate(self, it, ref):
        # `for chunk in f`: one chunk holding the whole content (chunking is not observable
        # through md5.update / b"".join)
        ff = F(it, ref)
        return VList(items=[VStr(z3.Select(get(it, ff["key"], "data"), ff["name"]), ff["binary"])])


FILE = FileModel()


def bi_open(it, a, k):
    p = a[0]
    mode = vals.concrete_str(a[1]) if len(a) > 1 else "r"
    if mode is None:
        raise Unsupported("open() with symbolic mode")
    if mode not in ("r", "rb", "rt", "w", "wb", "wt", "a", "ab", "x", "xb", "r+", "rb+", "r+b", "w+", "wb+", "w+b"):
        raise Unsupported(f"open() mode {mode!r} is not a mode the model knows (Python raises ValueError for invalid modes)")
    it.path.effects.append(("Fs", p))
    d, nm = split_path(it, p)
    key = dir_state(it, d)
    dom, sub = get(it, key, "dom"), get(it, key, "sub")
    binary = "b" in mode
    if "r" in mode:
        k_ = it.path.choose(3, [z3.Select(dom, nm), z3.Select(sub, nm), z3.And(z3.Not(z3.Select(dom, nm)), z3.Not(z3.Select(sub, nm)))])
        if k_ == 1:
            it.raise_builtin("IsADirectoryError")
        if k_ == 2:
            it.raise_builtin("FileNotFoundError")
        return new(it, FILE, {"key": key, "name": nm, "binary": binary, "buf": VStr(S(""), binary)})
    if "w" in mode:
        if it.path.branch(z3.Select(sub, nm)):
            it.raise_builtin("IsADirectoryError")
        # ENOSPC and other OSErrors are outside the fault-free quantifier of the properties
        put(it, key, "dom", z3.Store(dom, nm, z3.BoolVal(True)))
        put(it, key, "data", z3.Store(get(it, key, "data"), nm, S("")))
        it.path.effects.append(("WriteFile", VStr(nm), False))
        return new(it, FILE, {"key": key, "name": nm, "binary": binary, "buf": VStr(S(""), binary)})
    raise Unsupported(f"open mode {mode!r}")


def os_unlink(it, a, k):
    d, nm = split_path(it, a[0])
    key = dir_state(it, d)
    dom, sub = get(it, key, "dom"), get(it, key, "sub")
    k_ = it.path.choose(3, [z3.Select(dom, nm), z3.Select(sub, nm), z3.And(z3.Not(z3.Select(dom, nm)), z3.Not(z3.Select(sub, nm)))])
    if k_ == 1:
        it.raise_builtin("IsADirectoryError")
    if k_ == 2:
        it.raise_builtin("FileNotFoundError")
    put(it, key, "dom", z3.Store(dom, nm, z3.BoolVal(False)))
    it.path.effects.append(("Unlink", VStr(nm)))
    return NONE


def os_replace(it, a, k):
    d1, n1 = split_path(it, a[0])
    d2, n2 = split_path(it, a[1])
    k1, k2 = dir_state(it, d1), dir_state(it, d2)
    if k1 != k2:
        raise Unsupported("os.replace across directories")
    dom, data = get(it, k1, "dom"), get(it, k1, "data")
    if not it.path.branch(z3.Select(dom, n1)):
        it.raise_builtin("FileNotFoundError")
    content = z3.Select(data, n1)
    dom2 = z3.Store(z3.Store(dom, n1, z3.BoolVal(False)), n2, z3.BoolVal(True))
    put(it, k1, "dom", dom2)
    put(it, k1, "data", z3.Store(data, n2, content))
    it.path.effects.append(("Replace", VStr(n1), VStr(n2)))
    return NONE


def os_lstat(it, a, k):
    return VOpaque(it.path.const("stat", vals.usort("StatResult")), "StatResult")


def os_listdir(it, a, k):
    p = a[0]
    it.path.effects.append(("Fs", p))
    key = dir_state(it, p.t)
    dom, sub = get(it, key, "dom"), get(it, key, "sub")
    kk = z3.FreshConst(STR, "k")
    both = z3.Lambda([kk], z3.Or(z3.Select(dom, kk), z3.Select(sub, kk)))
    both_c = it.path.const("listdir.dom", ARR_B)
    it.path.assume(both_c == both)
    n, order, pos = it.enum_dom(VStr(S("")), both_c)
    lst = VList(n, VStr(order))
    lst.from_dir = key
    return lst


def os_isdir(it, a, k):
    p = a[0]
    it.path.effects.append(("Fs", p))
    parts = getattr(p, "parts", None)
    if parts is None:
        return VBool(uf("fs.isdir", STR, BOOL)(p.t))
    key = dir_state(it, parts[0].t)
    return VBool(z3.Select(get(it, key, "sub"), parts[1].t))


def os_exists(it, a, k):
    p = a[0]
    it.path.effects.append(("Fs", p))
    parts = getattr(p, "parts", None)
    if parts is None:
        return VBool(uf("fs.exists", STR, BOOL)(p.t))
    key = dir_state(it, parts[0].t)
    return VBool(z3.Or(z3.Select(get(it, key, "sub"), parts[1].t), z3.Select(get(it, key, "dom"), parts[1].t)))


def os_makedirs(it, a, k):
    p = a[0]
    it.path.effects.append(("Mkdir", p))
    parts = getattr(p, "parts", None)
    if parts is not None:
        key = dir_state(it, parts[0].t)
        sub, dom = get(it, key, "sub"), get(it, key, "dom")
        if it.path.branch(z3.Or(z3.Select(sub, parts[1].t), z3.Select(dom, parts[1].t))):
            it.raise_builtin("FileExistsError")
        put(it, key, "sub", z3.Store(sub, parts[1].t, z3.BoolVal(True)))
    return NONE


def shutil_rmtree(it, a, k):
    p = a[0]
    parts = getattr(p, "parts", None)
    it.path.effects.append(("Rmtree", p))
    if parts is not None:
        key = dir_state(it, parts[0].t)
        sub = get(it, key, "sub")
        if not it.path.branch(z3.Select(sub, parts[1].t)):
            it.raise_builtin("FileNotFoundError")
        put(it, key, "sub", z3.Store(sub, parts[1].t, z3.BoolVal(False)))
    return NONE


def install(reg):
    E = reg.externals
    E["shutil.rmtree"] = VNative(shutil_rmtree, "shutil.rmtree")
    reg.externals["builtins.open"] = VNative(bi_open, "open")
    E["os.unlink"] = VNative(os_unlink, "os.unlink")
    E["os.replace"] = VNative(os_replace, "os.replace")
    E["os.lstat"] = VNative(os_lstat, "os.lstat")
    E["os.listdir"] = VNative(os_listdir, "os.listdir")
    E["os.path.isdir"] = VNative(os_isdir, "os.path.isdir")
    E["os.path.exists"] = VNative(os_exists, "os.path.exists")
    E["os.path.lexists"] = VNative(os_exists, "os.path.lexists")
    E["os.makedirs"] = VNative(os_makedirs, "os.makedirs")
    E["os.mkdir"] = VNative(os_makedirs, "os.mkdir")
    reg.opaques.setdefault("StatResult", type("O", (), {"name": "StatResult", "attrs": {}, "bases": [], "truthy": "true", "iter": None, "isa": [], "as_int": None, "nonneg": False})())

    def fs_has(it, a, k):
        key = dir_state(it, a[0].t)
        return VBool(z3.Select(get(it, key, "dom"), a[1].t))

    def fs_data(it, a, k):
        key = dir_state(it, a[0].t)
        return VStr(z3.Select(get(it, key, "data"), a[1].t), True)

    def fs_files(it, a, k):
        key = dir_state(it, a[0].t)
        return VMap(VStr(S("")), get(it, key, "dom"), VStr(get(it, key, "data"), True))

    def fs_subdirs(it, a, k):
        key = dir_state(it, a[0].t)
        return VSet(VStr(S("")), get(it, key, "sub"))

    def fs_isdir(it, a, k):
        """is os.path.join(root, relpath.lstrip('/')) a directory (same term the code builds)"""
        from ..strings import strip_model

        root, rel = a[0], a[1]
        stripped = strip_model(it, rel, VStr(S("/")), left=True, right=False)
        key = dir_state(it, root.t)
        return VBool(z3.Select(get(it, key, "sub"), stripped.t))

    reg.spec_natives["fs_isdir"] = fs_isdir
    install_md5(reg)
    reg.spec_natives.update(fs_has=fs_has, fs_data=fs_data, fs_files=fs_files, fs_subdirs=fs_subdirs)


# ---------------------------------------------------------------------------- hashlib.md5
MD5 = uf("MD5", STR, STR)
MD5_INV = uf("MD5.inv", STR, STR)


def md5_of(it, data_t):
    r = MD5(data_t)
    key = ("md5", _tid(data_t))
    if key not in it.path.memo:
        it.path.memo[key] = True
        it.path.assume(MD5_INV(r) == data_t)  # collision freedom (ASSUMED, as for git hashes)
    return r


class Md5Model(Model):
    cls_name = "hashlib.md5"

    def getattr(self, it, ref, name):
        if name == "update":
            def update(it_, self_ref, a, k):
                f = it_.path.heap[self_ref.addr].fields
                cur = f["state"]
                f["state"] = VStr(a[0].t if vals.concrete_str(cur) == "" else z3.Concat(cur.t, a[0].t), True)
                return NONE
            return self.method(ref, update, name)
        if name == "hexdigest":
            return self.method(ref, lambda it_, r, a, k: VStr(md5_of(it_, F(it_, r)["state"].t)), name)
        raise Unsupported(f"md5.{name}")


MD5M = Md5Model()


def install_md5(reg):
    reg.externals["hashlib.md5"] = VNative(lambda it, a, k: new(it, MD5M, {"state": VStr(S(""), True)}), "hashlib.md5")
    reg.spec_natives["md5_hex"] = lambda it, a, k: VStr(md5_of(it, a[0].t))

    def vdir_view(it, a, k):
        """ghost_M of a VdirStore: the *.ics / *.vcf files of its directory (not *.tmp, not the
        metadata file), each with the md5 of its bytes."""
        store = a[0]
        p = it.getattr(store, "path")
        key = dir_state(it, p.t)
        dom, data = get(it, key, "dom"), get(it, key, "data")
        n = z3.FreshConst(STR, "n")
        vdom = z3.Lambda([n], z3.And(z3.Select(dom, n),
                                     z3.Or(z3.SuffixOf(S(".ics"), n), z3.SuffixOf(S(".vcf"), n)),
                                     z3.Not(z3.SuffixOf(S(".tmp"), n)), n != S(".xandikos")))
        vval = z3.Lambda([n], MD5(z3.Select(data, n)))
        return VMap(VStr(S("")), vdom, VStr(vval))

    reg.spec_natives["vdir_view"] = vdir_view
