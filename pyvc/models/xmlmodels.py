"""xml.etree.ElementTree (ASSUMED): elements *built* by the code are small mutable
records (tag, text, attrib, children).  Elements *received* (request bodies) are the
opaque class `Element` declared in contracts/assumed/xml_ifaces.py."""
import z3

from ..values import (
    V, VNone, NONE, VBool, VInt, VStr, VOpt, VTuple, VList, VRef, VOpaque, Unsupported, STR,
)
from ..callables import VNative, VExtClass, VModule
from .dulwichmodels import Model, new, F


class ElementModel(Model):
    cls_name = "xml.etree.ElementTree.Element"

    def getattr(self, it, ref, name):
        f = F(it, ref)
        if name in ("tag", "text", "tail"):
            return f.get(name, NONE)
        if name == "append":
            def append(it_, self_ref, a, k):
                ff = it_.path.heap[self_ref.addr].fields
                ff["children"] = VList(items=ff["children"].items + [a[0]])
                return NONE
            return self.method(ref, append, name)
        if name == "set":
            def set_(it_, self_ref, a, k):
                return NONE
            return self.method(ref, set_, name)
        if name == "get":
            def get(it_, self_ref, a, k):
                return a[1] if len(a) > 1 else NONE
            return self.method(ref, get, name)
        raise Unsupported(f"Element.{name}")

    def setattr(self, it, ref, name, v):
        if name in ("text", "tail", "tag"):
            it.path.heap[ref.addr].fields[name] = v
            return
        raise Unsupported(f"Element.{name} = ...")

    def iterate(self, it, ref):
        return F(it, ref)["children"]

    def truthy(self, it, ref):
        return z3.BoolVal(len(F(it, ref)["children"].items) > 0)

    def getitem(self, it, ref, idx):
        return it.subscript(F(it, ref)["children"], idx)


ELEMENT = ElementModel()


def element(it, a, k):
    return new(it, ELEMENT, {"tag": a[0], "text": NONE, "children": VList(items=[])})


def subelement(it, a, k):
    e = new(it, ELEMENT, {"tag": a[1], "text": NONE, "children": VList(items=[])})
    parent = a[0]
    if isinstance(parent, VRef) and it.heap()[parent.addr].native is ELEMENT:
        ff = it.path.heap[parent.addr].fields
        ff["children"] = VList(items=ff["children"].items + [e])
    return e


def install(reg):
    E = reg.externals

    class ElementFactory:
        @staticmethod
        def fresh(it, name):
            return new(it, ELEMENT, {"tag": VStr(it.path.const(name + ".tag", STR)),
                                     "text": VOpt(it.path.const(name + ".text.none", z3.BoolSort()), VStr(it.path.const(name + ".text", STR))),
                                     "children": VList(items=[])})

    reg.model_classes["xml.Element"] = ElementFactory
    E["xml.etree.ElementTree"] = VModule("xml.etree.ElementTree")
    E["xml.etree.ElementTree.Element"] = VNative(element, "ET.Element")
    E["xml.etree.ElementTree.SubElement"] = VNative(subelement, "ET.SubElement")
    E["xml.etree.ElementTree.ParseError"] = VExtClass("xml.etree.ElementTree.ParseError")
