"""mimetypes.MimeTypes as configured by xandikos.store (ASSUMED):
guess_type(name) = 'text/calendar' for *.ics, 'text/vcard' for *.vcf, else some
type or None given by an uninterpreted function of the name."""
import z3

from ..values import VStr, VOpt, VTuple, NONE, STR, BOOL, VRef, Unsupported
from ..core import Cell
from ..callables import VNative
from ..strings import uf

S = z3.StringVal


class MimeTypesModel:
    def getattr(self, it, ref, name):
        if name == "guess_type":
            def guess_type(it_, a, k):
                n = a[0]
                isn = uf("mime.none", STR, BOOL)(n.t)
                val = uf("mime.type", STR, STR)(n.t)
                A = it_.path.assume
                A(z3.Implies(z3.SuffixOf(S(".ics"), n.t), z3.And(z3.Not(isn), val == S("text/calendar"))))
                A(z3.Implies(z3.SuffixOf(S(".vcf"), n.t), z3.And(z3.Not(isn), val == S("text/vcard"))))
                it_.path.obs_log.append(("guess_type", [n], VOpt(isn, VStr(val))))
                return VTuple([VOpt(isn, VStr(val)), NONE])
            return VNative(guess_type, "MimeTypes.guess_type")
        if name == "guess_extension":
            def guess_extension(it_, a, k):
                ct = a[0]
                if isinstance(ct, VOpt):
                    ct = ct.val
                isn = uf("mime.ext.none", STR, BOOL)(ct.t)
                val = uf("mime.ext", STR, STR)(ct.t)
                return VOpt(isn, VStr(val))
            return VNative(guess_extension, "MimeTypes.guess_extension")
        if name == "add_type":
            return VNative(lambda it_, a, k: NONE, "MimeTypes.add_type")
        raise Unsupported(f"MimeTypes.{name}")

    def isinstance(self, it, ref, cls):
        return False


def install(reg):
    def mk(it):
        return VRef(it.path.alloc(Cell(cls="mimetypes.MimeTypes", native=MimeTypesModel())), "mimetypes.MimeTypes")

    reg.const_overrides["xandikos.store.MIMETYPES"] = mk

    def guessed_ext(it, a, k):
        ct = a[0].val if isinstance(a[0], VOpt) else a[0]
        return VOpt(uf("mime.ext.none", STR, BOOL)(ct.t), VStr(uf("mime.ext", STR, STR)(ct.t)))

    def mime_of(it, a, k):
        n = a[0]
        return VOpt(uf("mime.none", STR, BOOL)(n.t), VStr(uf("mime.type", STR, STR)(n.t)))

    reg.spec_natives["guessed_ext"] = guessed_ext
    reg.spec_natives["mime_of"] = mime_of
