"""posixpath / os.path / urllib.parse: assumed contracts (ASSUMED, conformance-checked
boundedly by /verif/bounded/conf_paths.py against the installed CPython)."""

from __future__ import annotations

import z3

from ..values import NONE, VBool, VInt, VStr, VTuple, VList, VOpt, VNone, Unsupported, STR, INT, BOOL
from .. import values as vals
from ..callables import VNative
from ..strings import uf, _memo, _tid, strip_model

S = z3.StringVal


def has_dotdot_seg(t):
    return z3.Or(t == S(".."), z3.PrefixOf(S("../"), t), z3.SuffixOf(S("/.."), t), z3.Contains(t, S("/../")))


def has_dot_seg(t):
    return z3.Or(t == S("."), z3.PrefixOf(S("./"), t), z3.SuffixOf(S("/."), t), z3.Contains(t, S("/./")))


def is_normal_abs(t):
    """Absolute path that normpath leaves unchanged."""
    return z3.And(
        z3.PrefixOf(S("/"), t),
        z3.Not(z3.Contains(t, S("//"))),
        z3.Not(has_dotdot_seg(t)),
        z3.Not(has_dot_seg(t)),
        z3.Or(t == S("/"), z3.Not(z3.SuffixOf(S("/"), t))),
    )


def normpath(it, a, k):
    p = a[0]
    if not isinstance(p, VStr):
        raise Unsupported("normpath of non-string")
    c = vals.concrete_str(p)
    if c is not None:
        import posixpath

        return VStr(S(posixpath.normpath(c)))
    key = ("normpath", _tid(p.t))

    def build():
        f = uf("posixpath.normpath", STR, STR)
        r = f(p.t)
        A = it.path.assume
        A(z3.Length(r) > 0)
        A(z3.PrefixOf(S("/"), p.t) == z3.PrefixOf(S("/"), r))
        # absolute results have no '..' segment; no result has '.' segments or a trailing slash
        A(z3.Implies(z3.PrefixOf(S("/"), r), z3.Not(has_dotdot_seg(r))))
        A(z3.Or(r == S("."), z3.Not(has_dot_seg(r))))
        A(z3.Or(z3.Not(z3.SuffixOf(S("/"), r)), r == S("/"), r == S("//")))
        A(z3.Not(z3.Contains(z3.SubString(r, 1, z3.Length(r)), S("//"))))
        A(f(r) == r)
        A(z3.Implies(is_normal_abs(p.t), r == p.t))
        # three or more leading slashes collapse to one; exactly two are kept (POSIX)
        A(z3.Implies(z3.PrefixOf(S("//"), r), z3.And(z3.PrefixOf(S("//"), p.t), z3.Not(z3.PrefixOf(S("///"), p.t)))))
        return r

    return VStr(_memo(it, key, build))


def _join2(a, b):
    return z3.If(
        z3.PrefixOf(S("/"), b),
        b,
        z3.If(z3.Or(a == S(""), z3.SuffixOf(S("/"), a)), z3.Concat(a, b), z3.Concat(a, S("/"), b)),
    )


def join(it, a, k):
    parts = []
    for x in a:
        if isinstance(x, VOpt):
            if it.path.branch(x.isnone):
                it.raise_builtin("TypeError")
            x = x.val
        if not isinstance(x, VStr):
            raise Unsupported(f"path join of {x!r}")
        parts.append(x)
    t = parts[0].t
    for x in parts[1:]:
        t = _join2(t, x.t)
    out = VStr(z3.simplify(t) if all(vals.concrete_str(x) is not None for x in parts) else t)
    if len(parts) == 2:
        out.parts = (parts[0], parts[1])  # remembered for the file-system model
    return out


def split(it, a, k):
    p = a[0]
    c = vals.concrete_str(p)
    if c is not None:
        import posixpath

        h, t = posixpath.split(c)
        return VTuple([VStr(S(h)), VStr(S(t))])
    i = z3.LastIndexOf(p.t, S("/"))
    n = z3.Length(p.t)
    tail = z3.SubString(p.t, i + 1, n)
    h0 = VStr(z3.SubString(p.t, 0, i + 1))
    stripped = strip_model(it, h0, VStr(S("/")), left=False, right=True)
    head = z3.If(z3.InRe(h0.t, z3.Star(z3.Re(S("/")))), h0.t, stripped.t)
    it.path.assume(z3.Not(z3.Contains(tail, S("/"))))
    return VTuple([VStr(head), VStr(tail)])


def basename(it, a, k):
    p = a[0]
    i = z3.LastIndexOf(p.t, S("/"))
    tail = z3.SubString(p.t, i + 1, z3.Length(p.t))
    it.path.assume(z3.Not(z3.Contains(tail, S("/"))))
    return VStr(tail)


_UNRESERVED = None


def quoted_re(safe="/"):
    alnum = z3.Union(z3.Range("a", "z"), z3.Range("A", "Z"), z3.Range("0", "9"))
    extra = [z3.Re(S(c)) for c in "_.-~" + safe]
    hexd = z3.Union(z3.Range("0", "9"), z3.Range("A", "F"))
    pct = z3.Concat(z3.Re(S("%")), hexd, hexd)
    return z3.Star(z3.Union(alnum, pct, *extra))


def quote(it, a, k):
    s = a[0]
    safe = "/"
    if len(a) > 1 or "safe" in k:
        sv = a[1] if len(a) > 1 else k["safe"]
        safe = vals.concrete_str(sv)
        if safe is None:
            raise Unsupported("quote with symbolic safe set")
    if isinstance(s, VOpt):
        if it.path.branch(s.isnone):
            it.raise_builtin("TypeError")
        s = s.val
    c = vals.concrete_str(s)
    if c is not None:
        import urllib.parse

        return VStr(S(urllib.parse.quote(c, safe=safe)))
    key = ("quote", safe, _tid(s.t))

    def build():
        q = uf(f"urllib.quote[{safe}]", STR, STR)
        u = uf("urllib.unquote", STR, STR)
        r = q(s.t)
        A = it.path.assume
        A(u(r) == s.t)
        A(z3.InRe(r, quoted_re(safe)))
        A((z3.Length(r) == 0) == (z3.Length(s.t) == 0))
        # safe characters are kept: a '/' in the input is a '/' in the output and
        # vice versa (when '/' is safe)
        if "/" in safe:
            A(z3.Contains(r, S("/")) == z3.Contains(s.t, S("/")))
            A(z3.PrefixOf(S("/"), r) == z3.PrefixOf(S("/"), s.t))
            A(z3.PrefixOf(S("//"), r) == z3.PrefixOf(S("//"), s.t))
            A(z3.SuffixOf(S("/"), r) == z3.SuffixOf(S("/"), s.t))
        # reserved characters never survive quoting (stated explicitly: cheap for the solvers)
        for ch in "?#; ":
            if ch not in safe:
                A(z3.Not(z3.Contains(r, S(ch))))
        return r

    return VStr(_memo(it, key, build))


def unquote(it, a, k):
    s = a[0]
    c = vals.concrete_str(s)
    if c is not None:
        import urllib.parse

        return VStr(S(urllib.parse.unquote(c)))
    key = ("unquote", _tid(s.t))

    def build():
        u = uf("urllib.unquote", STR, STR)
        r = u(s.t)
        it.path.assume(z3.Implies(z3.Not(z3.Contains(s.t, S("%"))), r == s.t))
        return r

    return VStr(_memo(it, key, build))


class SplitResultModel:
    """urllib.parse.urlsplit / urlparse result: only .path (and .scheme/.netloc as opaque)."""

    def __init__(self, src):
        self.src = src

    def getattr(self, it, ref, name):
        s = self.src
        if name == "path":
            key = ("urlpath", _tid(s.t))

            def build():
                f = uf("urllib.urlsplit.path", STR, STR)
                r = f(s.t)
                A = it.path.assume
                A(z3.Not(z3.Contains(r, S("?"))))
                A(z3.Not(z3.Contains(r, S("#"))))
                # a reference that is a plain absolute path (no scheme, no authority,
                # no query, no fragment) is its own path
                plain = z3.And(
                    z3.PrefixOf(S("/"), s.t),
                    z3.Not(z3.PrefixOf(S("//"), s.t)),
                    z3.Not(z3.Contains(s.t, S("?"))),
                    z3.Not(z3.Contains(s.t, S("#"))),
                )
                A(z3.Implies(plain, r == s.t))
                # the path is what precedes the first '?' or '#', after scheme://authority
                A(z3.Implies(z3.And(z3.PrefixOf(S("/"), s.t), z3.Not(z3.PrefixOf(S("//"), s.t))), z3.PrefixOf(r, s.t)))
                return r

            return VStr(_memo(it, key, build))
        if name in ("scheme", "netloc", "query", "fragment"):
            return VStr(uf(f"urllib.urlsplit.{name}", STR, STR)(s.t))
        raise Unsupported(f"SplitResult.{name}")

    def isinstance(self, it, ref, cls):
        return False


def urlsplit(it, a, k):
    from ..core import Cell
    from ..values import VRef

    s = a[0]
    if not isinstance(s, VStr):
        raise Unsupported("urlsplit of non-string")
    return VRef(it.path.alloc(Cell(cls="urllib.parse.SplitResult", native=SplitResultModel(s))), "urllib.parse.SplitResult")


def looks_relative_segment(t):
    """A reference urljoin treats as a relative path: non-empty, no scheme (no ':' in
    the first segment), does not start with '/', no '?', '#', and no dot segments."""
    first_seg_has_colon = z3.And(
        z3.Contains(t, S(":")),
        z3.Or(z3.Not(z3.Contains(t, S("/"))), z3.IndexOf(t, S(":"), 0) < z3.IndexOf(t, S("/"), 0)),
    )
    return z3.And(
        z3.Length(t) > 0,
        z3.Not(first_seg_has_colon),
        z3.Not(z3.PrefixOf(S("/"), t)),
        z3.Not(z3.Contains(t, S("?"))),
        z3.Not(z3.Contains(t, S("#"))),
        z3.Not(z3.Contains(t, S(";"))),
        z3.Not(has_dotdot_seg(t)),
        z3.Not(has_dot_seg(t)),
    )


def urljoin(it, a, k):
    base, rel = a[0], a[1]
    cb, cr = vals.concrete_str(base), vals.concrete_str(rel)
    if cb is not None and cr is not None:
        import urllib.parse

        return VStr(S(urllib.parse.urljoin(cb, cr)))
    key = ("urljoin", _tid(base.t), _tid(rel.t))

    def build():
        f = uf("urllib.urljoin", STR, STR, STR)
        r = f(base.t, rel.t)
        A = it.path.assume
        base_is_path = z3.And(
            z3.PrefixOf(S("/"), base.t),
            z3.Not(z3.PrefixOf(S("//"), base.t)),
            z3.Not(z3.Contains(base.t, S("?"))),
            z3.Not(z3.Contains(base.t, S("#"))),
            z3.Not(z3.Contains(base.t, S(";"))),
            z3.Not(has_dotdot_seg(base.t)),
            z3.Not(has_dot_seg(base.t)),
        )
        A(z3.Implies(z3.And(base_is_path, z3.SuffixOf(S("/"), base.t), looks_relative_segment(rel.t)), r == z3.Concat(base.t, rel.t)))
        A(z3.Implies(rel.t == S(""), r == base.t))
        return r

    return VStr(_memo(it, key, build))


def under(root, p):
    """p denotes `root` itself or a location below it, with no '..' segment after the root."""
    rs = z3.If(z3.SuffixOf(S("/"), root), root, z3.Concat(root, S("/")))
    rest = z3.SubString(p, z3.Length(rs), z3.Length(p))
    return z3.Or(
        p == root,
        p == rs,
        z3.And(z3.PrefixOf(rs, p), z3.Not(has_dotdot_seg(rest)), z3.Not(z3.PrefixOf(S("/"), rest))),
    )


def install(reg):
    E = reg.externals
    reg.spec_natives["under"] = lambda it, a, k: VBool(under(a[0].t, a[1].t))

    def fs_paths_under(it, a, k):
        root = a[0]
        conj = []
        for e in it.path.effects:
            if e[0] in ("Fs", "Rmtree", "Mkdir") and len(e) > 1 and isinstance(e[1], VStr):
                conj.append(under(root.t, e[1].t))
        return VBool(z3.And(conj + [z3.BoolVal(True)]))

    reg.spec_natives["fs_paths_under"] = fs_paths_under
    reg.spec_natives["fs_access_count"] = lambda it, a, k: VInt(len([e for e in it.path.effects if e[0] in ("Fs", "Rmtree", "Mkdir")]))
    for mod in ("posixpath", "os.path"):
        E[f"{mod}.normpath"] = VNative(normpath, f"{mod}.normpath")
        E[f"{mod}.join"] = VNative(join, f"{mod}.join")
        E[f"{mod}.split"] = VNative(split, f"{mod}.split")
        E[f"{mod}.basename"] = VNative(basename, f"{mod}.basename")
    from ..callables import VModule

    E["os.path"] = VModule("os.path")
    E["urllib.parse"] = VModule("urllib.parse")
    E["urllib.parse.quote"] = VNative(quote, "urllib.parse.quote")
    E["urllib.parse.unquote"] = VNative(unquote, "urllib.parse.unquote")
    E["urllib.parse.urlsplit"] = VNative(urlsplit, "urllib.parse.urlsplit")
    E["urllib.parse.urlparse"] = VNative(urlsplit, "urllib.parse.urlparse")
    E["urllib.parse.urljoin"] = VNative(urljoin, "urllib.parse.urljoin")
    reg.spec_natives["has_dotdot_seg"] = lambda it, a, k: VBool(has_dotdot_seg(a[0].t))
    reg.spec_natives["has_dot_seg"] = lambda it, a, k: VBool(has_dot_seg(a[0].t))
    reg.spec_natives["is_normal_abs"] = lambda it, a, k: VBool(is_normal_abs(a[0].t))
    reg.spec_natives["looks_relative_segment"] = lambda it, a, k: VBool(looks_relative_segment(a[0].t))
