"""Assumed contracts on the standard library and on dependencies, as executable
models over symbolic values.  Every entry here is part of the trusted base and is
listed in the evidence of each check that reaches it (path.dropped / registry.used).

install(registry) wires them into a Registry."""

from __future__ import annotations

import z3

from ..values import *  # noqa: F401,F403
from ..values import (
    V, VNone, NONE, VBool, VInt, VStr, VOpt, VTuple, VList, VMap, VSet, VRef, VOpaque,
    Unsupported, STR, INT, BOOL,
)
from .. import values as vals
from ..callables import *  # noqa: F401,F403
from ..strings import uf, _memo, _tid


def _noop(it, a, k):
    return NONE


def native(fn, name):
    return VNative(fn, name)


def install(reg):
    from . import stdlib, pathmodels

    stdlib.install(reg)
    pathmodels.install(reg)
    from . import mimemodels

    mimemodels.install(reg)
    try:
        from . import dulwichmodels

        dulwichmodels.install(reg)
    except ImportError:
        pass
    from . import configmodels

    configmodels.install(reg)
    try:
        from . import xmlmodels

        xmlmodels.install(reg)
    except ImportError:
        pass
    try:
        from . import fsmodels

        fsmodels.install(reg)
    except ImportError:
        pass
