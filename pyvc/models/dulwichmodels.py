"""ASSUMED contracts on dulwich (Repo, object store, Tree, Blob, Index, GitFile) and on
the few os / file primitives the git store uses, as an executable abstract model.

Abstract state of a repository (fields of the Repo model cell):
  store_has : set[bytes]                ids present in the object store (monotone)
  head      : Optional[bytes]           commit the store's ref points to
  ncommits  : int                       number of commits reachable from the ref
  index     : dict[bytes,(bytes,int)]   on-disk index (non-bare only): name -> (sha, mode)
  worktree  : dict[str,bytes]           work-tree files by *name* (non-bare only)
  locked    : bool                      index.lock exists
Uninterpreted, injective:  BHb : bytes -> id (blob hash),  TH : entries -> id (tree hash),
commit ids are fresh.  commit_tree / commit_parent give a commit's tree and parent.

Bounded conformance of this model against the installed dulwich:
/verif/bounded/conf_dulwich.py (thorough tier)."""

from __future__ import annotations

import z3

from ..values import (
    V, VNone, NONE, VBool, VInt, VStr, VOpt, VTuple, VList, VMap, VSet, VRef, VOpaque,
    Unsupported, STR, INT, BOOL,
)
from .. import values as vals
from ..callables import VNative, VExtClass, VBound
from ..core import Cell
from ..strings import uf, _tid

S = z3.StringVal
ARR_B = z3.ArraySort(STR, BOOL)
ARR_S = z3.ArraySort(STR, STR)
ARR_I = z3.ArraySort(STR, INT)

BHb = uf("BHb", STR, STR)
BHb_inv = uf("BHb.inv", STR, STR)
TH = z3.Function("TH", ARR_B, ARR_S, ARR_I, STR)
TH_dom = z3.Function("TH.dom", STR, ARR_B)
TH_sha = z3.Function("TH.sha", STR, ARR_S)
TH_mode = z3.Function("TH.mode", STR, ARR_I)
KIND = uf("objkind", STR, INT)  # 1 blob, 2 tree, 3 commit
COMMIT_TREE = uf("commit.tree", STR, STR)
COMMIT_PARENT = uf("commit.parent", STR, STR)
COMMIT_HAS_PARENT = uf("commit.has_parent", STR, BOOL)
JOINED = z3.Function("chunks.joined", vals.usort("Chunks"), STR)
CHUNKS_OF = z3.Function("chunks.of", STR, vals.usort("Chunks"))


def bh(it, data_t):
    """Blob id of bytes, with the injectivity instance."""
    r = BHb(data_t)
    key = ("bh", _tid(data_t))
    if key not in it.path.memo:
        it.path.memo[key] = True
        it.path.assume(BHb_inv(r) == data_t)
        it.path.assume(KIND(r) == 1)
        it.path.assume(z3.Length(r) == 40)
    return r


def th(it, dom, sha, mode):
    r = TH(dom, sha, mode)
    key = ("th", _tid(dom), _tid(sha), _tid(mode))
    if key not in it.path.memo:
        it.path.memo[key] = True
        it.path.assume(TH_dom(r) == dom)
        it.path.assume(TH_sha(r) == sha)
        it.path.assume(TH_mode(r) == mode)
        it.path.assume(KIND(r) == 2)
        it.path.assume(z3.Length(r) == 40)
    return r


def joined(it, chunks: V):
    """b''.join(chunks) for an abstract chunk list."""
    if isinstance(chunks, VOpaque):
        t = JOINED(chunks.t)
        return VStr(t, True)
    d = it.deref(chunks)
    if isinstance(d, VList) and d.items is not None:
        if len(d.items) == 1 and isinstance(d.items[0], VStr):
            return d.items[0]
        if all(isinstance(x, VStr) for x in d.items):
            return VStr(z3.Concat(*[x.t for x in d.items]) if len(d.items) > 1 else S(""), True)
    raise Unsupported(f"join of {chunks!r}")


def chunks_of(it, data_t):
    c = CHUNKS_OF(data_t)
    key = ("chunks_of", _tid(data_t))
    if key not in it.path.memo:
        it.path.memo[key] = True
        it.path.assume(JOINED(c) == data_t)
    return VOpaque(c, "Chunks")


class Model:
    cls_name = "?"

    def isinstance(self, it, ref, clsd):
        n = clsd.name if isinstance(clsd, VExtClass) else getattr(clsd, "info", None) and clsd.info.qualname
        return n == self.cls_name or (n or "").split(".")[-1] == self.cls_name.split(".")[-1]

    def setattr(self, it, ref, name, v):
        raise Unsupported(f"{self.cls_name}.{name} = ...")

    def method(self, ref, fn, name):
        return VBound(ref, VNative(lambda it, a, k: fn(it, a[0], a[1:], k), f"{self.cls_name}.{name}"))

    def havoc(self, it, ref):
        """A callee's contract lists this object under `modifies`: every data field becomes
        arbitrary (references to other model objects are kept)."""
        cell = it.path.heap[ref.addr]
        for k, v in list(cell.fields.items()):
            if isinstance(v, V) and not isinstance(v, VRef):
                try:
                    nv = it.path.fresh_like(v, f"{self.cls_name}.{k}")
                except Unsupported:
                    continue
                for f in vals.wellformed(nv):
                    it.path.assume(f)
                cell.fields[k] = nv


def new(it, model, fields):
    return VRef(it.path.alloc(Cell(cls=model.cls_name, fields=dict(fields), native=model)), model.cls_name)


def F(it, ref):
    return it.heap()[ref.addr].fields


# ---------------------------------------------------------------------------- Blob
class BlobModel(Model):
    cls_name = "dulwich.objects.Blob"

    def getattr(self, it, ref, name):
        f = F(it, ref)
        if name == "id":
            return VStr(bh(it, f["data"].t), True)
        if name == "chunked":
            return chunks_of(it, f["data"].t)
        if name == "data":
            return f["data"]
        raise Unsupported(f"Blob.{name}")

    def setattr(self, it, ref, name, v):
        if name == "chunked":
            it.path.heap[ref.addr].fields["data"] = joined(it, v)
            return
        if name == "data":
            it.path.heap[ref.addr].fields["data"] = v
            return
        raise Unsupported(f"Blob.{name} = ...")


BLOB = BlobModel()


def blob_new(it, a, k):
    return new(it, BLOB, {"data": VStr(S(""), True)})


def blob_from_string(it, a, k):
    return new(it, BLOB, {"data": a[0]})


# ---------------------------------------------------------------------------- Tree
class TreeModel(Model):
    """A *private copy* of a tree object: mutating it does not change the repository."""

    cls_name = "dulwich.objects.Tree"

    def entries(self, it, ref):
        f = F(it, ref)
        return f["dom"], f["sha"], f["mode"]

    def getattr(self, it, ref, name):
        dom, sha, mode = self.entries(it, ref)
        if name == "id":
            return VStr(th(it, dom, sha, mode), True)
        if name == "iteritems" or name == "items":
            def iteritems(it_, self_ref, a, k):
                n, order, pos = it_.enum_dom(VStr(S(""), True), dom)
                j = z3.FreshConst(INT, "j")
                names = VStr(order, True)
                modes = VInt(z3.Lambda([j], z3.Select(mode, z3.Select(order, j))))
                shas = VStr(z3.Lambda([j], z3.Select(sha, z3.Select(order, j))), True)
                return VList(n, VTuple([names, modes, shas]))
            return self.method(ref, iteritems, name)
        raise Unsupported(f"Tree.{name}")

    def getitem(self, it, ref, idx):
        dom, sha, mode = self.entries(it, ref)
        if not it.spec_mode and not it.path.branch(z3.Select(dom, idx.t)):
            it.raise_builtin("KeyError")
        return VTuple([VInt(z3.Select(mode, idx.t)), VStr(z3.Select(sha, idx.t), True)])

    def setitem(self, it, ref, idx, v):
        dom, sha, mode = self.entries(it, ref)
        items = it.unpack(v, 2)
        f = it.path.heap[ref.addr].fields
        f["dom"] = z3.Store(dom, idx.t, z3.BoolVal(True))
        f["sha"] = z3.Store(sha, idx.t, items[1].t)
        f["mode"] = z3.Store(mode, idx.t, items[0].t)

    def delitem(self, it, ref, idx):
        dom, sha, mode = self.entries(it, ref)
        if not it.path.branch(z3.Select(dom, idx.t)):
            it.raise_builtin("KeyError")
        f = it.path.heap[ref.addr].fields
        f["dom"] = z3.Store(dom, idx.t, z3.BoolVal(False))
        f["sha"] = z3.Store(sha, idx.t, S(""))
        f["mode"] = z3.Store(mode, idx.t, z3.IntVal(0))

    def contains(self, it, ref, item):
        dom, _, _ = self.entries(it, ref)
        return z3.Select(dom, item.t)


TREE = TreeModel()
# canonical empty entries (fixed constants so that the empty tree has one id)
EMPTY_DOM = z3.K(STR, z3.BoolVal(False))
EMPTY_SHA = z3.K(STR, S(""))
EMPTY_MODE = z3.K(STR, z3.IntVal(0))


def canon(it, dom, sha, mode):
    """Entries are compared extensionally on their domain: normalise the don't-care part."""
    # entry maps are kept canonical by construction (sha == "" and mode == 0 outside the
    # domain): deletions reset the slot, symbolic maps are assumed canonical (canonical_fact)
    return dom, sha, mode


def canonical_fact(it, dom, sha, mode):
    key = ("canon", _tid(dom), _tid(sha), _tid(mode))
    if key in it.path.memo:
        return
    it.path.memo[key] = True
    k = z3.FreshConst(STR, "k")
    it.path.assume(z3.ForAll([k], z3.Implies(z3.Not(z3.Select(dom, k)), z3.And(z3.Select(sha, k) == S(""), z3.Select(mode, k) == 0))))


def tree_new(it, a, k):
    return new(it, TREE, {"dom": EMPTY_DOM, "sha": EMPTY_SHA, "mode": EMPTY_MODE})


def self_hash_fact(it, tid_t):
    """A tree id is the hash of the entries it denotes (the other direction of TH's injectivity)."""
    key = ("selfhash", _tid(tid_t))
    if key not in it.path.memo:
        it.path.memo[key] = True
        it.path.assume(z3.Implies(KIND(tid_t) == 2, TH(TH_dom(tid_t), TH_sha(tid_t), TH_mode(tid_t)) == tid_t))


def tree_from_id(it, tid_t):
    canonical_fact(it, TH_dom(tid_t), TH_sha(tid_t), TH_mode(tid_t))
    self_hash_fact(it, tid_t)
    return new(it, TREE, {"dom": TH_dom(tid_t), "sha": TH_sha(tid_t), "mode": TH_mode(tid_t)})


# ---------------------------------------------------------------------------- Commit
class CommitModel(Model):
    cls_name = "dulwich.objects.Commit"

    def getattr(self, it, ref, name):
        cid = F(it, ref)["id"]
        if name == "tree":
            return VStr(COMMIT_TREE(cid.t), True)
        if name == "id":
            return cid
        raise Unsupported(f"Commit.{name}")


COMMIT = CommitModel()


# ---------------------------------------------------------------------------- object store
class ObjectStoreModel(Model):
    cls_name = "dulwich.object_store.BaseObjectStore"

    def repo(self, it, ref):
        return F(it, ref)["repo"]

    def has(self, it, ref, sha_t):
        rf = F(it, self.repo(it, ref))
        return z3.Select(rf["store_has"], sha_t)

    def getitem(self, it, ref, idx):
        if not it.path.branch(self.has(it, ref, idx.t)):
            it.raise_builtin("KeyError")
        k = it.path.choose(3, [KIND(idx.t) == 1, KIND(idx.t) == 2, z3.And(KIND(idx.t) != 1, KIND(idx.t) != 2)])
        if k == 0:
            return new(it, BLOB, {"data": VStr(BHb_inv(idx.t), True)})
        if k == 1:
            return tree_from_id(it, idx.t)
        return new(it, COMMIT, {"id": idx})

    def contains(self, it, ref, item):
        return self.has(it, ref, item.t)

    def ghost_in_store(self, it, ref, args):
        return VBool(self.has(it, ref, args[0].t))

    def add(self, it, ref, obj):
        repo = self.repo(it, ref)
        oid = it.getattr(obj, "id")
        cell = it.path.heap[repo.addr]
        cell.fields["store_has"] = z3.Store(cell.fields["store_has"], oid.t, z3.BoolVal(True))
        it.path.effects.append(("AddObject", oid))
        ocell = it.heap()[obj.addr]
        if ocell.native is TREE:
            # what is stored is the tree as it is now: its id determines its entries (TH injective)
            pass

    def getattr(self, it, ref, name):
        if name == "add_object":
            def add_object(it_, self_ref, a, k):
                self.add(it_, self_ref, a[0])
                return NONE
            return self.method(ref, add_object, name)
        if name == "add_objects":
            def add_objects(it_, self_ref, a, k):
                seq = it_.iter_seq(a[0])
                if seq.items is None:
                    raise Unsupported("add_objects with a symbolic list")
                for pair in seq.items:
                    self.add(it_, self_ref, it_.unpack(pair, 2)[0])
                return NONE
            return self.method(ref, add_objects, name)
        raise Unsupported(f"object_store.{name}")


OBJSTORE = ObjectStoreModel()


# ---------------------------------------------------------------------------- Index
class IndexModel(Model):
    """In-memory Index object (a copy of the on-disk index when opened)."""

    cls_name = "dulwich.index.Index"

    def getattr(self, it, ref, name):
        f = F(it, ref)
        if name == "commit":
            def commit(it_, self_ref, a, k):
                ff = F(it_, self_ref)
                dom, sha, mode = canon(it_, ff["dom"], ff["sha"], ff["mode"])
                tid = th(it_, dom, sha, mode)
                ostore = a[0]
                repo = F(it_, ostore)["repo"]
                cell = it_.path.heap[repo.addr]
                cell.fields["store_has"] = z3.Store(cell.fields["store_has"], tid, z3.BoolVal(True))
                it_.path.effects.append(("AddObject", VStr(tid, True)))
                return VStr(tid, True)
            return self.method(ref, commit, name)
        if name == "iterobjects":
            def iterobjects(it_, self_ref, a, k):
                ff = F(it_, self_ref)
                n, order, pos = it_.enum_dom(VStr(S(""), True), ff["dom"])
                j = z3.FreshConst(INT, "j")
                names = VStr(order, True)
                modes = VInt(z3.Lambda([j], z3.Select(ff["mode"], z3.Select(order, j))))
                shas = VStr(z3.Lambda([j], z3.Select(ff["sha"], z3.Select(order, j))), True)
                return VList(n, VTuple([names, shas, modes]))
            return self.method(ref, iterobjects, name)
        if name == "_byname":
            return ref
        raise Unsupported(f"Index.{name}")

    def getitem(self, it, ref, idx):
        f = F(it, ref)
        if not it.path.branch(z3.Select(f["dom"], idx.t)):
            it.raise_builtin("KeyError")
        return new(it, ENTRY, {"sha": VStr(z3.Select(f["sha"], idx.t), True), "mode": VInt(z3.Select(f["mode"], idx.t))})

    def setitem(self, it, ref, idx, v):
        f = it.path.heap[ref.addr].fields
        ef = F(it, v)
        f["dom"] = z3.Store(f["dom"], idx.t, z3.BoolVal(True))
        f["sha"] = z3.Store(f["sha"], idx.t, ef["sha"].t)
        f["mode"] = z3.Store(f["mode"], idx.t, ef["mode"].t)

    def delitem(self, it, ref, idx):
        f = it.path.heap[ref.addr].fields
        if not it.path.branch(z3.Select(f["dom"], idx.t)):
            it.raise_builtin("KeyError")
        f["dom"] = z3.Store(f["dom"], idx.t, z3.BoolVal(False))
        f["sha"] = z3.Store(f["sha"], idx.t, S(""))
        f["mode"] = z3.Store(f["mode"], idx.t, z3.IntVal(0))

    def contains(self, it, ref, item):
        return z3.Select(F(it, ref)["dom"], item.t)


class EntryModel(Model):
    cls_name = "dulwich.index.IndexEntry"

    def getattr(self, it, ref, name):
        f = F(it, ref)
        if name in ("sha", "mode"):
            return f[name]
        raise Unsupported(f"IndexEntry.{name}")


INDEX = IndexModel()
ENTRY = EntryModel()


def index_from_repo(it, repo):
    rf = F(it, repo)
    if not it.spec_mode:
        it.path.effects.append(("ReadIndex", NONE))
    return new(it, INDEX, {"dom": rf["index_dom"], "sha": rf["index_sha"], "mode": rf["index_mode"], "repo": repo})


# ---------------------------------------------------------------------------- Repo
class RepoModel(Model):
    cls_name = "dulwich.repo.Repo"

    @staticmethod
    def fresh(it, name="repo"):
        P = it.path
        fields = {
            "store_has": P.const(name + ".store_has", ARR_B),
            "head": VOpt(P.const(name + ".head.none", BOOL), VStr(P.const(name + ".head", STR), True)),
            "ncommits": VInt(P.const(name + ".ncommits", INT)),
            "index_dom": P.const(name + ".index.dom", ARR_B),
            "index_sha": P.const(name + ".index.sha", ARR_S),
            "index_mode": P.const(name + ".index.mode", ARR_I),
            "worktree_dom": P.const(name + ".wt.dom", ARR_B),
            "worktree_data": P.const(name + ".wt.data", ARR_S),
            "locked": VBool(P.const(name + ".locked", BOOL)),
            "path": VStr(P.const(name + ".path", STR)),
            "bare": VBool(P.const(name + ".bare", BOOL)),
            "gitconfig": vals.fresh("dict[bytes,bytes]", P.name(name + ".gitconfig")),
            "has_xandikos": VBool(P.const(name + ".gitconfig.has_xandikos", BOOL)),
            "description": VOpt(P.const(name + ".description.none", BOOL), VStr(P.const(name + ".description", STR), True)),
        }
        canonical_fact(it, fields["index_dom"], fields["index_sha"], fields["index_mode"])
        P.assume(fields["ncommits"].t >= 0)
        P.assume(fields["head"].isnone == (fields["ncommits"].t == 0))
        ref = new(it, REPO, fields)
        os_ref = new(it, OBJSTORE, {"repo": ref})
        it.path.heap[ref.addr].fields["object_store"] = os_ref
        return ref

    def getattr(self, it, ref, name):
        f = F(it, ref)
        if name in ("object_store", "path"):
            return f[name]
        if name == "do_commit":
            # dulwich >= 0.24: on-disk repositories have no do_commit (MemoryRepo keeps it).
            # The model follows the installed version; _do_commit falls back to the work tree API.
            it.raise_builtin("AttributeError")
        if name == "get_worktree":
            def get_worktree(it_, self_ref, a, k):
                return new(it_, WORKTREE, {"repo": self_ref})
            return self.method(ref, get_worktree, name)
        if name == "open_index":
            def open_index(it_, self_ref, a, k):
                return index_from_repo(it_, self_ref)
            return self.method(ref, open_index, name)
        if name == "index_path":
            def index_path(it_, self_ref, a, k):
                return new(it_, INDEXPATH, {"repo": self_ref})
            return self.method(ref, index_path, name)
        if name == "has_index":
            return self.method(ref, lambda it_, r, a, k: VBool(z3.Not(F(it_, r)["bare"].t)), name)
        if name == "get_config":
            def get_config(it_, self_ref, a, k):
                from .configmodels import GITCONFIG

                ff = it_.path.heap[self_ref.addr].fields
                return new(it_, GITCONFIG, {"data": ff["gitconfig"], "has_xandikos": ff["has_xandikos"], "repo": self_ref})
            return self.method(ref, get_config, name)
        if name == "_put_named_file":
            def put_named_file(it_, self_ref, a, k):
                # dulwich: GitFile(path, "wb") + write + close, i.e. <name>.lock renamed over <name>
                # (atomic replacement); for "config" the repository's configuration becomes what
                # those bytes parse to
                from .configmodels import parsed_gitconfig

                nm = vals.concrete_str(a[0])
                if nm != "config" or not isinstance(a[1], VStr):
                    raise Unsupported(f"Repo._put_named_file({nm!r}, ...)")
                ff = it_.path.heap[self_ref.addr].fields
                ff["gitconfig"], ff["has_xandikos"] = parsed_gitconfig(a[1].t, ff["gitconfig"])
                it_.path.effects.append(("put_named_file", a[0]))
                return NONE
            return self.method(ref, put_named_file, name)
        if name == "get_description":
            return self.method(ref, lambda it_, r, a, k: F(it_, r)["description"], name)
        if name == "set_description":
            def set_description(it_, self_ref, a, k):
                it_.path.heap[self_ref.addr].fields["description"] = VOpt(False, a[0])
                return NONE
            return self.method(ref, set_description, name)
        raise Unsupported(f"Repo.{name}")

    def getitem(self, it, ref, idx):
        """repo[ref]: the commit the ref points to (KeyError when unborn)."""
        f = F(it, ref)
        head = f["head"]
        if it.path.branch(head.isnone):
            it.raise_builtin("KeyError")
        return new(it, COMMIT, {"id": head.val})

    def frame_eq(self, it, old, cur):
        out = []
        for k, ov in old.fields.items():
            cv = cur.fields.get(k)
            if cv is ov or isinstance(ov, VRef):
                continue
            if isinstance(ov, V):
                out.append((f"repo.{k}", vals.eq(ov, cv)))
            else:
                out.append((f"repo.{k}", ov == cv))
        return out

    def havoc(self, it, ref):
        """modifies=[... the repository ...] at a call site: every component becomes arbitrary
        (the callee's postcondition says what it then is)."""
        cell = it.path.heap[ref.addr]
        for k, v in list(cell.fields.items()):
            if isinstance(v, VRef):
                continue
            if isinstance(v, V):
                cell.fields[k] = it.path.fresh_like(v, "havoc." + k)
            elif isinstance(v, z3.ExprRef):
                cell.fields[k] = it.path.const("havoc." + k, v.sort())


class IndexPathModel(Model):
    cls_name = "str"  # repo.index_path() is a path string; only passed to locked_index / GitFile / Index


class WorkTreeModel(Model):
    cls_name = "dulwich.worktree.WorkTree"

    def getattr(self, it, ref, name):
        if name == "commit":
            def commit(it_, self_ref, a, k):
                return do_commit(it_, F(it_, self_ref)["repo"], k)
            return self.method(ref, commit, name)
        raise Unsupported(f"WorkTree.{name}")


def do_commit(it, repo, k):
    """commit(message=, tree=, ref=, author=): append one commit with parent = current head."""
    tree = k.get("tree")
    if tree is None or isinstance(tree, VNone):
        raise Unsupported("commit without an explicit tree")
    cell = it.path.heap[repo.addr]
    f = cell.fields
    if not it.path.branch(z3.Select(f["store_has"], tree.t)):
        # dulwich happily creates a commit pointing to a missing tree: modelled, and visible
        # to the contracts through store_has
        pass
    cid = it.path.const("commit", STR)
    A = it.path.assume
    A(COMMIT_TREE(cid) == tree.t)
    A(KIND(cid) == 3)
    A(COMMIT_HAS_PARENT(cid) == z3.Not(f["head"].isnone))
    A(z3.Implies(z3.Not(f["head"].isnone), COMMIT_PARENT(cid) == f["head"].val.t))
    A(z3.Not(z3.Select(f["store_has"], cid)))  # fresh id
    f["store_has"] = z3.Store(f["store_has"], cid, z3.BoolVal(True))
    f["head"] = VOpt(False, VStr(cid, True))
    f["ncommits"] = VInt(f["ncommits"].t + 1)
    it.path.effects.append(("Commit", VStr(cid, True)))
    return VStr(cid, True)


REPO = RepoModel()
INDEXPATH = IndexPathModel()
WORKTREE = WorkTreeModel()


# ---------------------------------------------------------------------------- GitFile / Index(path) / write_index_dict
class GitFileModel(Model):
    cls_name = "dulwich.file.GitFile"

    def getattr(self, it, ref, name):
        if name == "abort":
            def abort(it_, self_ref, a, k):
                repo = F(it_, self_ref)["repo"]
                it_.path.heap[repo.addr].fields["locked"] = VBool(False)
                it_.path.effects.append(("Release", NONE))
                return NONE
            return self.method(ref, abort, name)
        raise Unsupported(f"GitFile.{name}")


GITFILE = GitFileModel()


def gitfile_open(it, a, k):
    p = a[0]
    if not (isinstance(p, VRef) and it.heap()[p.addr].native is INDEXPATH):
        raise Unsupported("GitFile on a path other than repo.index_path()")
    repo = F(it, p)["repo"]
    f = it.path.heap[repo.addr].fields
    if it.path.branch(f["locked"].t):
        raise_ext(it, "dulwich.file.FileLocked")
    f["locked"] = VBool(True)
    it.path.effects.append(("Acquire", NONE))
    return new(it, GITFILE, {"repo": repo})


def raise_ext(it, name):
    from ..core import RaiseSignal

    raise RaiseSignal(it.new_exception(name, []))


def index_open(it, a, k):
    p = a[0]
    if not (isinstance(p, VRef) and it.heap()[p.addr].native is INDEXPATH):
        raise Unsupported("Index() on a path other than repo.index_path()")
    return index_from_repo(it, F(it, p)["repo"])


class SHA1WriterModel(Model):
    cls_name = "dulwich.pack.SHA1Writer"

    def getattr(self, it, ref, name):
        if name == "close":
            def close(it_, self_ref, a, k):
                f = F(it_, self_ref)
                gf = f["file"]
                repo = F(it_, gf)["repo"]
                rf = it_.path.heap[repo.addr].fields
                pend = f.get("pending")
                if pend is not None:
                    idx = F(it_, pend)
                    rf["index_dom"], rf["index_sha"], rf["index_mode"] = idx["dom"], idx["sha"], idx["mode"]
                    it_.path.effects.append(("WriteIndex", NONE))
                rf["locked"] = VBool(False)
                it_.path.effects.append(("Release", NONE))
                return NONE
            return self.method(ref, close, name)
        raise Unsupported(f"SHA1Writer.{name}")


SHA1W = SHA1WriterModel()


def sha1writer(it, a, k):
    return new(it, SHA1W, {"file": a[0]})


def write_index_dict(it, a, k):
    w, idx = a[0], a[1]
    it.path.heap[w.addr].fields["pending"] = idx
    return NONE


def index_entry_from_stat(it, a, k):
    return new(it, ENTRY, {"sha": a[1], "mode": VInt(0o100644)})


# ---------------------------------------------------------------------------- abstract repository
class AbstractObjStoreModel(Model):
    """Object store as the GitStore-level contracts see it: membership and content are the
    ghost functions in_store / blob_of over its opaque identity; adding a tree records the
    member map it denotes in the repository's `trees` (= GitStore.ghost_trees)."""

    cls_name = "dulwich.object_store.BaseObjectStore"

    def as_opaque(self, it, ref):
        return F(it, ref)["oid"]

    def getitem(self, it, ref, idx):
        c = it.registry.contracts["iface:ObjectStore.__getitem__"]
        return it.registry.call_iface(it, c, [F(it, ref)["oid"], idx], {})

    def getattr(self, it, ref, name):
        if name == "add_object":
            def add_object(it_, self_ref, a, k):
                obj = a[0]
                ocell = it_.heap()[obj.addr]
                if ocell.native is TREE:
                    repo = F(it_, self_ref)["repo"]
                    rc = it_.path.heap[repo.addr]
                    dom, sha, mode = TREE.entries(it_, obj)
                    tag = uf("decode[ascii]", STR, STR)(th(it_, dom, sha, mode))
                    trees = rc.fields["trees"]
                    view = it_.registry.spec_natives["entries_view_raw"](it_, dom, sha)
                    # a tag denotes one tree (TH injective): re-adding a known tree changes nothing
                    known = trees.has(VStr(tag))
                    it_.path.assume(z3.Implies(known, vals.eq(trees.get(VStr(tag)), view)))
                    rc.fields["trees"] = vals.ite(known, trees, trees.put(VStr(tag), view))
                return NONE
            return self.method(ref, add_object, name)
        raise Unsupported(f"abstract object_store.{name}")


ABS_OBJSTORE = AbstractObjStoreModel()


class AbstractRepoModel(Model):
    cls_name = "dulwich.repo.BaseRepo"

    @staticmethod
    def fresh(it, name="repo"):
        trees = vals.fresh("dict[str,dict[str,str]]", it.path.name(name + ".trees"))
        oid = VOpaque(it.path.const(name + ".object_store", vals.usort("ObjectStore")), "ObjectStore")
        P = it.path
        ref = new(it, ABS_REPO, {"trees": trees, "path": VStr(it.path.const(name + ".path", STR)),
                                 "gitconfig": vals.fresh("dict[bytes,bytes]", P.name(name + ".gitconfig")),
                                 "has_xandikos": VBool(P.const(name + ".gitconfig.has_xandikos", BOOL)),
                                 "description": VOpt(P.const(name + ".description.none", BOOL),
                                                     VStr(P.const(name + ".description", STR), True))})
        os_ref = new(it, ABS_OBJSTORE, {"repo": ref, "oid": oid})
        it.path.heap[ref.addr].fields["object_store"] = os_ref
        return ref

    def getattr(self, it, ref, name):
        f = F(it, ref)
        if name in ("object_store", "path"):
            return f[name]
        if name == "get_config":
            def get_config(it_, self_ref, a, k):
                from .configmodels import GITCONFIG

                ff = it_.path.heap[self_ref.addr].fields
                if "gitconfig" not in ff:
                    ff["gitconfig"] = vals.fresh("dict[bytes,bytes]", it_.path.name("gitconfig"))
                    ff["has_xandikos"] = VBool(it_.path.const("gitconfig.has_xandikos", BOOL))
                return new(it_, GITCONFIG, {"data": ff["gitconfig"], "has_xandikos": ff["has_xandikos"], "repo": self_ref})
            return self.method(ref, get_config, name)
        raise Unsupported(f"abstract Repo.{name}")

    def frame_eq(self, it, old, cur):
        out = []
        for k, ov in old.fields.items():
            cv = cur.fields.get(k)
            if cv is ov or isinstance(ov, VRef):
                continue
            out.append((f"repo.{k}", vals.eq(ov, cv)))
        return out


ABS_REPO = AbstractRepoModel()


def install(reg):
    E = reg.externals
    E["dulwich.objects.Blob"] = VExtClass("dulwich.objects.Blob")
    E["dulwich.objects.Tree"] = VExtClass("dulwich.objects.Tree")
    reg.ext_classes["dulwich.objects.Blob"] = blob_new
    reg.ext_classes["dulwich.objects.Tree"] = tree_new
    E["dulwich.objects.Blob.from_string"] = VNative(blob_from_string, "Blob.from_string")
    E["dulwich.file.GitFile"] = VNative(gitfile_open, "GitFile")
    E["dulwich.file.FileLocked"] = VExtClass("dulwich.file.FileLocked")
    E["dulwich.index.Index"] = VNative(index_open, "Index")
    E["dulwich.index.index_entry_from_stat"] = VNative(index_entry_from_stat, "index_entry_from_stat")
    E["dulwich.index.write_index_dict"] = VNative(write_index_dict, "write_index_dict")
    E["dulwich.pack.SHA1Writer"] = VNative(sha1writer, "SHA1Writer")
    E["dulwich.repo"] = __import__("pyvc.callables", fromlist=["VModule"]).VModule("dulwich.repo")
    E["dulwich.repo.NotGitRepository"] = VExtClass("dulwich.repo.NotGitRepository")
    E["dulwich.repo.CONTROLDIR"] = VStr(".git")

    # ---- specification vocabulary over the repository model
    def _repo(it, v):
        if not (isinstance(v, VRef) and it.heap()[v.addr].native in (REPO, ABS_REPO)):
            raise Unsupported("repository model expected")
        return F(it, v)

    def enc_axioms(it):
        if "enc_axioms" in it.path.memo:
            return
        it.path.memo["enc_axioms"] = True
        e8, d8 = uf("encode[utf-8]", STR, STR), uf("decode[utf-8]", STR, STR)
        ea, da = uf("encode[ascii]", STR, STR), uf("decode[ascii]", STR, STR)
        x = z3.FreshConst(STR, "x")
        A = it.path.assume
        A(z3.ForAll([x], d8(e8(x)) == x))
        A(z3.ForAll([x], e8(d8(x)) == x))
        A(z3.ForAll([x], da(ea(x)) == x))
        A(z3.ForAll([x], ea(da(x)) == x))
        it.path.dropped.add("utf-8 / ascii encode and decode are treated as mutually inverse bijections (names and object ids are valid in their encoding)")

    def entries_view(it, dom, sha):
        """{decode(k): decode_ascii(sha[k]) for k in dom if decode(k) != '.xandikos'} as a map value."""
        enc_axioms(it)
        e8 = uf("encode[utf-8]", STR, STR)
        da = uf("decode[ascii]", STR, STR)
        n = z3.FreshConst(STR, "n")
        vdom = z3.Lambda([n], z3.And(z3.Select(dom, e8(n)), n != S(".xandikos")))
        vval = z3.Lambda([n], da(z3.Select(sha, e8(n))))
        return VMap(VStr(S("")), vdom, VStr(vval))

    def head_entries(it, repo):
        f = _repo(it, repo)
        head = f["head"]
        tid = COMMIT_TREE(head.val.t)
        canonical_fact(it, TH_dom(tid), TH_sha(tid), TH_mode(tid))
        self_hash_fact(it, tid)
        dom = z3.If(head.isnone, EMPTY_DOM, TH_dom(tid))
        sha = z3.If(head.isnone, EMPTY_SHA, TH_sha(tid))
        mode = z3.If(head.isnone, EMPTY_MODE, TH_mode(tid))
        return dom, sha, mode

    def bare_view(it, a, k):
        store = a[0]
        dom, sha, mode = head_entries(it, it.getattr(store, "repo"))
        return entries_view(it, dom, sha)

    def tree_view(it, a, k):
        f = _repo(it, it.getattr(a[0], "repo"))
        return entries_view(it, f["index_dom"], f["index_sha"])

    def cfg_entry(it, dom, sha):
        """The blob id (decoded) of the .xandikos entry, or None."""
        enc_axioms(it)
        e8 = uf("encode[utf-8]", STR, STR)
        da = uf("decode[ascii]", STR, STR)
        k_ = e8(S(".xandikos"))
        return VOpt(z3.Not(z3.Select(dom, k_)), VStr(da(z3.Select(sha, k_))))

    def bare_cfg_view(it, a, k):
        dom, sha, mode = head_entries(it, it.getattr(a[0], "repo"))
        return cfg_entry(it, dom, sha)

    def tree_cfg_view(it, a, k):
        f = _repo(it, it.getattr(a[0], "repo"))
        return cfg_entry(it, f["index_dom"], f["index_sha"])

    def abs_trees_view(it, a, k):
        r = it.getattr(a[0], "repo")
        return F(it, r)["trees"]

    def abs_trees_set(it, obj, newval):
        r = it.getattr(obj, "repo")
        it.path.heap[r.addr].fields["trees"] = newval

    reg.spec_natives["empty_tag"] = lambda it, a, k: VStr(uf("decode[ascii]", STR, STR)(th(it, EMPTY_DOM, EMPTY_SHA, EMPTY_MODE)))
    reg.spec_natives["abs_trees_view"] = abs_trees_view
    reg.view_setters["abs_trees_view"] = abs_trees_set
    reg.spec_natives["entries_view_raw"] = entries_view

    class AbsRepoFactory:
        @staticmethod
        def fresh(it, name):
            return AbstractRepoModel.fresh(it, name)

    reg.model_classes["abstract.Repo"] = AbsRepoFactory

    def trees_view(it, a, k):
        """ghost_trees for a git store: every tree object in the object store, as a member map."""
        enc_axioms(it)
        f = _repo(it, it.getattr(a[0], "repo"))
        ea = uf("encode[ascii]", STR, STR)
        e8 = uf("encode[utf-8]", STR, STR)
        da = uf("decode[ascii]", STR, STR)
        t = z3.FreshConst(STR, "t")
        n = z3.FreshConst(STR, "n")
        dom = z3.Lambda([t], z3.And(z3.Select(f["store_has"], ea(t)), KIND(ea(t)) == 2))
        inner_dom = z3.Lambda([t], z3.Lambda([n], z3.And(z3.Select(TH_dom(ea(t)), e8(n)), n != S(".xandikos"))))
        inner_val = z3.Lambda([t], z3.Lambda([n], da(z3.Select(TH_sha(ea(t)), e8(n)))))
        x = z3.FreshConst(STR, "x")
        if "canon_all" not in it.path.memo:
            it.path.memo["canon_all"] = True
        return VMap(VStr(S("")), dom, VMap(VStr(S("")), inner_dom, VStr(inner_val)))

    SN = reg.spec_natives
    SN["trees_view"] = trees_view
    SN["tree_locked_view"] = lambda it, a, k: _repo(it, it.getattr(a[0], "repo"))["locked"]
    SN["false_view"] = lambda it, a, k: VBool(False)
    SN["bare_view"] = bare_view
    SN["bare_cfg_view"] = bare_cfg_view
    SN["tree_cfg_view"] = tree_cfg_view
    SN["tree_view"] = tree_view
    SN["repo_head"] = lambda it, a, k: _repo(it, a[0])["head"]
    SN["repo_ncommits"] = lambda it, a, k: _repo(it, a[0])["ncommits"]
    SN["repo_gitconfig"] = lambda it, a, k: _repo(it, a[0])["gitconfig"]
    SN["repo_description"] = lambda it, a, k: _repo(it, a[0])["description"]

    def repo_has_meta(it, a, k):
        if not isinstance(a[0], VRef):
            raise Unsupported("repository model expected")
        return F(it, a[0])["has_xandikos"]
    SN["repo_has_meta"] = repo_has_meta
    SN["gitconfig_data"] = lambda it, a, k: F(it, a[0])["data"]
    SN["repo_locked"] = lambda it, a, k: _repo(it, a[0])["locked"]
    SN["repo_has"] = lambda it, a, k: VBool(z3.Select(_repo(it, a[0])["store_has"], a[1].t))
    SN["repo_objects"] = lambda it, a, k: VSet(VStr(S(""), True), _repo(it, a[0])["store_has"])
    SN["commit_tree"] = lambda it, a, k: VStr(COMMIT_TREE(a[0].t), True)
    SN["commit_parent"] = lambda it, a, k: VOpt(z3.Not(COMMIT_HAS_PARENT(a[0].t)), VStr(COMMIT_PARENT(a[0].t), True))
    SN["kind_of"] = lambda it, a, k: VInt(KIND(a[0].t))
    SN["tree_entries"] = lambda it, a, k: VMap(VStr(S(""), True), TH_dom(a[0].t), VTuple([VStr(TH_sha(a[0].t), True), VInt(TH_mode(a[0].t))]))
    SN["head_tree_entries"] = lambda it, a, k: (lambda d: VMap(VStr(S(""), True), d[0], VTuple([VStr(d[1], True), VInt(d[2])])))(head_entries(it, a[0]))
    SN["index_entries"] = lambda it, a, k: (lambda f: VMap(VStr(S(""), True), f["index_dom"], VTuple([VStr(f["index_sha"], True), VInt(f["index_mode"])])))(_repo(it, a[0]))
    SN["tree_id_of"] = lambda it, a, k: (lambda m: VStr(th(it, *canon(it, m.dom, m.val.items[0].t, m.val.items[1].t)), True))(it.deref(a[0]))
    SN["blob_id"] = lambda it, a, k: VStr(bh(it, joined(it, a[0]).t), True)
    SN["blob_id_bytes"] = lambda it, a, k: VStr(bh(it, a[0].t), True)
    SN["blob_bytes"] = lambda it, a, k: VStr(BHb_inv(a[0].t), True)
    def _joined_total(it, a, k):
        # total in specifications: terms under a false guard may be ill-typed
        x = a[0]
        if isinstance(x, VOpaque) and x.cls == "Chunks":
            return joined(it, x)
        if isinstance(x, VRef) or isinstance(x, VList):
            try:
                return joined(it, x)
            except Unsupported:
                pass
        return VStr(uf("ill_typed_join", STR, STR)(x.t) if isinstance(x, VStr) else S(""), True)

    SN["joined"] = _joined_total

    class RepoFactory:
        @staticmethod
        def fresh(it, name):
            return RepoModel.fresh(it, name)

    reg.model_classes["dulwich.repo.Repo"] = RepoFactory
