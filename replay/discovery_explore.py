"""Bounded stand-in / replay for C18 (service discovery in every deployment layout).

For every configuration (front end x route prefix x principal path x number of restarts) a
client that knows only the server root follows
    current-user-principal -> calendar-home-set / addressbook-home-set -> Depth 1 listing
using only hrefs the server returned (resolved against the URL of the request, RFC 3986), and
must reach an existing calendar and an existing address book with the right resource types;
data written before a restart must still be there after it; the .well-known redirect must
point at the route prefix."""
import asyncio
import io
import logging
import os
import shutil
import sys
import tempfile
import urllib.parse
from xml.etree import ElementTree as ET

from common import main

ICS = (b"BEGIN:VCALENDAR\r\nVERSION:2.0\r\nPRODID:-//x//y//EN\r\nBEGIN:VEVENT\r\nUID:keep-me\r\n"
       b"DTSTAMP:20240101T000000Z\r\nDTSTART:20240110T120000Z\r\nSUMMARY:s\r\nEND:VEVENT\r\nEND:VCALENDAR\r\n")

PROPFIND = (b"<?xml version='1.0'?><D:propfind xmlns:D='DAV:' xmlns:C='urn:ietf:params:xml:ns:caldav' "
            b"xmlns:A='urn:ietf:params:xml:ns:carddav'><D:prop><D:current-user-principal/><D:resourcetype/>"
            b"<C:calendar-home-set/><A:addressbook-home-set/><D:principal-URL/></D:prop></D:propfind>")


class Deployment:
    def __init__(self, front, prefix, principal, autocreate=True, defaults=True):
        self.front, self.prefix, self.principal = front, prefix, principal
        self.autocreate, self.defaults = autocreate, defaults
        self.top = tempfile.mkdtemp(prefix="verif-disc-")
        self.root = os.path.join(self.top, "data")
        self.start()

    def start(self, flags=True):
        """Start the server through its real entry point: `xandikos.web.main` (stand-alone,
        aiohttp) up to the point where it would bind a socket, or importing `xandikos.wsgi`
        (WSGI deployments).  flags=False: a restart without --defaults / AUTOCREATE."""
        import xandikos.web as web

        web.open_store_from_path.cache_clear()
        if self.front == "aiohttp":
            import argparse

            from aiohttp import web as aioweb

            class Stop(Exception):
                pass

            captured = {}
            real_app = web.XandikosApp

            class Recording(real_app):
                def __init__(self2, *a, **k):
                    super().__init__(*a, **k)
                    captured["app"] = self2

            def stop(*a, **k):
                raise Stop()

            parser = argparse.ArgumentParser()
            web.add_parser(parser)
            argv = ["-d", self.root, "--current-user-principal", self.principal, "--route-prefix", self.prefix,
                    "--no-detect-systemd"]
            if flags and self.defaults:
                argv.append("--defaults")
            elif flags and self.autocreate:
                argv.append("--autocreate")
            options = parser.parse_args(argv)
            old_runner, old_basic = aioweb.AppRunner, logging.basicConfig
            web.XandikosApp = Recording
            aioweb.AppRunner = stop
            logging.basicConfig = lambda *a, **k: None
            loop = asyncio.new_event_loop()
            try:
                loop.run_until_complete(web.main(options, parser))
            except Stop:
                pass
            finally:
                loop.close()
                web.XandikosApp = real_app
                aioweb.AppRunner = old_runner
                logging.basicConfig = old_basic
            self.app = captured["app"]
            self.backend = self.app.backend
            self.route_prefix = options.route_prefix
        else:
            import importlib

            os.environ["XANDIKOSPATH"] = self.root
            os.environ["CURRENT_USER_PRINCIPAL"] = self.principal
            if flags and self.defaults:
                os.environ["AUTOCREATE"] = "defaults"
            elif flags and self.autocreate:
                os.environ["AUTOCREATE"] = "yes"
            else:
                os.environ.pop("AUTOCREATE", None)
            import xandikos.wsgi as w

            w = importlib.reload(w)
            self.app = w.app
            self.backend = w.backend

    def close(self):
        shutil.rmtree(self.top, ignore_errors=True)

    # the route prefix as the front end sees it
    def script_name(self):
        if self.front == "aiohttp":
            return self.route_prefix            # as normalised by web.main
        return self.prefix.rstrip("/")      # WSGI SCRIPT_NAME never ends in '/'

    def url_root(self):
        return (self.prefix.rstrip("/") + "/")

    def request(self, method, url_path, headers=None, body=b""):
        """url_path: absolute path of the URL as a client sends it (percent-encoded)."""
        headers = dict(headers or {})
        base = self.prefix.rstrip("/")
        path = url_path.split("?")[0]
        if not (path == base or path.startswith(base + "/")):
            return {"status": 404, "headers": {}, "body": b"outside the route prefix", "outside": True}
        inner = path[len(base):] or "/"
        if self.front == "wsgi":
            env = {"REQUEST_METHOD": method, "SCRIPT_NAME": base,
                   "PATH_INFO": urllib.parse.unquote_to_bytes(inner).decode("latin-1"),
                   "SERVER_NAME": "localhost", "SERVER_PORT": "80", "wsgi.url_scheme": "http",
                   "wsgi.input": io.BytesIO(body), "CONTENT_LENGTH": str(len(body)), "wsgi.errors": sys.stderr}
            for k, v in headers.items():
                if k.lower() == "content-type":
                    env["CONTENT_TYPE"] = v
                else:
                    env["HTTP_" + k.upper().replace("-", "_")] = v
            out = {}

            def start_response(status, hdrs, exc_info=None):
                out["status"] = int(status.split(" ")[0])
                out["headers"] = dict(hdrs)
            try:
                out["body"] = b"".join(self.app.handle_wsgi_request(env, start_response))
            except Exception as e:
                out.update(status=500, headers={}, body=f"{type(e).__name__}: {e}".encode())
            return out
        # aiohttp: the router strips the prefix and binds the rest to {path_info:.*}
        from aiohttp import streams
        from aiohttp.test_utils import make_mocked_request

        async def run():
            loop = asyncio.get_event_loop()
            from unittest import mock

            proto = mock.Mock(_reading_paused=False)
            payload = streams.StreamReader(proto, 2 ** 16, loop=loop)
            payload.feed_data(body)
            payload.feed_eof()
            req = make_mocked_request(method, url_path, headers=headers,
                                      match_info={"path_info": urllib.parse.unquote(inner[1:])}, payload=payload)
            resp = await self.app.aiohttp_handler(req, self.script_name())
            b = getattr(resp, "body", b"") or b""
            return {"status": resp.status, "headers": dict(resp.headers), "body": bytes(b)}
        loop = asyncio.new_event_loop()
        try:
            asyncio.set_event_loop(loop)
            return loop.run_until_complete(run())
        except Exception as e:
            return {"status": 500, "headers": {}, "body": f"{type(e).__name__}: {e}".encode()}
        finally:
            loop.close()


def hrefs_of(el, tag):
    out = []
    for p in el.iter(tag):
        for h in p.iter("{DAV:}href"):
            out.append(h.text)
    return out


def resolve(request_url_path, href):
    """RFC 3986 reference resolution, path part only (what a client does with a returned href)."""
    u = urllib.parse.urljoin("http://localhost" + request_url_path, href)
    sp = urllib.parse.urlsplit(u)
    if sp.netloc != "localhost":
        return None
    return sp.path


def propfind(dep, url, depth="0"):
    r = dep.request("PROPFIND", url, {"Depth": depth, "Content-Type": "text/xml"}, PROPFIND)
    if r["status"] != 207:
        return r, None
    try:
        return r, ET.fromstring(r["body"])
    except ET.ParseError:
        return r, None


def walk(dep):
    """-> None or a description of where the discovery chain breaks."""
    root = dep.url_root()
    r, ms = propfind(dep, root)
    if ms is None:
        return f"PROPFIND {root} -> {r['status']} {r['body'][:120]!r}"
    cups = hrefs_of(ms, "{DAV:}current-user-principal")
    if not cups:
        return f"PROPFIND {root}: no current-user-principal href"
    purl = resolve(root, cups[0])
    if purl is None:
        return f"current-user-principal href {cups[0]!r} leaves the server"
    r, ms = propfind(dep, purl)
    if ms is None:
        return f"current-user-principal {cups[0]!r} -> PROPFIND {purl} -> {r['status']}"
    rts = [c.tag for rt in ms.iter("{DAV:}resourcetype") for c in rt]
    if "{DAV:}principal" not in rts:
        return f"{purl} is not a principal (resourcetype {rts})"
    for what, prop, rtype in (("calendar", "{urn:ietf:params:xml:ns:caldav}calendar-home-set", "{urn:ietf:params:xml:ns:caldav}calendar"),
                              ("addressbook", "{urn:ietf:params:xml:ns:carddav}addressbook-home-set", "{urn:ietf:params:xml:ns:carddav}addressbook")):
        homes = hrefs_of(ms, prop)
        if not homes:
            return f"principal {purl}: no {what} home set"
        found = False
        for h in homes:
            hurl = resolve(purl, h)
            if hurl is None:
                return f"{what} home-set href {h!r} leaves the server"
            r2, ms2 = propfind(dep, hurl, "1")
            if ms2 is None:
                return f"{what} home set {h!r} -> PROPFIND {hurl} -> {r2['status']}"
            for resp in ms2.iter("{DAV:}response"):
                href = resp.find("{DAV:}href").text
                types = [c.tag for rt in resp.iter("{DAV:}resourcetype") for c in rt]
                if rtype in types:
                    curl = resolve(hurl, href)
                    if curl is None:
                        return f"{what} collection href {href!r} leaves the server"
                    r3, ms3 = propfind(dep, curl)
                    if ms3 is None:
                        return f"{what} collection href {href!r} -> PROPFIND {curl} -> {r3['status']}"
                    t3 = [c.tag for rt in ms3.iter("{DAV:}resourcetype") for c in rt]
                    if rtype not in t3:
                        return f"{curl} reached through {href!r} is not a {what} ({t3})"
                    if not curl.endswith("/"):
                        return f"{what} collection href {href!r} does not end in '/'"
                    found = True
                    dep.found.setdefault(what + "s", set()).add(curl)
                    if not curl.rstrip("/").endswith("provisioned"):
                        dep.found[what] = curl
        if not found:
            return f"no {what} collection reachable from {homes}"
    return None


def well_known(dep):
    from xandikos.web import WELLKNOWN_DAV_PATHS

    if dep.front == "aiohttp":
        from xandikos.web import RedirectDavHandler

        route_prefix = dep.script_name()
        loop = asyncio.new_event_loop()
        try:
            resp = loop.run_until_complete(RedirectDavHandler(route_prefix)(None))
        finally:
            loop.close()
        loc = resp.location
    else:
        from xandikos.wsgi_helpers import WellknownRedirector

        out = {}
        red = WellknownRedirector(lambda e, s: [b""], dep.url_root())
        red({"SCRIPT_NAME": "", "PATH_INFO": sorted(WELLKNOWN_DAV_PATHS)[0]}, lambda st, h: out.update(status=st, headers=dict(h)))
        loc = out.get("headers", {}).get("Location")
    if loc is None or resolve("/.well-known/caldav", loc) != dep.url_root():
        return f".well-known redirect points at {loc!r}, the service is at {dep.url_root()!r}"
    return None


def configurations():
    for front in ("wsgi", "aiohttp"):
        for prefix in ("/", "/dav", "/dav/", "/a/b/"):
            for principal in ("/user/", "/user", "/u/alice/", "/u/alice"):
                for restarts in ((), (True,), (False,), (False, True), (True, False)):
                    yield front, prefix, principal, restarts


def run_config(front, prefix, principal, restarts):
    if principal.startswith("/u/"):
        pass
    dep = Deployment(front, prefix, principal)
    dep.found = {}
    try:
        bad = walk(dep)
        if bad:
            return f"first start: {bad}"
        cal = dep.found["calendar"]
        # user data that was not created by this server process: a bare git repository pushed
        # into the calendar home set (served by BareGitStore)
        from xandikos.store import STORE_TYPE_CALENDAR
        from xandikos.store.git import BareGitStore

        home = os.path.dirname(cal.rstrip("/"))
        inner = home[len(dep.prefix.rstrip("/")):]
        bare = BareGitStore.create(os.path.join(dep.root, urllib.parse.unquote(inner).lstrip("/"), "provisioned"))
        bare.set_type(STORE_TYPE_CALENDAR)
        dep.found = {}
        bad = walk(dep)
        if bad:
            return f"with a provisioned bare calendar: {bad}"
        if not any(c.rstrip("/").endswith("provisioned") for c in dep.found.get("calendars", ())):
            return f"the provisioned bare calendar is not reachable from the home set listing (found {sorted(dep.found.get('calendars', ()))})"
        r = dep.request("PUT", cal + "keep.ics", {"Content-Type": "text/calendar"}, ICS)
        if r["status"] not in (201, 204):
            return f"PUT into the discovered calendar {cal} -> {r['status']} {r['body'][:100]!r}"
        # C01 / C13 under this front end: a repository's control directory is not a resource
        for method, target in (("GET", cal + ".git/"), ("DELETE", cal + ".git"), ("MKCOL", cal + ".git/x/")):
            rr = dep.request(method, target)
            if rr["status"] in (200, 201, 204, 207):
                return f"{method} {target} -> {rr['status']} (the collection's own git directory is served as a resource)"
        g = dep.request("GET", cal + "keep.ics")
        if g["status"] != 200:
            return f"after requests on {cal}.git: GET {cal}keep.ics -> {g['status']}"
        for i, flags in enumerate(restarts):
            dep.start(flags)
            dep.found = {}
            bad = walk(dep)
            if bad:
                return f"after restart {i + 1}: {bad}"
            if not any(c.rstrip("/").endswith("provisioned") for c in dep.found.get("calendars", ())):
                return f"after restart {i + 1}: the provisioned bare calendar is no longer listed"
            if dep.found["calendar"] != cal:
                return f"after restart {i + 1}: the calendar is now at {dep.found['calendar']} (was {cal})"
            g = dep.request("GET", cal + "keep.ics")
            if g["status"] != 200 or b"keep-me" not in g["body"]:
                return f"after restart {i + 1}: GET {cal}keep.ics -> {g['status']} (data written before the restart)"
        bad = well_known(dep)
        if bad:
            return bad
        return None
    finally:
        dep.close()


class Discovery:
    def bounded(self, req):
        logging.disable(logging.CRITICAL)
        quick = req.get("tier", "quick") == "quick"
        n = 0
        for cfg in configurations():
            if quick and len(cfg[3]) == 2:
                continue
            n += 1
            try:
                bad = run_config(*cfg)
            except Exception as e:
                import traceback

                bad = f"harness/server exception {type(e).__name__}: {e} {traceback.format_exc()[-400:]}"
            if bad:
                return {"failing": True, "tried": n,
                        "input": {"front_end": cfg[0], "route_prefix": cfg[1], "principal": cfg[2], "restarts": cfg[3]},
                        "expected": "root -> current-user-principal -> home sets -> Depth 1 reaches a calendar and an address book; data survives restarts",
                        "observed": bad}
        return {"failing": False, "tried": n,
                "bound": "2 front ends (web.main up to socket setup / import of xandikos.wsgi) x 4 route prefixes x 4 principal paths x restart sequences "
                         "(none, with flags, without flags[, both orders]) after a first start with --defaults, one PUT before the restarts"}

    def search(self, req):
        r = self.bounded(dict(req, tier="thorough"))
        return dict(r, reproduced=r.get("failing", False))

    def replay(self, req):
        i = req.get("input")
        if not i or "front_end" not in i:
            return self.search(req)
        logging.disable(logging.CRITICAL)
        bad = run_config(i["front_end"], i["route_prefix"], i["principal"], tuple(i.get("restarts", ())))
        return {"reproduced": True, "input": i, "observed": bad} if bad else {"reproduced": False}


if __name__ == "__main__":
    main({"*": Discovery()})
