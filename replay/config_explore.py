"""Bounded stand-in / replay for C15 (collection properties read back as written).

For every metadata back end (versioned .xandikos file in a tree-git / bare-git store, the
[xandikos] section of the repository's git config, the .xandikos file of a vdir), every
free-text property and every value of a text grammar with configuration-file metacharacters:
set the value, re-open the store (restart), read it back; a second collection and the members
of the first must be untouched; removing the property (None) makes it unset again."""
import itertools
import json
import logging
import os
import shutil
import sys
import tempfile

from common import main

PROPS = ["displayname", "description", "comment", "color"]

ATOMS = ["a", " ", "%", "%%", "%(color)s", '"', "'", "[x]", "#", "=", ":", ";", "é", "\\", "\t", "\n", "\n ", "\n#c"]


def values(tier):
    base = ["x", "a b", "50% off", "a%%b", "%(color)s", '"quoted"', "it's", "[section]", "#FF0000", "#FF0000AA", "a=b", "a:b", "a#b",
            "café ☃", "back\\slash", "a\tb", "x" * 300]
    multi = ["line1\nline2", "line1\n line2", "a\n\nb", "a\n#b", "a\n[b]", "a\nb = c"]
    semi = ["a;b", "a ;b"]
    out = [(v, "plain") for v in base] + [(v, "lf") for v in multi] + [(v, "semicolon") for v in semi]
    if tier != "quick":
        for t in itertools.product(ATOMS, repeat=2):
            v = "k" + "".join(t) + "z"
            out.append((v, "lf" if "\n" in v else "semicolon" if ";" in v else "plain"))
    return out


def make(backend, d):
    from xandikos.store.git import BareGitStore, TreeGitStore
    from xandikos.store.vdir import VdirStore

    if backend == "vdir":
        return VdirStore.create(d)
    if backend in ("tree-file", "tree-gitconfig"):
        s = TreeGitStore.create(d)
    else:
        s = BareGitStore.create(d)
    if backend.endswith("gitconfig"):
        use_git_config(s)
    return s


def use_git_config(store, store_type=b"calendar"):
    """Metadata is kept in the repository's own configuration once it has a [xandikos] section."""
    c = store.repo.get_config()
    c.set((b"xandikos",), b"type", store_type)
    c.write_to_path()
    from xandikos.store.git import RepoCollectionMetadata

    assert RepoCollectionMetadata.present(store.repo)


# ---------------------------------------------------------------------------- through HTTP
DAV, CALDAV, CARDDAV, APPLE, INFIT = "DAV:", "urn:ietf:params:xml:ns:caldav", "urn:ietf:params:xml:ns:carddav", "http://apple.com/ns/ical/", "http://inf-it.com/ns/ab/"
CAL, OTHER, AB = "/user/calendars/calendar/", "/user/calendars/other/", "/user/contacts/addressbook/"
HTTP_PROPS = [  # (collection, namespace, local name, value kind)
    (CAL, DAV, "displayname", "text"), (CAL, DAV, "comment", "text"), (CAL, APPLE, "calendar-color", "color"),
    (CAL, APPLE, "calendar-order", "order"), (AB, CARDDAV, "addressbook-description", "text"), (AB, INFIT, "addressbook-color", "color"),
    (AB, DAV, "displayname", "text"),
]


def http_values(kind, tier):
    if kind == "color":
        return [("#FF0000", "plain"), ("#FF0000AA", "plain"), ("#12345678", "plain"), ("#abcdef", "plain")]
    if kind == "order":
        return [("0", "plain"), ("7", "plain"), ("12345678901234567890", "plain")]
    vals_ = [("x", "plain"), ("50% off %(color)s %%", "plain"), ("\"q\" it's [s] a=b:c #d", "plain"), ("café ☃ <&>", "plain"),
             ("a;b", "semicolon"), ("line1\n line2", "lf")]
    if tier != "quick":
        vals_ += [(v, c) for v, c in values("quick") if c != "lf" and "\t" not in v]
    return vals_


class Http:
    def __init__(self, top, form):
        import io
        from xandikos.web import XandikosApp, XandikosBackend

        self.top, self.io = top, io
        self.start()
        self.backend.create_principal("/user/", create_defaults=True)
        r = self.request("MKCALENDAR", OTHER)
        assert r["status"] == 201, r
        if form == "gitconfig":
            for c in (CAL, OTHER, AB):
                use_git_config(self.backend.get_resource(c).store, b"addressbook" if c == AB else b"calendar")
        self.start()

    def start(self):
        """A fresh server process: new backend object, no cached stores."""
        from xandikos import web

        web.open_store_from_path.cache_clear()
        self.backend = web.XandikosBackend(self.top)
        self.backend._mark_as_principal("/user/")
        self.app = web.XandikosApp(self.backend, current_user_principal="/user/")

    def request(self, method, path, headers=None, body=b""):
        env = {"REQUEST_METHOD": method, "SCRIPT_NAME": "", "PATH_INFO": path, "SERVER_NAME": "localhost", "SERVER_PORT": "80",
               "wsgi.url_scheme": "http", "wsgi.input": self.io.BytesIO(body), "CONTENT_LENGTH": str(len(body)), "wsgi.errors": sys.stderr}
        for k, v in (headers or {}).items():
            if k.lower() == "content-type":
                env["CONTENT_TYPE"] = v
            else:
                env["HTTP_" + k.upper().replace("-", "_")] = v
        out = {}
        try:
            out["body"] = b"".join(self.app.handle_wsgi_request(env, lambda st, h, e=None: out.update(status=int(st.split()[0]), headers=dict(h))))
        except Exception as e:
            out.update(status=500, body=f"{type(e).__name__}: {e}".encode())
        return out

    def _prop_status(self, r, ns, name):
        """-> (status code of the propstat that carries the property, its text)"""
        from xml.etree import ElementTree as ET

        if r["status"] != 207:
            return r["status"], None
        for ps in ET.fromstring(r["body"]).iter("{DAV:}propstat"):
            el = ps.find("{DAV:}prop/{%s}%s" % (ns, name))
            if el is not None:
                return int(ps.find("{DAV:}status").text.split()[1]), el.text
        return None, None

    def proppatch(self, coll, ns, name, value):
        from xml.sax.saxutils import escape

        inner = (f"<D:set><D:prop><X:{name}>{escape(value)}</X:{name}></D:prop></D:set>" if value is not None
                 else f"<D:remove><D:prop><X:{name}/></D:prop></D:remove>")
        body = f'<?xml version="1.0" encoding="utf-8"?><D:propertyupdate xmlns:D="DAV:" xmlns:X="{ns}">{inner}</D:propertyupdate>'.encode("utf-8")
        return self._prop_status(self.request("PROPPATCH", coll, {"Content-Type": "text/xml; charset=utf-8"}, body), ns, name)[0]

    def propfind(self, coll, ns, name):
        body = f'<?xml version="1.0" encoding="utf-8"?><D:propfind xmlns:D="DAV:" xmlns:X="{ns}"><D:prop><X:{name}/></D:prop></D:propfind>'.encode()
        st, text = self._prop_status(self.request("PROPFIND", coll, {"Content-Type": "text/xml", "Depth": "0"}, body), ns, name)
        return text if st == 200 else None


def run_http_case(form, coll, ns, name, value):
    top = tempfile.mkdtemp(prefix="verif-cfg-http-")
    try:
        h = Http(top, form)
        assert h.request("PUT", CAL + "m.ics", {"Content-Type": "text/calendar"}, ICS)["status"] in (201, 204)
        member = h.request("GET", CAL + "m.ics")["body"]
        others = {(c, n_, p): h.propfind(c, n_, p) for (c, n_, p, k) in HTTP_PROPS if (c, n_, p) != (coll, ns, name)}
        others[(OTHER, ns, name)] = h.propfind(OTHER, ns, name)
        what = f"PROPPATCH {coll} set {name}={value!r}"
        h.propfind(coll, ns, name)   # read first (same server process, same cached store object)
        st = h.proppatch(coll, ns, name, value)
        if st != 200:
            return None if st in (403, 409, 422, 507) else f"{what} -> status {st} for the property"   # refused is not success
        got = h.propfind(coll, ns, name)
        if got != value:
            return f"{what} reported 200; PROPFIND -> {got!r}"
        h.start()
        got = h.propfind(coll, ns, name)
        if got != value:
            return f"{what} reported 200; restart; PROPFIND -> {got!r}"
        for (c, n_, p), before in others.items():
            if h.propfind(c, n_, p) != before:
                return f"{what} changed {p} of {c}: {before!r} -> {h.propfind(c, n_, p)!r}"
        if h.request("GET", CAL + "m.ics")["body"] != member:
            return f"{what} changed a member"
        st = h.proppatch(coll, ns, name, None)
        if st == 200:
            h.start()
            after = h.propfind(coll, ns, name)
            if after not in (None, ""):
                return f"after a successful remove of {name} PROPFIND -> {after!r}"
        return None
    finally:
        shutil.rmtree(top, ignore_errors=True)


def reopen(backend, d):
    from xandikos.store.git import GitStore
    from xandikos.store.vdir import VdirStore

    if backend == "vdir":
        return VdirStore.open_from_path(d)
    return GitStore.open_from_path(d)


def uses_file(backend):
    return backend in ("tree-file", "bare-file", "vdir")


ICS = (b"BEGIN:VCALENDAR\r\nVERSION:2.0\r\nPRODID:x\r\nBEGIN:VEVENT\r\nUID:u1\r\nDTSTAMP:20240101T000000Z\r\n"
       b"DTSTART:20240101T000000Z\r\nSUMMARY:s\r\nEND:VEVENT\r\nEND:VCALENDAR\r\n")


def getter(store, prop):
    try:
        return getattr(store, "get_" + prop)()
    except KeyError:
        return None


def run_case(backend, prop, value):
    top = tempfile.mkdtemp(prefix="verif-cfg-")
    try:
        d1, d2 = os.path.join(top, "c1"), os.path.join(top, "c2")
        s1, s2 = make(backend, d1), make(backend, d2)
        if uses_file(backend) and backend != "vdir":
            # the versioned metadata file comes into use once it exists: create it with another property
            s1.config.set_comment("seed") if prop != "comment" else s1.config.set_description("seed")
            s2.config.set_comment("seed") if prop != "comment" else s2.config.set_description("seed")
        from xandikos.icalendar import ICalendarFile

        s1.load_extra_file_handler(ICalendarFile)
        s1.import_one("m.ics", "text/calendar", [ICS])
        members_before = sorted(s1.iter_with_etag())
        other_before = getter(s2, prop)
        getter(s1, prop)   # a read before the write: whatever a getter may remember must not outlive the next set
        try:
            getattr(s1, "set_" + prop)(value)
        except Exception as e:
            return f"set_{prop}({value!r}) raised {type(e).__name__}: {e}"
        got_now = getter(s1, prop)
        s1b = reopen(backend, d1)
        got = getter(s1b, prop)
        if got_now != value:
            return f"set_{prop}({value!r}); get_{prop}() -> {got_now!r}"
        if got != value:
            return f"set_{prop}({value!r}); restart; get_{prop}() -> {got!r}"
        s1b.load_extra_file_handler(ICalendarFile)
        if sorted(s1b.iter_with_etag()) != members_before:
            return f"set_{prop}({value!r}) changed the members: {sorted(s1b.iter_with_etag())} (before {members_before})"
        if getter(reopen(backend, d2), prop) != other_before:
            return f"set_{prop}({value!r}) on one collection changed {prop} of another one"
        try:
            getattr(s1b, "set_" + prop)(None)
        except Exception as e:
            return f"set_{prop}(None) raised {type(e).__name__}: {e}"
        after = getter(reopen(backend, d1), prop)
        if after not in (None, ""):
            return f"after removing {prop} it reads {after!r}"
        return None
    finally:
        shutil.rmtree(top, ignore_errors=True)


def known_classes():
    try:
        with open(os.path.join(os.path.dirname(os.path.dirname(os.path.abspath(__file__))), "known_findings.json")) as f:
            return {k.get("witness") for k in json.load(f) if k.get("kind") == "known" and k.get("property") == "C15"}
    except FileNotFoundError:
        return set()


class Explore:
    def bounded(self, req):
        logging.disable(logging.CRITICAL)
        tier = req.get("tier", "quick")
        known = known_classes()
        seen_known = set()
        n = 0
        for backend in ("tree-file", "tree-gitconfig", "bare-file"):
            for prop in PROPS:
                for value, cls in values(tier):
                    if ";" in value and backend == "tree-gitconfig":
                        continue  # excluded by the property's quantifier (dulwich config writer truncates at ';')
                    if prop == "color" and not (value.startswith("#") and len(value) in (7, 9)):
                        continue
                    n += 1
                    bad = run_case(backend, prop, value)
                    if bad:
                        w = f"c15:{cls}:{'file' if uses_file(backend) else 'gitconfig'}"
                        if w in known:
                            seen_known.add(w)
                            continue
                        return {"failing": True, "tried": n, "input": {"backend": backend, "property": prop, "value": value},
                                "expected": "the value that was set is read back (also after a restart); nothing else changes", "observed": bad}
        # ... and through the protocol: PROPPATCH / PROPFIND / restart on a served calendar and address book
        for form in ("file", "gitconfig"):
            for (coll, ns, name, kind) in HTTP_PROPS:
                for value, cls in http_values(kind, tier):
                    if ";" in value and form == "gitconfig":
                        continue
                    n += 1
                    try:
                        bad = run_http_case(form, coll, ns, name, value)
                    except AssertionError as e:
                        return {"error": f"harness: set-up of the HTTP case failed: {e!r}"}
                    if bad:
                        w = f"c15:{cls}:{form}"
                        if w in known:
                            seen_known.add(w)
                            continue
                        return {"failing": True, "tried": n, "input": {"http": True, "form": form, "collection": coll, "namespace": ns, "property": name, "value": value},
                                "expected": "PROPFIND returns the value a successful PROPPATCH set (also after a restart); nothing else changes", "observed": bad}
        return {"failing": False, "tried": n, "known": sorted(seen_known),
                "bound": "store level: 3 metadata back ends (versioned .xandikos file in tree-git and bare-git, git config section) x 4 free-text properties x value grammar (quick: 25 values; thorough: + 18^2 two-atom combinations of metacharacters); "
                         "HTTP level: PROPPATCH / PROPFIND / restart / remove of displayname, comment, calendar-color, calendar-order, addressbook-description, addressbook-color on a served calendar and address book, both metadata forms, "
                         "values with metacharacters, #RRGGBB and #RRGGBBAA colours, decimal orders"}

    def search(self, req):
        r = self.bounded(req)
        return dict(r, reproduced=r.get("failing", False))

    def replay(self, req):
        i = req.get("input")
        if i and i.get("http"):
            logging.disable(logging.CRITICAL)
            bad = run_http_case(i["form"], i["collection"], i["namespace"], i["property"], i["value"])
            return {"reproduced": True, "input": i, "observed": bad} if bad else {"reproduced": False}
        if not i or "backend" not in i:
            return self.search(req)
        logging.disable(logging.CRITICAL)
        bad = run_case(i["backend"], i["property"], i["value"])
        return {"reproduced": True, "input": i, "observed": bad} if bad else {"reproduced": False}


if __name__ == "__main__":
    main({"*": Explore()})
