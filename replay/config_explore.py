"""Bounded stand-in / replay for C15 (collection properties read back as written).

For every metadata back end (versioned .xandikos file in a tree-git / bare-git store, the
[xandikos] section of the repository's git config, the .xandikos file of a vdir), every
free-text property and every value of a text grammar with configuration-file metacharacters:
set the value, re-open the store (restart), read it back; a second collection and the members
of the first must be untouched; removing the property (None) makes it unset again."""
import itertools
import json
import logging
import os
import shutil
import sys
import tempfile

from common import main

PROPS = ["displayname", "description", "comment", "color"]

ATOMS = ["a", " ", "%", "%%", "%(color)s", '"', "'", "[x]", "#", "=", ":", ";", "é", "\\", "\t", "\n", "\n ", "\n#c"]


def values(tier):
    base = ["x", "a b", "50% off", "a%%b", "%(color)s", '"quoted"', "it's", "[section]", "#FF0000", "#FF0000AA", "a=b", "a:b", "a#b",
            "café ☃", "back\\slash", "a\tb", "x" * 300]
    multi = ["line1\nline2", "line1\n line2", "a\n\nb", "a\n#b", "a\n[b]", "a\nb = c"]
    semi = ["a;b", "a ;b"]
    out = [(v, "plain") for v in base] + [(v, "lf") for v in multi] + [(v, "semicolon") for v in semi]
    if tier != "quick":
        for t in itertools.product(ATOMS, repeat=2):
            v = "k" + "".join(t) + "z"
            out.append((v, "lf" if "\n" in v else "semicolon" if ";" in v else "plain"))
    return out


def make(backend, d):
    from xandikos.store.git import BareGitStore, TreeGitStore
    from xandikos.store.vdir import VdirStore

    if backend == "vdir":
        return VdirStore.create(d)
    if backend in ("tree-file", "tree-gitconfig"):
        s = TreeGitStore.create(d)
    else:
        s = BareGitStore.create(d)
    return s


def reopen(backend, d):
    from xandikos.store.git import GitStore
    from xandikos.store.vdir import VdirStore

    if backend == "vdir":
        return VdirStore.open_from_path(d)
    return GitStore.open_from_path(d)


def uses_file(backend):
    return backend in ("tree-file", "bare-file", "vdir")


ICS = (b"BEGIN:VCALENDAR\r\nVERSION:2.0\r\nPRODID:x\r\nBEGIN:VEVENT\r\nUID:u1\r\nDTSTAMP:20240101T000000Z\r\n"
       b"DTSTART:20240101T000000Z\r\nSUMMARY:s\r\nEND:VEVENT\r\nEND:VCALENDAR\r\n")


def getter(store, prop):
    try:
        return getattr(store, "get_" + prop)()
    except KeyError:
        return None


def run_case(backend, prop, value):
    top = tempfile.mkdtemp(prefix="verif-cfg-")
    try:
        d1, d2 = os.path.join(top, "c1"), os.path.join(top, "c2")
        s1, s2 = make(backend, d1), make(backend, d2)
        if uses_file(backend) and backend != "vdir":
            # the versioned metadata file comes into use once it exists: create it with another property
            s1.config.set_comment("seed") if prop != "comment" else s1.config.set_description("seed")
            s2.config.set_comment("seed") if prop != "comment" else s2.config.set_description("seed")
        from xandikos.icalendar import ICalendarFile

        s1.load_extra_file_handler(ICalendarFile)
        s1.import_one("m.ics", "text/calendar", [ICS])
        members_before = sorted(s1.iter_with_etag())
        other_before = getter(s2, prop)
        try:
            getattr(s1, "set_" + prop)(value)
        except Exception as e:
            return f"set_{prop}({value!r}) raised {type(e).__name__}: {e}"
        got_now = getter(s1, prop)
        s1b = reopen(backend, d1)
        got = getter(s1b, prop)
        if got_now != value:
            return f"set_{prop}({value!r}); get_{prop}() -> {got_now!r}"
        if got != value:
            return f"set_{prop}({value!r}); restart; get_{prop}() -> {got!r}"
        s1b.load_extra_file_handler(ICalendarFile)
        if sorted(s1b.iter_with_etag()) != members_before:
            return f"set_{prop}({value!r}) changed the members: {sorted(s1b.iter_with_etag())} (before {members_before})"
        if getter(reopen(backend, d2), prop) != other_before:
            return f"set_{prop}({value!r}) on one collection changed {prop} of another one"
        try:
            getattr(s1b, "set_" + prop)(None)
        except Exception as e:
            return f"set_{prop}(None) raised {type(e).__name__}: {e}"
        after = getter(reopen(backend, d1), prop)
        if after not in (None, ""):
            return f"after removing {prop} it reads {after!r}"
        return None
    finally:
        shutil.rmtree(top, ignore_errors=True)


def known_classes():
    try:
        with open(os.path.join(os.path.dirname(os.path.dirname(os.path.abspath(__file__))), "known_findings.json")) as f:
            return {k.get("witness") for k in json.load(f) if k.get("kind") == "known" and k.get("property") == "C15"}
    except FileNotFoundError:
        return set()


class Explore:
    def bounded(self, req):
        logging.disable(logging.CRITICAL)
        tier = req.get("tier", "quick")
        known = known_classes()
        seen_known = set()
        n = 0
        for backend in ("tree-file", "tree-gitconfig", "bare-file"):
            for prop in PROPS:
                for value, cls in values(tier):
                    if cls == "semicolon" and backend == "tree-gitconfig":
                        continue  # excluded by the property's quantifier (dulwich config writer)
                    if prop == "color" and not (value.startswith("#") and len(value) in (7, 9)):
                        continue
                    n += 1
                    bad = run_case(backend, prop, value)
                    if bad:
                        w = f"c15:{cls}:{'file' if uses_file(backend) else 'gitconfig'}"
                        if w in known:
                            seen_known.add(w)
                            continue
                        return {"failing": True, "tried": n, "input": {"backend": backend, "property": prop, "value": value},
                                "expected": "the value that was set is read back (also after a restart); nothing else changes", "observed": bad}
        return {"failing": False, "tried": n, "known": sorted(seen_known),
                "bound": "3 metadata back ends (versioned .xandikos file in tree-git and bare-git, git config section) x 4 free-text properties x value grammar (quick: 25 values; thorough: + 18^2 two-atom combinations of metacharacters)"}

    def search(self, req):
        r = self.bounded(req)
        return dict(r, reproduced=r.get("failing", False))

    def replay(self, req):
        i = req.get("input")
        if not i or "backend" not in i:
            return self.search(req)
        logging.disable(logging.CRITICAL)
        bad = run_case(i["backend"], i["property"], i["value"])
        return {"reproduced": True, "input": i, "observed": bad} if bad else {"reproduced": False}


if __name__ == "__main__":
    main({"*": Explore()})
