"""Native replay of a store history on the real code (run with /venv/bin/python).

input (JSON on stdin or file argv[1]):
  {"backend": "tree-git"|"bare-git"|"memory-git"|"vdir", "ops": [[op, args...], ...]}
ops: ["import_one", name, content_type, text, replace_etag?], ["delete_one", name, etag?],
     ["restart"], ["list"], ["get", name], ["ctag"]
output: JSON list of per-op outcomes + final listing.
"""
import json
import os
import shutil
import sys
import tempfile

sys.path.insert(0, os.environ.get("VERIF_REPO", "/repo"))


def ics(uid, summary="s", comp="VEVENT", extra=""):
    u = f"UID:{uid}\r\n" if uid is not None else ""
    return (f"BEGIN:VCALENDAR\r\nVERSION:2.0\r\nPRODID:-//x//y//EN\r\nBEGIN:{comp}\r\n{u}"
            f"DTSTAMP:20200101T000000Z\r\nDTSTART:20200101T000000Z\r\nSUMMARY:{summary}\r\n{extra}END:{comp}\r\nEND:VCALENDAR\r\n")


def open_store(backend, path, create):
    from xandikos.store.git import BareGitStore, TreeGitStore, GitStore
    from xandikos.store.vdir import VdirStore
    from xandikos.icalendar import ICalendarFile
    from xandikos.vcard import VCardFile

    if backend == "tree-git":
        s = TreeGitStore.create(path) if create else GitStore.open_from_path(path)
    elif backend == "bare-git":
        s = BareGitStore.create(path) if create else GitStore.open_from_path(path)
    elif backend == "memory-git":
        s = BareGitStore.create_memory()
    elif backend == "vdir":
        s = VdirStore.create(path) if create else VdirStore.open_from_path(path)
    else:
        raise ValueError(backend)
    s.load_extra_file_handler(ICalendarFile)
    s.load_extra_file_handler(VCardFile)
    return s


def run(spec):
    d = tempfile.mkdtemp(prefix="verif-replay-")
    path = os.path.join(d, "c")
    out = []
    try:
        s = open_store(spec["backend"], path, True)
        for op in spec["ops"]:
            kind = op[0]
            try:
                if kind == "import_one":
                    name, ct, text = op[1], op[2], op[3]
                    if isinstance(text, dict):
                        text = ics(**text)
                    r = s.import_one(name, ct, [text.encode("utf-8")], replace_etag=op[4] if len(op) > 4 else None)
                    out.append({"ok": list(r)})
                elif kind == "delete_one":
                    s.delete_one(op[1], etag=op[2] if len(op) > 2 else None)
                    out.append({"ok": None})
                elif kind == "restart":
                    if spec["backend"] != "memory-git":
                        s = open_store(spec["backend"], path, False)
                    out.append({"ok": None})
                elif kind == "list":
                    out.append({"ok": sorted([list(x) for x in s.iter_with_etag()])})
                elif kind == "get":
                    out.append({"ok": b"".join(s._get_raw(op[1], op[2] if len(op) > 2 else None)).decode("utf-8")})
                elif kind == "ctag":
                    out.append({"ok": s.get_ctag()})
                elif kind == "changes":
                    out.append({"ok": sorted([list(x) for x in s.iter_changes(op[1], op[2])])})
                else:
                    out.append({"error": "unknown op"})
            except Exception as e:  # the outcome *is* the observation
                out.append({"raised": type(e).__name__, "args": [repr(a) for a in getattr(e, "args", [])][:3]})
        final = sorted([list(x) for x in s.iter_with_etag()])
    finally:
        shutil.rmtree(d, ignore_errors=True)
    return {"outcomes": out, "final": final}


if __name__ == "__main__":
    spec = json.load(open(sys.argv[1])) if len(sys.argv) > 1 else json.load(sys.stdin)
    json.dump(run(spec), sys.stdout, indent=1)
