"""Native replay / bounded stand-in for the calendar filter layer (C11).

The oracle is contracts/icalendar_filters.py + icalendar_timerange.py executed natively:
the ghost predicates (cnode_match, pnode_match, ...) are bound to the specification functions
of the level below, so the *same text* the verifier uses decides what a filter tree must
answer for a real icalendar object; the real xandikos classes give the observed answer."""
import datetime
import itertools
import random
import sys

from common import load_specs, main

UTC = datetime.timezone.utc
BASE = datetime.datetime(2024, 1, 10, 12, 0, tzinfo=UTC)


def tzify(dt):
    from xandikos.icalendar import as_tz_aware_ts

    return as_tz_aware_ts(dt, UTC)


def ts(dt):
    return int((tzify(dt) - BASE).total_seconds())


class _D:
    def __init__(self, raw):
        self.raw = raw
        self.time = 1 if isinstance(raw, datetime.datetime) else None


class _P:
    def __init__(self, prop):
        self.dt = _D(prop.dt)


def natives():
    ns = {}

    def is_instance(n, qual):
        return type(n).__module__ + "." + type(n).__name__ == qual

    def prop_of(comp, name):
        p = comp.get(name)
        return None if p is None else _P(p)

    def cnode_match(n, c):
        if type(n).__name__ == "ComponentFilter":
            return ns["cf_spec"](n, c)
        return ns["pf_spec"](n, c)

    def pnode_match(ch, p):
        if type(ch).__name__ == "ParameterFilter":
            return ns["param_spec"](ch, p)
        cats = getattr(p, "cats", None)
        if cats is not None:
            return ns["tm_spec_category"](ch, [str(c) for c in cats])
        return ns["tm_spec"](ch, str(p))

    def ctr_match(tr, comp):
        return ns["ctr_spec"](ts(tr.start), ts(tr.end), comp)

    ns.update({
        "is_instance": is_instance,
        "prop_of": prop_of,
        "ts_of": lambda d: ts(d.raw),
        "seconds": lambda d: int(d.raw.total_seconds()),
        "cnode_match": cnode_match,
        "pnode_match": pnode_match,
        "vnode_match": lambda ch, v: ns["tm_spec"](ch, v),
        "ctr_match": ctr_match,
        "ctr_raises": lambda tr, c: False,
        "ptr_match": lambda tr, p: ns["ptr_spec"](ts(tr.start), ts(tr.end), ts(p.dt)),
        "comp_prop": lambda comp, name: comp.get(name),
        "param_of": lambda params, name: params.get(name),
        "collate": lambda c, a, b, k: c(a, b, k),
        "forall": lambda kind, f: True,
        "exists": lambda kind, f: True,
        "view": lambda *a, **k: None,
    })
    return ns


_NS = None


def spec():
    global _NS
    if _NS is None:
        a = natives()                 # the ghost natives look spec functions up in this dict
        b = load_specs("contracts/icalendar_timerange.py", a)
        c = load_specs("contracts/icalendar_filters.py", b)
        a.update(c)
        a["__filters_ns__"] = c
        a["__rfc_text_hit__"] = c["text_hit"]
        for name in ("cf_spec", "pf_spec", "param_spec", "tm_spec", "tm_spec_category", "ctr_spec", "ptr_spec"):
            assert name in a, name
        _NS = a
    return _NS


# ---------------------------------------------------------------------------- inputs
def cal(*comps):
    body = "".join(comps)
    return ("BEGIN:VCALENDAR\r\nVERSION:2.0\r\nPRODID:-//x//y//EN\r\n" + body + "END:VCALENDAR\r\n").encode()


def vevent(uid="e1", dtstart="20240110T120000Z", extra=""):
    return f"BEGIN:VEVENT\r\nUID:{uid}\r\nDTSTAMP:20240101T000000Z\r\nDTSTART:{dtstart}\r\n{extra}END:VEVENT\r\n"


def vtodo(uid="t1", extra=""):
    return f"BEGIN:VTODO\r\nUID:{uid}\r\nDTSTAMP:20240101T000000Z\r\n{extra}END:VTODO\r\n"


CALENDARS = {
    "empty": cal(),
    "event": cal(vevent(extra="SUMMARY:Team meeting\r\nCATEGORIES:work\r\n")),
    "event+todo": cal(vevent(extra="SUMMARY:meeting\r\n"), vtodo(extra="SUMMARY:buy milk\r\nDUE:20240111T120000Z\r\n")),
    "todo": cal(vtodo(extra="SUMMARY:meeting\r\nCATEGORIES:home,work\r\nCREATED;X-P=v1:20240110T130000Z\r\n")),
    "two-events": cal(vevent("e1", "20240110T120000Z", "SUMMARY:alpha\r\n"), vevent("e2", "20240112T120000Z", "SUMMARY:meeting\r\n")),
    "alarm": cal(vevent(extra="SUMMARY:x\r\nBEGIN:VALARM\r\nACTION:DISPLAY\r\nTRIGGER:-PT5M\r\nDESCRIPTION:meeting\r\nEND:VALARM\r\n")),
}

T = {"a": "20240110T110000Z", "b": "20240110T120000Z", "c": "20240110T130000Z", "d": "20240111T120000Z"}


def filter_xmls():
    """A grammar of CALDAV:filter documents (as text)."""
    NS = "xmlns:C='urn:ietf:params:xml:ns:caldav'"
    leaves_prop = [
        "",
        "<C:is-not-defined/>",
        "<C:text-match>meeting</C:text-match>",
        "<C:text-match negate-condition='yes'>meeting</C:text-match>",
        "<C:text-match>work</C:text-match>",
        "<C:text-match negate-condition='yes'>work</C:text-match>",
        "<C:text-match collation='i;octet'>Meeting</C:text-match>",
        f"<C:time-range start='{T['a']}' end='{T['c']}'/>",
        f"<C:time-range start='{T['a']}' end='{T['b']}'/>",
        f"<C:time-range start='{T['c']}' end='{T['d']}'/>",
        "<C:param-filter name='X-P'/>",
        "<C:param-filter name='X-P'><C:is-not-defined/></C:param-filter>",
        "<C:param-filter name='X-P'><C:text-match>v1</C:text-match></C:param-filter>",
        "<C:param-filter name='X-P'><C:text-match>v2</C:text-match></C:param-filter>",
    ]
    # time-range only on date-valued properties, text-match only on text-valued ones
    props = [f"<C:prop-filter name='{n}'>{l}</C:prop-filter>" for n in ("SUMMARY", "CATEGORIES", "CREATED", "DUE", "DTSTART")
             for l in leaves_prop
             if not ("time-range" in l and n in ("SUMMARY", "CATEGORIES"))
             and not (l.startswith("<C:text-match") and n in ("CREATED", "DUE", "DTSTART"))]
    inner = ["", "<C:is-not-defined/>",
             f"<C:time-range start='{T['a']}' end='{T['c']}'/>",
             f"<C:time-range start='{T['c']}' end='{T['d']}'/>",
             f"<C:time-range start='{T['a']}' end='{T['b']}'/>",
             "<C:comp-filter name='VALARM'/>", "<C:comp-filter name='VALARM'><C:is-not-defined/></C:comp-filter>"] + props
    out = []
    for cname in ("VEVENT", "VTODO", "VJOURNAL"):
        for i in inner:
            out.append(f"<C:filter {NS}><C:comp-filter name='VCALENDAR'><C:comp-filter name='{cname}'>{i}</C:comp-filter></C:comp-filter></C:filter>")
    out.append(f"<C:filter {NS}><C:comp-filter name='VCALENDAR'/></C:filter>")
    out.append(f"<C:filter {NS}><C:comp-filter name='VCALENDAR'><C:is-not-defined/></C:comp-filter></C:filter>")
    out.append(f"<C:filter {NS}><C:comp-filter name='VTODO'/></C:filter>")
    return out


def build(xml):
    from xandikos import caldav
    from xandikos.icalendar import CalendarFilter
    from xml.etree import ElementTree as ET

    el = ET.fromstring(xml)
    return caldav.parse_filter(el, CalendarFilter(UTC))


def expected(flt, calendar, equality=False):
    """What the filter must answer (contracts/icalendar_filters.py read natively).  With
    equality=True the text-match primitive is the one xandikos implements (equality under the
    collation) instead of RFC 4791's substring: used only to classify the recorded finding."""
    ns = spec()
    c = ns["__filters_ns__"]
    c["text_hit"] = (lambda tm, value: tm.collation(tm.text, value, "equals")) if equality else ns["__rfc_text_hit__"]
    try:
        return all(ns["cf_spec"](ch, calendar) for ch in flt.children)
    finally:
        c["text_hit"] = ns["__rfc_text_hit__"]


def check_case(xml, calname):
    from xandikos.icalendar import ICalendarFile

    f = ICalendarFile([CALENDARS[calname]], "text/calendar")
    try:
        flt = build(xml)
    except Exception as e:  # a well-formed RFC 4791 filter must parse
        return {"input": {"filter": xml, "calendar": calname}, "expected": "the filter is accepted (RFC 4791 9.7 grammar)",
                "observed": f"parse_filter raised {type(e).__name__}: {e}"}
    try:
        exp = expected(flt, f.calendar)
    except Exception as e:
        return {"error": f"oracle failed on {xml} / {calname}: {type(e).__name__}: {e}"}
    try:
        got = flt.check("x.ics", f)
    except Exception as e:
        got = f"raised {type(e).__name__}: {e}"
    if got != exp:
        bad = {"input": {"filter": xml, "calendar": calname}, "expected": exp, "observed": got}
        if "text-match" in xml and got == expected(flt, f.calendar, equality=True):
            bad["witness"] = "equals_not_substring"
        return bad
    return None


class Filters:
    def cases(self, seed, limit):
        xs = [(x, c) for x in filter_xmls() for c in CALENDARS]
        random.Random(seed).shuffle(xs)
        return xs[:limit] if limit else xs

    def bounded(self, req):
        quick = req.get("tier", "quick") == "quick"
        known = set(req.get("known", []))
        n = 0
        for x, c in self.cases(int(req.get("seed", 0) or 0), None):
            n += 1
            bad = check_case(x, c)
            if bad and "error" in bad:
                return bad
            if bad and not is_known(bad):
                return dict(bad, failing=True, tried=n)
        return {"failing": False, "tried": n, "bound": "filter grammar (3 component types x 77 inner forms) x 6 calendar objects"}

    def search(self, req):
        r = self.bounded(dict(req, tier="thorough"))
        return dict(r, reproduced=r.get("failing", False))

    def replay(self, req):
        i = req.get("input")
        if not i or "filter" not in i:
            return self.search(req)
        bad = check_case(i["filter"], i["calendar"])
        return dict(bad, reproduced=True) if bad else {"reproduced": False}


def is_known(bad):
    """The recorded finding 'text-match compares for equality instead of substring': the
    observed answer is exactly what the specification gives with equality as the text
    primitive (and differs from the RFC answer)."""
    import json
    import os

    if bad.get("witness") != "equals_not_substring":
        return False
    try:
        with open(os.path.join(os.path.dirname(os.path.dirname(os.path.abspath(__file__))), "known_findings.json")) as f:
            return any(k.get("kind") == "known" and k.get("witness") == "equals_not_substring" for k in json.load(f))
    except FileNotFoundError:
        return False


if __name__ == "__main__":
    main({"*": Filters()})
