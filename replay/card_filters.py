"""Native replay / bounded stand-in for addressbook-query (C12).

Oracle: contracts/collation.py + contracts/carddav_filters.py executed natively over real
vobject cards (the ghost predicates bound to the specification functions of the level below).
Observed: a REPORT addressbook-query through the WSGI application, i.e. including the report
driver (nresults, address-data) and the way a stored card is turned into properties."""
import itertools
import logging
import os
import random
import shutil
import sys
import tempfile
import io
from xml.etree import ElementTree as ET

from common import load_specs, main

NS = "urn:ietf:params:xml:ns:carddav"
_ASCII_UP = {c: c - 32 for c in range(ord("a"), ord("z") + 1)}


def natives():
    ns = {}
    ns.update({
        "xml_attr": lambda el, name: el.get(name),
        "ascii_fold": lambda s: s.translate(_ASCII_UP),
        "is_ascii": lambda s: all(ord(c) < 128 for c in s),
        "sub_ok": lambda subel, prop: ns["sub_matches_def"](subel, prop),
        "inst_ok": lambda el, prop: ns["instance_matches_def"](el, prop),
        "card_of": lambda r: r,
        "forall": lambda *a: True,
        "view": lambda *a, **k: None,
    })
    return ns


_NS = None


def spec():
    global _NS
    if _NS is None:
        a = natives()
        b = load_specs("contracts/collation.py", a)
        c = load_specs("contracts/carddav_filters.py", b)
        a.update(c)
        # what a text-match is applied to: the property value (RFC 6352 10.5.4)
        c["rendered"] = lambda prop: prop.value if isinstance(prop.value, str) else str(prop.value)
        a["rendered"] = c["rendered"]
        _NS = a
    return _NS


def card(fn, extra=""):
    return (f"BEGIN:VCARD\r\nVERSION:3.0\r\nFN:{fn}\r\nN:{fn.split(' ')[-1]};{fn.split(' ')[0]};;;\r\n{extra}END:VCARD\r\n").encode()


LONG = "A very long note about John whose content line is certainly folded by the serialiser because it is far longer than seventy-five octets"
CARDS = {
    "john.vcf": card("John Doe", "EMAIL;TYPE=work:john@example.com\r\nNICKNAME:Johnny\r\n"),
    "jane.vcf": card("Jane Roe", "EMAIL;TYPE=home:jane@example.org\r\nEMAIL;TYPE=work:jr@corp.example\r\n"),
    "zoe.vcf": card("Zoë Ångström", "NOTE:likes a\\, b\\; and c\r\n"),
    "long.vcf": card("Long Note", f"NOTE:{LONG}\r\n"),
    "bare.vcf": card("Bare Card"),
    # a parameter with several values: a param-filter matches when one of the values does
    "multi.vcf": card("Multi Tel", "TEL;TYPE=HOME,VOICE:+1-555-0100\r\nTEL;TYPE=CELL:+1-555-0199\r\n"),
}


def filters():
    def tm(text, mt=None, coll=None, neg=False):
        a = ""
        if mt:
            a += f" match-type='{mt}'"
        if coll:
            a += f" collation='{coll}'"
        if neg:
            a += " negate-condition='yes'"
        return f"<C:text-match{a}>{text}</C:text-match>"

    leaves = {
        "FN": [tm("john"), tm("John", "equals"), tm("John Doe", "equals"), tm("john doe", "equals", "i;octet"), tm("John", "starts-with"),
               tm("Doe", "ends-with"), tm("oe", "contains"), tm("jane", neg=True), tm("zoë", "starts-with"), tm("ZOË", "equals", "i;unicode-casemap"),
               tm("ångström", "ends-with", "i;unicode-casemap")],
        "EMAIL": ["", "<C:is-not-defined/>", tm("example.com", "ends-with"), tm("corp", "contains"),
                  "<C:param-filter name='TYPE'><C:text-match>work</C:text-match></C:param-filter>",
                  "<C:param-filter name='TYPE'><C:text-match match-type='equals'>home</C:text-match></C:param-filter>",
                  "<C:param-filter name='X-NONE'><C:is-not-defined/></C:param-filter>",
                  tm("jane", "starts-with") + "<C:param-filter name='TYPE'><C:text-match>work</C:text-match></C:param-filter>"],
        "NOTE": ["", "<C:is-not-defined/>", tm("a, b; and c", "ends-with"), tm("b; and", "contains"), tm("serialiser because it is far longer", "contains"),
                 tm("seventy-five octets", "ends-with"), tm("A very long", "starts-with")],
        "NICKNAME": ["", "<C:is-not-defined/>", tm("johnny", "equals")],
        "TEL": ["", "<C:param-filter name='TYPE'>" + tm("voice", "equals") + "</C:param-filter>",
                "<C:param-filter name='TYPE'>" + tm("vo", "starts-with") + "</C:param-filter>",
                "<C:param-filter name='TYPE'>" + tm("me", "ends-with") + "</C:param-filter>",
                "<C:param-filter name='TYPE'>" + tm("home", "contains", neg=True) + "</C:param-filter>",
                "<C:param-filter name='TYPE'>" + tm("home,voice", "equals") + "</C:param-filter>",
                "<C:param-filter name='TYPE'>" + tm("cell", "equals") + "</C:param-filter>"],
    }
    pfs = [f"<C:prop-filter name='{n}'>{l}</C:prop-filter>" for n, ls in leaves.items() for l in ls]
    out = [("single", [p], None) for p in pfs]
    rnd = random.Random(7)
    for _ in range(60):
        a, b = rnd.sample(pfs, 2)
        out.append(("pair", [a, b], rnd.choice([None, "anyof", "allof"])))
    out.append(("empty", [], None))
    return out


def filter_xml(pfs, test):
    t = f" test='{test}'" if test else ""
    return f"<C:filter xmlns:C='{NS}'{t}>" + "".join(pfs) + "</C:filter>"


class Server:
    def __init__(self):
        from xandikos.store import STORE_TYPE_ADDRESSBOOK
        from xandikos.web import XandikosApp, XandikosBackend

        self.top = tempfile.mkdtemp(prefix="verif-card-")
        self.backend = XandikosBackend(self.top)
        self.backend.create_principal("/user/", create_defaults=True)
        self.app = XandikosApp(self.backend, current_user_principal="/user/")
        self.ab = "/user/contacts/addressbook/"
        for n, b in CARDS.items():
            r = self.request("PUT", self.ab + n, {"Content-Type": "text/vcard"}, b)
            assert r["status"] in (201, 204), (n, r)

    def close(self):
        shutil.rmtree(self.top, ignore_errors=True)

    def request(self, method, path, headers=None, body=b""):
        env = {"REQUEST_METHOD": method, "SCRIPT_NAME": "", "PATH_INFO": path, "SERVER_NAME": "localhost", "SERVER_PORT": "80",
               "wsgi.url_scheme": "http", "wsgi.input": io.BytesIO(body), "CONTENT_LENGTH": str(len(body)), "wsgi.errors": sys.stderr}
        for k, v in (headers or {}).items():
            if k.lower() == "content-type":
                env["CONTENT_TYPE"] = v
            else:
                env["HTTP_" + k.upper().replace("-", "_")] = v
        out = {}
        try:
            out["body"] = b"".join(self.app.handle_wsgi_request(env, lambda st, h, e=None: out.update(status=int(st.split()[0]), headers=dict(h))))
        except Exception as e:
            out.update(status=500, body=f"{type(e).__name__}: {e}".encode())
        return out

    def query(self, fxml, limit=None):
        lim = f"<C:limit xmlns:C='{NS}'><C:nresults>{limit}</C:nresults></C:limit>" if limit else ""
        body = (f"<C:addressbook-query xmlns:D='DAV:' xmlns:C='{NS}'><D:prop><D:getetag/><C:address-data/></D:prop>{fxml}{lim}"
                "</C:addressbook-query>").encode()
        r = self.request("REPORT", self.ab, {"Content-Type": "text/xml", "Depth": "1"}, body)
        if r["status"] != 207:
            return r["status"], None, r["body"][:200]
        got = {}
        for resp in ET.fromstring(r["body"]).findall("{DAV:}response"):
            href = resp.find("{DAV:}href").text
            ad = resp.find(".//{%s}address-data" % NS)
            got[href.rsplit("/", 1)[-1]] = (ad.text if ad is not None else None)
        return 207, got, None


def expected_names(fxml):
    import vobject

    ns = spec()
    el = ET.fromstring(fxml)
    out = set()
    for n, b in CARDS.items():
        v = vobject.readOne(b.decode("utf-8"))
        ab = v.contents
        if len(el) == 0 or ns["spec_filter"](el, ab):
            out.add(n)
    return out


class Explore:
    def bounded(self, req):
        logging.disable(logging.CRITICAL)
        s = Server()
        n = 0
        try:
            for kind, pfs, test in filters():
                n += 1
                fxml = filter_xml(pfs, test)
                try:
                    exp = expected_names(fxml)
                except Exception as e:
                    return {"error": f"oracle failed on {fxml}: {type(e).__name__}: {e}"}
                st, got, err = s.query(fxml)
                if got is None:
                    return {"failing": True, "tried": n, "input": {"filter": fxml}, "expected": f"207 with {sorted(exp)}", "observed": f"{st} {err}"}
                if set(got) != exp:
                    return {"failing": True, "tried": n, "input": {"filter": fxml}, "expected": sorted(exp), "observed": sorted(got)}
                for name, data in got.items():
                    if (data or "").replace("\r\n", "\n") != CARDS_STORED(s, name):
                        return {"failing": True, "tried": n, "input": {"filter": fxml}, "expected": f"address-data of {name} is its content",
                                "observed": (data or "")[:160]}
                # nresults: at most that many, all of them matching
                if len(exp) >= 2:
                    st, got1, err = s.query(fxml, 1)
                    if got1 is None or len(got1) > 1 or not set(got1) <= exp or len(got1) == 0:
                        return {"failing": True, "tried": n, "input": {"filter": fxml, "nresults": 1},
                                "expected": f"exactly one of {sorted(exp)}", "observed": f"{st} {sorted(got1) if got1 is not None else err}"}
            return {"failing": False, "tried": n, "bound": "6 stored cards (a multi-valued parameter, folded lines, escaped characters, non-ASCII names, several EMAILs) x "
                                                          f"{n} filters: every text-match type / collation / negation, is-not-defined, param-filter, "
                                                          "60 seeded pairs under anyof / allof / default, the empty filter; address-data; nresults=1"}
        finally:
            s.close()

    def search(self, req):
        r = self.bounded(req)
        return dict(r, reproduced=r.get("failing", False))

    replay = search


_STORED = {}


def CARDS_STORED(s, name):
    if name not in _STORED:
        g = s.request("GET", s.ab + name)
        _STORED[name] = g["body"].decode("utf-8").replace("\r\n", "\n")
    return _STORED[name]


if __name__ == "__main__":
    main({"*": Explore()})
