"""Bounded stand-in / replay for C10 (index transparency).

Histories of writes and calendar queries on a real store with a low indexing threshold; after
every query the names Store.iter_with_filter yields (index path or not, whatever the store
chooses) are compared with a direct evaluation of a *fresh* copy of the same filter on the
current contents of every member (filter.check on the parsed file)."""
import itertools
import json
import logging
import os
import random
import shutil
import sys
import tempfile

from common import main

UTC = None


def ics(*comps):
    return ("BEGIN:VCALENDAR\r\nVERSION:2.0\r\nPRODID:-//x//y//EN\r\n" + "".join(comps) + "END:VCALENDAR\r\n").encode()


def vevent(uid, summary, dtstart="20240110T120000Z", extra=""):
    return (f"BEGIN:VEVENT\r\nUID:{uid}\r\nDTSTAMP:20240101T000000Z\r\nDTSTART:{dtstart}\r\n"
            f"SUMMARY:{summary}\r\n{extra}END:VEVENT\r\n")


def vtodo(uid, summary, extra=""):
    return f"BEGIN:VTODO\r\nUID:{uid}\r\nDTSTAMP:20240101T000000Z\r\nSUMMARY:{summary}\r\n{extra}END:VTODO\r\n"


def body(kind, uid):
    return {
        "event-a": ics(vevent(uid, "alpha")),
        "event-b": ics(vevent(uid, "beta", "20240210T120000Z", "CATEGORIES:work\r\n")),
        "todo": ics(vtodo(uid, "alpha", "DUE:20240111T120000Z\r\n")),
        # one object, two components of the same type (a recurrence override)
        "two-events": ics(vevent(uid, "alpha", "20240110T120000Z"),
                          vevent(uid, "beta", "20240210T120000Z", "RECURRENCE-ID:20240210T120000Z\r\n")),
        "event+todo": ics(vevent(uid, "beta"), vtodo(uid + "-t", "alpha")),
    }[kind]


KINDS = ["event-a", "event-b", "todo", "two-events", "event+todo"]
NAMES = ["a.ics", "b.ics", "c.ics"]


def filters():
    """name -> builder of a fresh CalendarFilter (the grammar of replay/filters.py, through the API)."""
    import datetime

    from xandikos.icalendar import CalendarFilter

    utc = datetime.timezone.utc

    def dt(s):
        return datetime.datetime.strptime(s, "%Y%m%dT%H%M%SZ").replace(tzinfo=utc)

    def mk(fn):
        def build():
            f = CalendarFilter(utc)
            fn(f.filter_subcomponent("VCALENDAR"))
            return f
        return build

    return {
        "vevent": mk(lambda c: c.filter_subcomponent("VEVENT")),
        "vtodo": mk(lambda c: c.filter_subcomponent("VTODO")),
        "no-vtodo": mk(lambda c: c.filter_subcomponent("VTODO", is_not_defined=True)),
        "summary=alpha": mk(lambda c: c.filter_subcomponent("VEVENT").filter_property("SUMMARY").filter_text_match("alpha")),
        "summary!=alpha": mk(lambda c: c.filter_subcomponent("VEVENT").filter_property("SUMMARY").filter_text_match("alpha", negate_condition=True)),
        "no-categories": mk(lambda c: c.filter_subcomponent("VEVENT").filter_property("CATEGORIES", is_not_defined=True)),
        "jan": mk(lambda c: c.filter_subcomponent("VEVENT").filter_time_range(dt("20240101T000000Z"), dt("20240201T000000Z"))),
        "feb": mk(lambda c: c.filter_subcomponent("VEVENT").filter_time_range(dt("20240201T000000Z"), dt("20240301T000000Z"))),
        "alpha-in-feb": mk(lambda c: (lambda e: (e.filter_time_range(dt("20240201T000000Z"), dt("20240301T000000Z")),
                                                   e.filter_property("SUMMARY").filter_text_match("alpha")))(c.filter_subcomponent("VEVENT"))),
        "due-jan": mk(lambda c: c.filter_subcomponent("VTODO").filter_property("DUE").filter_time_range(dt("20240101T000000Z"), dt("20240201T000000Z"))),
    }


def open_store(backend, d, threshold):
    from xandikos.store.git import BareGitStore, TreeGitStore
    from xandikos.store.vdir import VdirStore

    cls = {"tree-git": TreeGitStore, "bare-git": BareGitStore, "vdir": VdirStore}[backend]
    p = os.path.join(d, "c")
    if not os.path.exists(p):
        cls.create(p)
    from xandikos.icalendar import ICalendarFile

    try:
        s = cls.open_from_path(p, index_threshold=threshold)
    except TypeError:
        s = cls.open_from_path(p)
        from xandikos.store.index import AutoIndexManager

        s.index_manager = AutoIndexManager(s.index, threshold=threshold)
    s.load_extra_file_handler(ICalendarFile)   # as web.CalendarCollection does
    return s


def naive(store, build):
    flt = build()
    out = set()
    for name, ct, etag in store.iter_with_etag():
        if ct != "text/calendar":
            continue
        f = store.get_file(name, ct, etag)
        try:
            if flt.check(name, f):
                out.add(name)
        except Exception as e:  # unparseable member: never matches
            if type(e).__name__ != "InvalidFileContents":
                raise
    return out


def run_history(backend, threshold, hist):
    F = filters()
    d = tempfile.mkdtemp(prefix="verif-idx-")
    log = []
    try:
        store = open_store(backend, d, threshold)
        uid = 0
        for step, op in enumerate(hist):
            if op[0] == "put":
                _, name, kind = op
                uid += 1
                try:
                    store.import_one(name, "text/calendar", [body(kind, f"u{NAMES.index(name)}")])
                    log.append(f"put {name} {kind}")
                except Exception as e:
                    log.append(f"put {name} {kind} -> {type(e).__name__}")
            elif op[0] == "raw":
                # a stored member that does not parse (written behind validate(), as an older
                # version or another tool would have)
                _, name = op
                raw = b"BEGIN:VCALENDAR\r\nthis is not a calendar\r\n"
                if hasattr(store, "_import_one"):
                    store._import_one(name, [raw], "raw")
                else:
                    with open(os.path.join(store.path, name), "wb") as f:
                        f.write(raw)
                log.append(f"raw {name}")
            elif op[0] == "delete":
                try:
                    store.delete_one(op[1])
                    log.append(f"delete {op[1]}")
                except Exception as e:
                    log.append(f"delete {op[1]} -> {type(e).__name__}")
            elif op[0] == "reopen":
                store = open_store(backend, d, threshold)
                log.append("reopen")
            else:
                _, fname = op
                exp = naive(store, F[fname])
                try:
                    got = {n for n, _, _ in store.iter_with_filter(F[fname]())}
                except Exception as e:
                    got = f"raised {type(e).__name__}: {e}"
                log.append(f"query {fname} -> {sorted(got) if isinstance(got, set) else got}")
                if got != exp:
                    return {"backend": backend, "threshold": threshold, "history": [list(o) for o in hist[:step + 1]],
                            "step": step, "expected": sorted(exp), "observed": sorted(got) if isinstance(got, set) else got,
                            "log": log}
        return None
    finally:
        shutil.rmtree(d, ignore_errors=True)


def histories(seed, n, raw=True):
    rnd = random.Random(seed)
    fnames = sorted(filters())
    for _ in range(n):
        h = []
        for _ in range(rnd.randint(4, 14)):
            r = rnd.random()
            if r < 0.30:
                h.append(("put", rnd.choice(NAMES), rnd.choice(KINDS)))
            elif r < 0.36:
                h.append(("delete", rnd.choice(NAMES)))
            elif r < 0.40 and raw:
                h.append(("raw", rnd.choice(NAMES)))
            elif r < 0.43:
                h.append(("reopen",))
            else:
                # repeat a filter so that its keys pass the threshold, interleaved with others
                f = rnd.choice(fnames)
                for _ in range(rnd.randint(1, 3)):
                    h.append(("query", f))
        yield h


TIME_RANGE_QUERIES = {"jan", "feb", "alpha-in-feb"}


def known_witness(bad):
    """Classes of recorded findings (known_findings.json, kind=known, witness=...)."""
    hist = bad["history"]
    kinds = {o[2] for o in hist if o[0] == "put"}
    w = []
    # a component time-range evaluated from the index of an object with several components of
    # the filtered type (only the first component's values are used)
    if "two-events" in kinds and hist[-1][0] == "query" and hist[-1][1] in TIME_RANGE_QUERIES and isinstance(bad["observed"], list):
        w.append("index_time_range_first_component")
    return w


def listed_witnesses():
    try:
        with open(os.path.join(os.path.dirname(os.path.dirname(os.path.abspath(__file__))), "known_findings.json")) as f:
            return {k.get("witness") for k in json.load(f) if k.get("kind") == "known"}
    except FileNotFoundError:
        return set()


class Explore:
    def bounded(self, req):
        logging.disable(logging.CRITICAL)
        quick = req.get("tier", "quick") == "quick"
        seed = int(req.get("seed", 0) or 0)
        n = 120 if quick else 1500
        listed = listed_witnesses()
        tried = 0
        known_seen = {}
        for backend in (req.get("backends") or ["tree-git", "vdir"]):
            for threshold in (0, 2):
                for h in histories(seed * 7919 + threshold, n // 2):
                    tried += 1
                    bad = run_history(backend, threshold, h)
                    if bad:
                        ws = [w for w in known_witness(bad) if w in listed]
                        if ws:
                            known_seen.setdefault(ws[0], bad)
                            continue
                        return dict(bad, failing=True, tried=tried, input={"backend": backend, "threshold": threshold, "history": bad["history"]})
        return {"failing": False, "tried": tried, "known": sorted(known_seen),
                "bound": f"{n // 2} seeded histories of 4-14 steps per back end and threshold in (0, 2): puts of 5 object shapes under 3 names, deletes, unparseable members, reopen, 10 filters repeated 1-3 times"}

    def search(self, req):
        r = self.bounded(req)
        return dict(r, reproduced=r.get("failing", False))

    def replay(self, req):
        i = req.get("input")
        if not i or "history" not in i:
            return self.search(req)
        logging.disable(logging.CRITICAL)
        bad = run_history(i["backend"], i["threshold"], [tuple(o) for o in i["history"]])
        return dict(bad, reproduced=True) if bad else {"reproduced": False}


if __name__ == "__main__":
    main({"*": Explore()})
