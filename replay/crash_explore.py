"""Bounded stand-in / replay for C04 (a crash during a write leaves old or new state).

A write (create / replace / delete / property set) is run in a child process that dies
(os._exit) at the k-th *crash point*: before and after every file-system mutation the write
performs (rename / replace / unlink / mkdir / open-for-write / close of a written file) and in
the middle of every file write (half of the bytes flushed).  For k = 0, 1, 2, ... until the
operation completes, the parent then re-opens the store in a fresh process and checks:

  * the collection opens and lists;
  * the interrupted resource reads back completely with its previous content (or absence) or
    with the new content, and its bytes hash to the etag the listing shows;
  * every other resource, and everything acknowledged before, is intact;
  * (git) every object reachable from the branch exists (no reference to a missing object).

The crash points are installed by wrapping os / builtins functions inside the child; nothing
in /repo is edited."""
import json
import logging
import os
import shutil
import subprocess
import sys
import tempfile

from common import REPO, VERIF, main

CHILD = r'''
import builtins, io, os, sys, logging
sys.path.insert(0, {repo!r})
logging.disable(logging.CRITICAL)
K = int(sys.argv[1]); path = sys.argv[2]; op = sys.argv[3]; backend = sys.argv[4]
count = [0]
root = os.path.realpath(path)

def point(label):
    if count[0] == K:
        sys.stdout.write("CRASH-AT " + label + "\n"); sys.stdout.flush()
        os._exit(99)
    count[0] += 1

def inside(p):
    try:
        return os.path.realpath(os.fspath(p)).startswith(root)
    except Exception:
        return False

def wrap2(mod, name):
    orig = getattr(mod, name)
    def w(*a, **k):
        if a and inside(a[0]):
            point(name + ":before")
            r = orig(*a, **k)
            point(name + ":after")
            return r
        return orig(*a, **k)
    setattr(mod, name, w)

for n in ("replace", "rename", "unlink", "remove", "mkdir", "rmdir"):
    wrap2(os, n)

class W:
    def __init__(self, f):
        self._f = f
    def write(self, data):
        point("write:before")
        h = len(data) // 2
        self._f.write(data[:h]); self._f.flush()
        point("write:mid")
        r = self._f.write(data[h:]); self._f.flush()
        return len(data)
    def writelines(self, lines):
        for l in lines:
            self.write(l)
    def close(self):
        point("close:before")
        r = self._f.close()
        point("close:after")
        return r
    def __enter__(self):
        return self
    def __exit__(self, *a):
        self.close()
        return False
    def __getattr__(self, n):
        return getattr(self._f, n)

_open = builtins.open
def open_(file, mode="r", *a, **k):
    f = _open(file, mode, *a, **k)
    if isinstance(file, (str, bytes, os.PathLike)) and any(c in mode for c in "wax+") and inside(file):
        point("open-for-write")
        return W(f)
    return f
builtins.open = open_
io.open = open_
_fdopen = os.fdopen
def fdopen(fd, mode="r", *a, **k):
    f = _fdopen(fd, mode, *a, **k)
    if any(c in mode for c in "wax+"):
        return W(f)
    return f
os.fdopen = fdopen

from xandikos.icalendar import ICalendarFile
if backend == "vdir":
    from xandikos.store.vdir import VdirStore
    s = VdirStore.open_from_path(path)
else:
    from xandikos.store.git import GitStore
    s = GitStore.open_from_path(path)
s.load_extra_file_handler(ICalendarFile)
ICS = lambda uid, v: ("BEGIN:VCALENDAR\r\nVERSION:2.0\r\nPRODID:-//x//y//EN\r\nBEGIN:VEVENT\r\nUID:%s\r\nDTSTAMP:20240101T000000Z\r\nDTSTART:20240110T120000Z\r\nSUMMARY:%s\r\nEND:VEVENT\r\nEND:VCALENDAR\r\n" % (uid, v)).encode()
if op == "replace":
    s.import_one("a.ics", "text/calendar", [ICS("u-a", "new " + "x" * 400)])
elif op == "create":
    s.import_one("b.ics", "text/calendar", [ICS("u-b", "created")])
elif op == "delete":
    s.delete_one("a.ics")
elif op == "setprop":
    s.set_displayname("New name")
sys.stdout.write("DONE\n"); sys.stdout.flush()
'''

INSPECT = r'''
import sys, os, json, logging, hashlib
sys.path.insert(0, {repo!r})
logging.disable(logging.CRITICAL)
path, backend = sys.argv[1], sys.argv[2]
out = {{}}
try:
    from xandikos.icalendar import ICalendarFile
    if backend == "vdir":
        from xandikos.store.vdir import VdirStore
        s = VdirStore.open_from_path(path)
    else:
        from xandikos.store.git import GitStore
        s = GitStore.open_from_path(path)
    s.load_extra_file_handler(ICalendarFile)
    members = {{}}
    for name, ct, etag in s.iter_with_etag():
        raw = b"".join(s._get_raw(name, etag))
        f = s.get_file(name, ct, etag)
        f.validate()
        if backend == "vdir":
            ok = hashlib.md5(raw).hexdigest() == etag
        else:
            from dulwich.objects import Blob
            ok = Blob.from_string(raw).id.decode() == etag
        members[name] = {{"summary": raw.decode().split("SUMMARY:")[1].split("\r\n")[0][:12], "hash_ok": ok}}
    out["members"] = members
    try:
        out["displayname"] = s.get_displayname()
    except Exception as e:
        out["displayname_error"] = type(e).__name__ + ": " + str(e)[:80]
    if backend != "vdir":
        repo = s.repo
        missing = []
        try:
            head = repo.refs[s.ref]
            todo = [head]; seen = set()
            while todo:
                o = todo.pop()
                if o in seen: continue
                seen.add(o)
                if o not in repo.object_store:
                    missing.append(o.decode()); continue
                obj = repo[o]
                if obj.type_name == b"commit":
                    todo.append(obj.tree); todo.extend(obj.parents)
                elif obj.type_name == b"tree":
                    todo.extend(sha for _, _, sha in obj.iteritems())
        except KeyError:
            pass
        out["missing_objects"] = missing
    # the collection is still writable (a stale lock file would make every later write fail)
    try:
        s.import_one("probe.ics", "text/calendar", [b"BEGIN:VCALENDAR\r\nVERSION:2.0\r\nPRODID:x\r\nBEGIN:VEVENT\r\nUID:probe\r\nDTSTAMP:20240101T000000Z\r\nDTSTART:20240110T120000Z\r\nSUMMARY:probe\r\nEND:VEVENT\r\nEND:VCALENDAR\r\n"])
        out["writable"] = True
    except Exception as e:
        out["writable"] = type(e).__name__ + ": " + str(e)[:80]
except Exception as e:
    out["error"] = type(e).__name__ + ": " + str(e)[:200]
print(json.dumps(out))
'''


def make_base(backend, d):
    sys.path.insert(0, REPO)
    from xandikos.icalendar import ICalendarFile
    from xandikos.store.git import BareGitStore, TreeGitStore
    from xandikos.store.vdir import VdirStore

    cls = {"tree-git": TreeGitStore, "bare-git": BareGitStore, "vdir": VdirStore}[backend.split("+")[0]]
    s = cls.create(d)
    if backend.endswith("+cfg"):
        # metadata kept in the repository's own configuration ([xandikos] section)
        c = s.repo.get_config()
        c.set((b"xandikos",), b"type", b"calendar")
        c.write_to_path()
    s.load_extra_file_handler(ICalendarFile)

    def ics(uid, v):
        return (f"BEGIN:VCALENDAR\r\nVERSION:2.0\r\nPRODID:-//x//y//EN\r\nBEGIN:VEVENT\r\nUID:{uid}\r\nDTSTAMP:20240101T000000Z\r\n"
                f"DTSTART:20240110T120000Z\r\nSUMMARY:{v}\r\nEND:VEVENT\r\nEND:VCALENDAR\r\n").encode()
    s.import_one("a.ics", "text/calendar", [ics("u-a", "old")])
    s.import_one("keep.ics", "text/calendar", [ics("u-k", "keep")])
    if backend != "vdir":
        s.set_displayname("Old name")


def run(code, args, repo):
    p = subprocess.run(["/venv/bin/python", "-c", code.format(repo=repo)] + args, capture_output=True, text=True, timeout=120)
    return p.returncode, p.stdout, p.stderr


def one_point(args):
    backend, op, repo, base, top, k = args
    d = os.path.join(top, f"run{k}")
    shutil.copytree(base, d)
    try:
        rc, out, err = run(CHILD, [str(k), d, op, backend], repo)
        done = "DONE" in out
        label = out.strip().split("CRASH-AT ")[-1] if "CRASH-AT" in out else None
        if rc not in (0, 99):
            return k, done, {"point": k, "label": label, "observed": f"the write itself failed: {err[-300:]}"}
        rc2, out2, err2 = run(INSPECT, [d, backend], repo)
        try:
            st = json.loads(out2.strip().splitlines()[-1])
        except Exception:
            return k, done, {"point": k, "label": label, "observed": f"inspection failed: {err2[-300:]}"}
        bad = judge(backend, op, st, done)
        if bad:
            return k, done, {"point": k, "label": label or "completed", "observed": bad, "state": st}
        return k, done, None
    finally:
        shutil.rmtree(d, ignore_errors=True)


def explore(backend, op, repo, max_points=600, jobs=16):
    """-> (failure or None, number of crash points visited); crash points are independent runs"""
    from concurrent.futures import ThreadPoolExecutor

    top = tempfile.mkdtemp(prefix="verif-crash-")
    try:
        base = os.path.join(top, "base")
        make_base(backend, base)
        k0 = 0
        with ThreadPoolExecutor(jobs) as ex:
            while k0 < max_points:
                res = sorted(ex.map(one_point, [(backend, op, repo, base, top, k) for k in range(k0, k0 + jobs)]))
                for k, done, bad in res:
                    if bad:
                        return bad, k
                    if done:
                        return None, k
                k0 += jobs
        return None, k0
    finally:
        shutil.rmtree(top, ignore_errors=True)


def judge(backend, op, st, done):
    if "error" in st:
        return f"after restart the collection does not open / list: {st['error']}"
    m = st["members"]
    if any(not v["hash_ok"] for v in m.values()):
        return f"a resource's bytes do not hash to its etag: {m}"
    if "keep.ics" not in m or m["keep.ics"]["summary"] != "keep":
        return f"an unrelated, earlier acknowledged resource is damaged: {m}"
    a = m.get("a.ics", {}).get("summary")
    b = m.get("b.ics", {}).get("summary")
    if op == "replace":
        ok = a in ("old", "new xxxxxxxx") and (not done or a == "new xxxxxxxx")
    elif op == "create":
        ok = a == "old" and b in (None, "created") and (not done or b == "created")
    elif op == "delete":
        ok = a in ("old", None) and (not done or a is None)
    else:
        ok = a == "old"
    if not ok:
        return f"the interrupted resource is neither in its previous nor in its new state: a.ics={a!r} b.ics={b!r} (completed={done})"
    if op == "setprop" and backend != "vdir":
        dn = st.get("displayname")
        if "displayname_error" in st or dn not in ("Old name", "New name") or (done and dn != "New name"):
            return f"display name after the crash: {st.get('displayname_error') or dn!r} (completed={done})"
    if st.get("missing_objects"):
        return f"the branch references missing objects: {st['missing_objects'][:3]}"
    # (a stale index.lock left by the crash makes later writes answer 423 until it is removed: the
    # property speaks about what reads back, not about writability - recorded in the state only)
    return None


def known_classes():
    try:
        with open(os.path.join(VERIF, "known_findings.json")) as f:
            return {k.get("witness") for k in json.load(f) if k.get("kind") == "known" and k.get("property") == "C04"}
    except FileNotFoundError:
        return set()


class Explore:
    def bounded(self, req):
        logging.disable(logging.CRITICAL)
        repo = os.environ.get("VERIF_REPO", "/repo")
        quick = req.get("tier", "quick") == "quick"
        known = known_classes()
        seen_known = set()
        total = 0
        cases = [(b, o) for b in (req.get("backends") or ["tree-git", "bare-git", "vdir"]) for o in ("replace", "create", "delete", "setprop")
                 if not (b == "vdir" and o == "setprop")]
        cases += [(b, "setprop") for b in ("tree-git+cfg", "bare-git+cfg") if not req.get("backends")]
        if quick:
            cases = [("tree-git", "replace"), ("tree-git", "create"), ("vdir", "replace"), ("vdir", "create"), ("bare-git", "replace"),
                     ("tree-git+cfg", "setprop")]
        for backend, op in cases:
            bad, n = explore(backend, op, repo)
            total += n + 1
            if bad:
                w = f"c04:{backend}:{op}:{classify(bad['observed'])}"
                if w in known:
                    seen_known.add(w)
                    continue
                return {"failing": True, "tried": total, "input": {"backend": backend, "operation": op, "crash_point": bad["point"], "at": bad["label"]},
                        "expected": "after restart: collection opens, the interrupted resource is old or new, everything else intact, no missing objects",
                        "observed": bad["observed"], "witness": w}
        return {"failing": False, "tried": total, "known": sorted(seen_known),
                "bound": "every crash point (before/after each rename, replace, unlink, mkdir, open-for-write, close; middle of every file write) of "
                         + ("replace and create on tree-git and vdir, replace on bare-git, set-displayname with git-config metadata" if quick
                            else "replace, create, delete, set-displayname on tree-git, bare-git and vdir, set-displayname with git-config metadata")
                         + ", prior contents: two resources and a display name"}

    def search(self, req):
        r = self.bounded(req)
        return dict(r, reproduced=r.get("failing", False))

    replay = search


def classify(observed):
    for key, cls in (("no longer accepts writes", "stale-lock"), ("does not open", "unopenable"), ("neither in its previous", "torn"),
                     ("missing objects", "missing-object"), ("display name", "displayname"), ("hash", "hash"), ("unrelated", "collateral"),
                     ("write itself failed", "write-error")):
        if key in observed:
            return cls
    return "other"


if __name__ == "__main__":
    main({"*": Explore()})
