"""Shared helpers for native replay drivers (run under /venv/bin/python)."""
import json
import os
import sys

REPO = os.environ.get("VERIF_REPO", "/repo")
VERIF = os.path.dirname(os.path.dirname(os.path.abspath(__file__)))
if REPO not in sys.path:
    sys.path.insert(0, REPO)


def load_specs(relpath, natives):
    """Execute a contract file natively: decorators become no-ops, ghost functions
    are bound to the native implementations in `natives`.  Returns the namespace, so
    the *same text* that pyvc interprets symbolically is the run-time oracle."""
    ns = {
        "contract": lambda *a, **k: (lambda c: c),
        "fields": lambda *a, **k: None,
        "opaque": lambda *a, **k: None,
        "ghost": lambda *a, **k: None,
        "ext_base": lambda *a, **k: None,
        "implies": lambda a, b: (not a) or b,
    }
    ns.update(natives)
    with open(os.path.join(VERIF, relpath)) as f:
        src = f.read()
    exec(compile(src, relpath, "exec"), ns)
    return ns


def main(handlers):
    import logging

    logging.disable(logging.CRITICAL)
    req = json.load(sys.stdin)
    fn = req.get("function")
    h = handlers.get(fn) or handlers.get("*")
    if h is None:
        json.dump({"error": f"no native driver for {fn}"}, sys.stdout)
        return
    mode = req.get("mode", "replay")
    try:
        if mode == "replay":
            out = h.replay(req)
        elif mode == "search":
            out = h.search(req)
        else:
            out = h.bounded(req)
    except Exception as e:  # pragma: no cover
        import traceback

        out = {"error": f"{type(e).__name__}: {e}", "trace": traceback.format_exc()[-1500:]}
    json.dump(out, sys.stdout, default=str)
