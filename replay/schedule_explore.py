"""Bounded stand-in / replay for C05 (concurrent writes behave as if serial).

Two or three store operations run in separate threads on the same directory, each on its own
store object (different processes) or on one shared store object (worker threads of one
server).  A cooperative scheduler decides at every yield point which thread continues; yield
points are the boundaries between the steps the property names (uid / precondition check, lock
acquisition, index read, object writes, reference update, rename).  All schedules with at
most `preemptions` context switches away from a runnable thread are enumerated.

Oracle: the per-operation answers (ok / InvalidETag / DuplicateUid / NoSuchItem / Locked) and
the final contents must be those of *some* sequential execution of the operations that were
not refused as Locked."""
import itertools
import json
import logging
import os
import shutil
import sys
import tempfile
import threading

from common import main


def ics(uid, v):
    return (f"BEGIN:VCALENDAR\r\nVERSION:2.0\r\nPRODID:-//x//y//EN\r\nBEGIN:VEVENT\r\nUID:{uid}\r\n"
            f"DTSTAMP:20240101T000000Z\r\nDTSTART:20240110T120000Z\r\nSUMMARY:{v}\r\nEND:VEVENT\r\nEND:VCALENDAR\r\n").encode()


# ---------------------------------------------------------------------------- scheduler
class Abort(BaseException):
    pass


class Scheduler:
    """Runs thread bodies one at a time; `choices` is the decision prefix, extended with the
    default (stay on the current thread if runnable, else the lowest runnable id)."""

    def __init__(self, prefix):
        self.prefix = list(prefix)
        self.trace = []          # (runnable ids, chosen)
        self.cv = threading.Condition()
        self.current = None
        self.alive = set()
        self.started = False
        self.ids = {}

    def run(self, bodies):
        ths = []
        for i, b in enumerate(bodies):
            t = threading.Thread(target=self._wrap, args=(i, b), daemon=True)
            ths.append(t)
            self.alive.add(i)
        for t in ths:
            t.start()
        with self.cv:
            self._pick(None)
            self.started = True
            self.cv.notify_all()
        for t in ths:
            t.join(60)
            if t.is_alive():
                raise RuntimeError("schedule did not terminate")

    def _wrap(self, i, body):
        self.ids[threading.get_ident()] = i
        with self.cv:
            while not self.started or self.current != i:
                self.cv.wait()
        try:
            body()
        finally:
            with self.cv:
                self.alive.discard(i)
                self._pick(i)
                self.cv.notify_all()

    def _pick(self, me):
        runnable = sorted(self.alive)
        if not runnable:
            self.current = None
            return
        k = len(self.trace)
        if k < len(self.prefix):
            c = self.prefix[k]
            if c not in runnable:
                c = runnable[0]
        else:
            c = me if me in runnable else runnable[0]
        self.trace.append((runnable, c))
        self.current = c

    def yield_(self, label):
        i = self.ids.get(threading.get_ident())
        if i is None:
            return
        with self.cv:
            self._pick(i)
            self.cv.notify_all()
            while self.current != i:
                self.cv.wait()


SCHED = None


def yp(label):
    if SCHED is not None:
        SCHED.yield_(label)


def instrument():
    """Yield points, installed by wrapping (nothing in /repo is edited)."""
    import dulwich.index
    import dulwich.object_store
    import dulwich.refs

    import xandikos.store.git as g
    import xandikos.store.vdir as v

    if getattr(g, "_verif_instrumented", False):
        return
    g._verif_instrumented = True

    def wrap(cls, name, before=True, after=False):
        orig = getattr(cls, name)

        def w(*a, **k):
            if before:
                yp(name + ":before")
            try:
                return orig(*a, **k)
            finally:
                if after:
                    yp(name + ":after")
        setattr(cls, name, w)

    wrap(g.GitStore, "_check_duplicate", before=True, after=True)
    wrap(g.locked_index, "__enter__", before=True, after=True)
    wrap(g.BareGitStore, "_get_current_tree", before=False, after=True)
    wrap(g.BareGitStore, "_commit_tree")
    wrap(g.TreeGitStore, "_commit_tree")
    # inside locked_index.__enter__: taking the lock file, reading the index
    for fname in ("GitFile", "Index"):
        orig = getattr(g, fname)

        def w(*a, _orig=orig, _n=fname, **k):
            yp(_n + ":before")
            return _orig(*a, **k)
        setattr(g, fname, w)
    wrap(g.locked_index, "__exit__")
    wrap(dulwich.refs.DiskRefsContainer, "set_if_equals")
    wrap(dulwich.refs.DiskRefsContainer, "add_if_new")


# ---------------------------------------------------------------------------- operations
def do_op(store, op):
    from xandikos.store import DuplicateUidError, InvalidETag, LockedError, NoSuchItem

    try:
        if op[0] == "put":
            _, name, uid, v, etag = op
            store.import_one(name, "text/calendar", [ics(uid, v)], replace_etag=etag)
            return "ok"
        _, name, etag = op
        store.delete_one(name, etag=etag)
        return "ok"
    except InvalidETag:
        return "InvalidETag"
    except DuplicateUidError:
        return "DuplicateUid"
    except NoSuchItem:
        return "NoSuchItem"
    except LockedError:
        return "Locked"
    except Exception as e:  # anything else reaches the client as a 500
        return "error:" + type(e).__name__


def open_store(backend, path):
    from xandikos.icalendar import ICalendarFile
    from xandikos.store.git import GitStore

    s = GitStore.open_from_path(path)
    s.load_extra_file_handler(ICalendarFile)
    return s


def contents(backend, path):
    s = open_store(backend, path)
    out = {}
    for name, ct, etag in s.iter_with_etag():
        out[name] = b"".join(s._get_raw(name, etag)).decode()
    return out


def make_base(backend, top):
    from xandikos.store.git import BareGitStore, TreeGitStore

    os.makedirs(top, exist_ok=True)
    p = os.path.join(top, "base")
    cls = {"tree-git": TreeGitStore, "bare-git": BareGitStore}[backend]
    s = cls.create(p)
    from xandikos.icalendar import ICalendarFile

    s.load_extra_file_handler(ICalendarFile)
    _, e = s.import_one("a.ics", "text/calendar", [ics("u-a", "v0")])
    return p, e


def scenarios(etag_a):
    """Pairs / triples of operations against the base state {a.ics (uid u-a, etag E)}."""
    E = etag_a
    return {
        "two conditional updates on one etag": [("put", "a.ics", "u-a", "v1", E), ("put", "a.ics", "u-a", "v2", E)],
        "update + unrelated create": [("put", "a.ics", "u-a", "v1", E), ("put", "b.ics", "u-b", "w", None)],
        "two creates, same uid": [("put", "b.ics", "u-x", "w1", None), ("put", "c.ics", "u-x", "w2", None)],
        "two creates, different names and uids": [("put", "b.ics", "u-b", "w1", None), ("put", "c.ics", "u-c", "w2", None)],
        "conditional delete + conditional update": [("delete", "a.ics", E), ("put", "a.ics", "u-a", "v1", E)],
        "unconditional update + create + delete": [("put", "a.ics", "u-a", "v1", None), ("put", "b.ics", "u-b", "w", None), ("delete", "a.ics", None)],
    }


def serial_outcomes(backend, base, ops, skip):
    """All (answers, contents) of sequential executions of the ops not in `skip` (indices)."""
    outs = []
    idx = [i for i in range(len(ops)) if i not in skip]
    for perm in itertools.permutations(idx):
        d = tempfile.mkdtemp(prefix="verif-ser-")
        try:
            p = os.path.join(d, "s")
            shutil.copytree(base, p)
            s = open_store(backend, p)
            ans = {}
            for i in perm:
                ans[i] = do_op(s, ops[i])
            outs.append((ans, contents(backend, p)))
        finally:
            shutil.rmtree(d, ignore_errors=True)
    return outs


def run_schedule(backend, base, ops, shared, prefix):
    global SCHED
    d = tempfile.mkdtemp(prefix="verif-sch-")
    try:
        p = os.path.join(d, "s")
        shutil.copytree(base, p)
        one = open_store(backend, p) if shared else None
        stores = [one if shared else open_store(backend, p) for _ in ops]
        ans = {}

        def body(i):
            def run():
                ans[i] = do_op(stores[i], ops[i])
            return run

        sch = Scheduler(prefix)
        SCHED = sch
        try:
            sch.run([body(i) for i in range(len(ops))])
        finally:
            SCHED = None
        return ans, contents(backend, p), sch.trace
    finally:
        shutil.rmtree(d, ignore_errors=True)


def explore(backend, base, ops, shared, max_preempt, limit, is_known=lambda bad: False):
    """DFS over schedules by re-execution with decision prefixes.  A failing schedule that
    is_known() recognises as a recorded finding is counted and the search goes on."""
    todo = [[]]
    seen = 0
    known_hits = 0
    serial_cache = {}
    while todo and seen < limit:
        prefix = todo.pop()
        ans, cont, trace = run_schedule(backend, base, ops, shared, prefix)
        seen += 1
        # alternatives after the prefix
        for k in range(len(prefix), len(trace)):
            runnable, chosen = trace[k]
            base_choices = [c for _, c in trace[:k]]
            # count preemptions so far: switches away from a thread that was still runnable
            pre = 0
            last = None
            for (r, c) in trace[:k]:
                if last is not None and c != last and last in r:
                    pre += 1
                last = c
            for alt in runnable:
                if alt == chosen:
                    continue
                extra = 1 if (last is not None and alt != last and last in runnable) else 0
                if pre + extra <= max_preempt:
                    todo.append(base_choices + [alt])
        skip = frozenset(i for i, a in ans.items() if a == "Locked")
        if skip not in serial_cache:
            serial_cache[skip] = serial_outcomes(backend, base, ops, skip)
        ok = any(all(ans[i] == sa.get(i) for i in range(len(ops)) if i not in skip) and cont == sc
                 for sa, sc in serial_cache[skip])
        if not ok:
            bad = {"schedule": [c for _, c in trace], "answers": {str(i): a for i, a in ans.items()},
                   "contents": {k: v.split("SUMMARY:")[1].split("\r\n")[0] for k, v in cont.items()},
                   "serial": [({str(i): a for i, a in sa.items()}, {k: v.split("SUMMARY:")[1].split("\r\n")[0] for k, v in sc.items()})
                              for sa, sc in serial_cache[skip]]}
            if is_known(bad):
                known_hits += 1
                continue
            return bad, seen, known_hits
    return None, seen, known_hits


def listed():
    try:
        with open(os.path.join(os.path.dirname(os.path.dirname(os.path.abspath(__file__))), "known_findings.json")) as f:
            return [k for k in json.load(f) if k.get("kind") == "known" and k.get("property") == "C05"]
    except FileNotFoundError:
        return []


class Explore:
    def bounded(self, req):
        logging.disable(logging.CRITICAL)
        instrument()
        quick = req.get("tier", "quick") == "quick"
        max_pre = 1 if quick else 2
        limit = 150 if quick else 1500
        known = {(k.get("backend"), k.get("scenario"), k.get("sharing")) for k in listed()}
        known_seen = []
        total = 0
        top = tempfile.mkdtemp(prefix="verif-c05-")
        try:
            for backend in (req.get("backends") or ["tree-git", "bare-git"]):
                base, etag = make_base(backend, os.path.join(top, backend))
                for sname, ops in scenarios(etag).items():
                    for shared in (False, True):
                        sharing = "one store object (threads)" if shared else "separate store objects (processes)"
                        listed_here = (backend, sname, sharing) in known

                        def is_known(bad, listed_here=listed_here):
                            # the recorded findings are "the requests that were accepted were all answered ok
                            # although no serial order of them gives the resulting contents" (a request refused
                            # with Locked has no effect and is left out of the serial orders); any other answer
                            # (an error, a refusal that did have an effect) or any unlisted scenario is new
                            answers = list(bad["answers"].values())
                            return (listed_here and all(a in ("ok", "Locked") for a in answers)
                                    and sum(a == "ok" for a in answers) >= 2)

                        bad, n, kh = explore(backend, base, ops, shared, max_pre, limit, is_known)
                        total += n
                        if kh:
                            known_seen.append(f"{backend}/{sname}/{sharing}")
                        if bad:
                            return {"failing": True, "tried": total,
                                    "input": {"backend": backend, "scenario": sname, "ops": [list(o) for o in ops], "sharing": sharing,
                                              "schedule": bad["schedule"]},
                                    "expected": f"answers and contents of some serial order: {bad['serial']}",
                                    "observed": f"answers {bad['answers']}, contents {bad['contents']}"}
            return {"failing": False, "tried": total, "known": ["c05:" + x for x in sorted(set(known_seen))],
                    "bound": f"6 scenarios of 2-3 operations x (separate | shared store object) x (tree-git, bare-git), all schedules with <= {max_pre} preemption(s) over the yield points (<= {limit} per case)"}
        finally:
            shutil.rmtree(top, ignore_errors=True)

    def search(self, req):
        r = self.bounded(req)
        return dict(r, reproduced=r.get("failing", False))

    replay = search


if __name__ == "__main__":
    main({"*": Explore()})
