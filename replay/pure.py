"""Native replay / finite-scope search / bounded stand-in for pure functions.

The oracle is the contract file itself, executed natively (common.load_specs)."""
import datetime
import itertools
import sys

from common import load_specs, main

UTC = datetime.timezone.utc
BASE = datetime.datetime(2020, 1, 1, tzinfo=UTC)


# ---------------------------------------------------------------- time range
class D:
    """Native stand-in for the abstract DT of the contract: a time stamp or a duration."""

    def __init__(self, ts=None, is_datetime=True, secs=None):
        self.ts, self.is_datetime, self.secs = ts, is_datetime, secs
        self.time = 1 if is_datetime else None


class Pr:
    def __init__(self, dt):
        self.dt = dt


def tr_natives():
    return {
        "prop_of": lambda comp, name: comp.get(name),
        "ts_of": lambda d: d.ts,
        "seconds": lambda d: d.secs,
    }


def real_comp(comp):
    """The same component as real icalendar-style property objects in a dict."""
    from icalendar.prop import vDDDTypes

    out = {}
    for name, p in comp.items():
        d = p.dt
        if d.secs is not None:
            out[name] = vDDDTypes(datetime.timedelta(seconds=d.secs))
        elif d.is_datetime:
            out[name] = vDDDTypes(BASE + datetime.timedelta(seconds=d.ts))
        else:
            out[name] = vDDDTypes((BASE + datetime.timedelta(seconds=d.ts)).date())
    return out


def to_dt(ts):
    return BASE + datetime.timedelta(seconds=ts)


class TimeRange:
    FN = {"vevent": "apply_time_range_vevent", "vtodo": "apply_time_range_vtodo", "vjournal": "apply_time_range_vjournal"}

    def __init__(self, which):
        self.which = which

    def check(self, start, end, comp):
        """-> None if the real function meets the contract on this input, else a dict."""
        import xandikos.icalendar as ic

        ns = load_specs("contracts/icalendar_timerange.py", tr_natives())
        cls = ns[self.which]
        if not cls.requires(start, end, comp):
            return None
        fn = getattr(ic, self.FN[self.which])
        tzify = lambda dt: ic.as_tz_aware_ts(dt, UTC)  # noqa: E731
        must_raise = hasattr(cls, "raises_MissingProperty") and cls.raises_MissingProperty(comp)
        try:
            got = fn(to_dt(start), to_dt(end), real_comp(comp), tzify)
            raised = None
        except ic.MissingProperty as e:
            got, raised = None, "MissingProperty"
        desc = {"start": start, "end": end,
                "comp": {k: ({"duration_s": p.dt.secs} if p.dt.secs is not None else
                             {"ts": p.dt.ts, "value_type": "DATE-TIME" if p.dt.is_datetime else "DATE"})
                         for k, p in comp.items()}}
        if must_raise != (raised is not None):
            return {"input": desc, "expected": "MissingProperty" if must_raise else "a result", "observed": raised or got}
        if raised:
            return None
        want = ns["rfc4791_" + self.which](start, end, comp)
        if bool(got) != bool(want):
            return {"input": desc, "expected": f"{self.which} time-range result {bool(want)} (RFC 4791 9.9 table)",
                    "observed": bool(got)}
        return None

    def comp_from_cex(self, cex):
        comp = {}
        ghosts = cex.get("$ghost", [])
        props = {}
        for g in ghosts:
            if g["f"] == "prop_of" and g["value"] is not None:
                props[g["args"][1]] = g["value"]
        dts = {g["args"][0]: g["value"] for g in ghosts if g["f"] == "Prop.dt"}
        ts = {g["args"][0]: g["value"] for g in ghosts if g["f"] == "ts_of"}
        tm = {g["args"][0]: g["value"] for g in ghosts if g["f"] == "DT.time"}
        secs = {g["args"][0]: g["value"] for g in ghosts if g["f"] == "DT.seconds"}
        for name, pid in props.items():
            d = dts.get(pid)
            if name == "DURATION":
                comp[name] = Pr(D(secs=max(0, int(secs.get(d, 0) or 0))))
            else:
                is_dt = tm.get(d, 1) is not None
                t = int(ts.get(d, 0) or 0)
                if not is_dt:
                    t -= t % 86400
                comp[name] = Pr(D(ts=t, is_datetime=is_dt))
        return comp

    def replay(self, req):
        cex = req.get("counterexample") or {}
        if req.get("input"):
            i = req["input"]
            comp = {}
            for k, v in i["comp"].items():
                comp[k] = Pr(D(secs=v["duration_s"])) if "duration_s" in v else Pr(D(ts=v["ts"], is_datetime=v["value_type"] == "DATE-TIME"))
            bad = self.check(i["start"], i["end"], comp)
        else:
            comp = self.comp_from_cex(cex)
            bad = self.check(int(cex.get("start", 0)), int(cex.get("end", 1)), comp)
        if bad:
            return dict(bad, reproduced=True)
        return {"reproduced": False}

    def grid(self, big=False):
        names = {"vevent": ["DTSTART", "DTEND", "DURATION"], "vjournal": ["DTSTART"],
                 "vtodo": ["DTSTART", "DUE", "DURATION", "COMPLETED", "CREATED"]}[self.which]
        tvals = [0, 86400, 2 * 86400] if not big else [0, 1, 86400, 86401, 2 * 86400]
        bounds = sorted({v + d for v in tvals for d in (-1, 0, 1)} | {3 * 86400})
        for present in itertools.product([False, True], repeat=len(names)):
            chosen = [n for n, p in zip(names, present) if p]
            opts = []
            for n in chosen:
                if n == "DURATION":
                    opts.append([Pr(D(secs=s)) for s in (0, 86400)])
                elif n == "DTSTART":
                    opts.append([Pr(D(ts=t, is_datetime=True)) for t in tvals[:2]] + [Pr(D(ts=86400, is_datetime=False))])
                else:
                    opts.append([Pr(D(ts=t, is_datetime=True)) for t in tvals])
            for combo in itertools.product(*opts):
                comp = dict(zip(chosen, combo))
                for s, e in itertools.combinations(bounds, 2):
                    yield s, e, comp

    def search(self, req):
        n = 0
        for s, e, comp in self.grid():
            n += 1
            bad = self.check(s, e, comp)
            if bad:
                return dict(bad, reproduced=True, tried=n)
        return {"reproduced": False, "tried": n}

    def bounded(self, req):
        r = self.search(req)
        return {"failing": r.get("reproduced", False), "tried": r.get("tried"), **{k: v for k, v in r.items() if k in ("input", "expected", "observed")}}


# ---------------------------------------------------------------- etag functions
class EtagMatches:
    ALPHA = ['"a"', '"b"', "*", " ", ",", "a", '"', ""]

    def check(self, condition, actual):
        import xandikos.webdav as w

        ns = load_specs("contracts/webdav_etag.py", {})
        want = ns["spec_etag_matches"](condition, actual)
        got = w.etag_matches(condition, actual)
        if bool(got) != bool(want):
            return {"input": {"condition": condition, "actual_etag": actual}, "expected": bool(want), "observed": bool(got)}
        return None

    def replay(self, req):
        i = req.get("input") or req.get("counterexample") or {}
        bad = self.check(i.get("condition", ""), i.get("actual_etag"))
        return dict(bad, reproduced=True) if bad else {"reproduced": False}

    def search(self, req):
        n = 0
        for k in range(0, 5):
            for parts in itertools.product(self.ALPHA, repeat=k):
                cond = "".join(parts)
                for actual in (None, '"a"', "a", ""):
                    n += 1
                    bad = self.check(cond, actual)
                    if bad:
                        return dict(bad, reproduced=True, tried=n)
        return {"reproduced": False, "tried": n}

    def bounded(self, req):
        r = self.search(req)
        return {"failing": r.get("reproduced", False), "tried": r.get("tried"), **{k: v for k, v in r.items() if k in ("input", "expected", "observed")}}


class StrongEtag:
    def check(self, etag):
        import xandikos.web as w

        bad = None
        if etag is not None:
            c = w.create_strong_etag(etag)
            if c != '"' + etag + '"':
                bad = {"input": {"etag": etag}, "expected": '"' + etag + '"', "observed": c}
            elif '"' not in etag and w.extract_strong_etag(c) != etag:
                bad = {"input": {"etag": etag}, "expected": etag, "observed": w.extract_strong_etag(c)}
        else:
            if w.extract_strong_etag(None) is not None:
                bad = {"input": {"etag": None}, "expected": None, "observed": w.extract_strong_etag(None)}
        if etag is not None:
            x = w.extract_strong_etag(etag)
            if x != etag.strip('"'):
                bad = {"input": {"etag": etag}, "expected": etag.strip('"'), "observed": x}
        return bad

    def replay(self, req):
        i = req.get("input") or req.get("counterexample") or {}
        bad = self.check(i.get("etag"))
        return dict(bad, reproduced=True) if bad else {"reproduced": False}

    def search(self, req):
        n = 0
        for k in range(0, 5):
            for parts in itertools.product(['"', "a", "0", " "], repeat=k):
                n += 1
                bad = self.check("".join(parts))
                if bad:
                    return dict(bad, reproduced=True, tried=n)
        bad = self.check(None)
        return dict(bad, reproduced=True) if bad else {"reproduced": False, "tried": n}

    def bounded(self, req):
        r = self.search(req)
        return {"failing": r.get("reproduced", False), "tried": r.get("tried"), **{k: v for k, v in r.items() if k in ("input", "expected", "observed")}}


class TzAware:
    """as_tz_aware_ts against its contract read natively: DATE -> midnight in the default zone,
    floating -> wall clock in the default zone, zoned -> unchanged."""

    def cases(self):
        zones = [UTC, datetime.timezone(datetime.timedelta(hours=5)), datetime.timezone(datetime.timedelta(hours=-8))]
        try:
            from zoneinfo import ZoneInfo

            zones.append(ZoneInfo("Europe/Amsterdam"))
        except Exception:
            pass
        vals = [datetime.date(2024, 3, 31), datetime.date(2024, 1, 1), datetime.datetime(2024, 3, 31, 2, 30),
                datetime.datetime(2024, 1, 1, 0, 0), datetime.datetime(2024, 6, 1, 12, 0, tzinfo=UTC),
                datetime.datetime(2024, 6, 1, 12, 0, tzinfo=zones[1])]
        return [(v, z) for v in vals for z in zones]

    def check(self, v, z):
        from xandikos.icalendar import as_tz_aware_ts

        if not isinstance(v, datetime.datetime):
            exp = datetime.datetime.combine(v, datetime.time()).replace(tzinfo=z)
        elif v.tzinfo is None:
            exp = v.replace(tzinfo=z)
        else:
            exp = v
        got = as_tz_aware_ts(v, z)
        if got != exp or got.tzinfo is None or got.utcoffset() != exp.utcoffset():
            return {"input": {"dt": repr(v), "default_timezone": repr(z)}, "expected": repr(exp), "observed": repr(got)}
        return None

    def search(self, req):
        n = 0
        for v, z in self.cases():
            n += 1
            bad = self.check(v, z)
            if bad:
                return dict(bad, reproduced=True, tried=n)
        return {"reproduced": False, "tried": n}

    replay = search

    def bounded(self, req):
        r = self.search(req)
        return {"failing": r.get("reproduced", False), "tried": r.get("tried"), **{k: v for k, v in r.items() if k in ("input", "expected", "observed")}}


HANDLERS = {
    "xandikos.icalendar.as_tz_aware_ts": TzAware(),
    "xandikos.icalendar.apply_time_range_vevent": TimeRange("vevent"),
    "xandikos.icalendar.apply_time_range_vtodo": TimeRange("vtodo"),
    "xandikos.icalendar.apply_time_range_vjournal": TimeRange("vjournal"),
    "xandikos.webdav.etag_matches": EtagMatches(),
    "xandikos.web.create_strong_etag": StrongEtag(),
    "xandikos.web.extract_strong_etag": StrongEtag(),
}

if __name__ == "__main__":
    main(HANDLERS)
