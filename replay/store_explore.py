"""Bounded stand-in for the store functions (labelled *bounded*, never counted as proved).

Runs histories of store operations on the REAL stores (tree-git, bare-git, vdir) and
compares every observable with the abstract model the contracts are written over
(member map M, uid uniqueness, etags = hash of stored bytes, ctag per state, change
lists between recorded states, one commit per effective change, index = HEAD = work tree).

modes: bounded (enumerate / sample), replay (re-run one history), search (= bounded, stop at first)
Bound: all histories of length <= DEPTH over 2 names x 2 uids x {no etag, current etag, stale etag}
plus deletes and restarts (quick: a seeded sample of them)."""
import hashlib
import itertools
import json
import os
import random
import shutil
import sys
import tempfile

from common import main

sys.path.insert(0, os.environ.get("VERIF_REPO", "/repo"))

NAMES = ["a.ics", "b.ics"]
# one UID with characters that are escaped in the serialised form, one long enough to be folded
UIDS = ["u\\,1\\;x", "u2-" + "0123456789" * 9]


# a long text with blanks at many offsets: when it is folded at 75 octets some physical line ends
# in a blank that belongs to the value (checked once below)
PROSE = " ".join("abcdefg"[: 1 + (i * 5) % 7] for i in range(160))


def _prose_is_effective():
    from icalendar.cal import Calendar

    body = ics("probe", 1).encode()
    out = Calendar.from_ical(body).to_ical()
    return any(l.endswith(b" ") for l in out.split(b"\r\n"))


def ics(uid, n):
    # version 1 carries multi-valued properties in a non-sorted order (C14: what is stored is
    # the normalised upload, whatever the server computed on the way - e.g. the commit message)
    # ... and a long text whose 75-octet folds fall next to blanks (several offsets)
    prose = "DESCRIPTION:" + PROSE + "\r\n"
    # versions 0 and 2 have the same length (a rewrite that keeps size and, within a second, mtime)
    extra = "" if n in (0, 2) else ("CATEGORIES:zeta\r\nCATEGORIES:alpha\r\nATTENDEE:mailto:z@example.com\r\nATTENDEE:mailto:a@example.com\r\n" + prose)
    return (f"BEGIN:VCALENDAR\r\nVERSION:2.0\r\nPRODID:-//x//y//EN\r\nBEGIN:VEVENT\r\nUID:{uid}\r\n"
            f"DTSTAMP:20200101T000000Z\r\nDTSTART:20200101T000000Z\r\nSUMMARY:v{n}\r\n{extra}END:VEVENT\r\nEND:VCALENDAR\r\n")


def alphabet():
    ops = []
    for n in NAMES:
        for u in UIDS:
            for v in (0, 1, 2):
                for em in ("none", "cur", "stale"):
                    ops.append(("put", n, u, v, em))
        for em in ("none", "cur", "stale"):
            ops.append(("del", n, em))
    # add-member without a name (POST): the store picks the name; "a" is a UID that is also the
    # base of a member name used above
    for u in UIDS + ["a"]:
        ops.append(("post", u, 0))
    # collection metadata: setting a display name (twice the same value: the second is a no-op)
    for v in ("Name one", "Name two"):
        ops.append(("meta", v))
    # the next operation is carried out by a second store object opened on the same directory
    # (another server process): what one handle keeps in memory must not be trusted across writes
    ops.append(("other",))
    ops.append(("restart",))
    return ops


def open_store(backend, path, create):
    from xandikos.store.git import BareGitStore, TreeGitStore, GitStore
    from xandikos.store.vdir import VdirStore
    from xandikos.icalendar import ICalendarFile

    if backend == "tree-git":
        s = TreeGitStore.create(path) if create else GitStore.open_from_path(path)
    elif backend == "bare-git":
        s = BareGitStore.create(path) if create else GitStore.open_from_path(path)
    else:
        s = VdirStore.create(path) if create else VdirStore.open_from_path(path)
    s.load_extra_file_handler(ICalendarFile)
    return s


def git_state(store):
    """(commit count, head id, head tree entries) by walking the ref."""
    repo = store.repo
    try:
        head = repo.refs[store.ref]
    except KeyError:
        return 0, None, {}
    n = 0
    c = repo[head]
    tree = {name.decode(): sha.decode() for name, mode, sha in repo[c.tree].iteritems()}
    cur = c
    while True:
        n += 1
        if not cur.parents:
            break
        cur = repo[cur.parents[0]]
    return n, head, tree


def check_clean(store, backend):
    """tree-git: index == HEAD tree and work-tree files hash to the index entries."""
    if backend != "tree-git":
        return None
    from dulwich.objects import Blob

    repo = store.repo
    idx = repo.open_index()
    n, head, tree = git_state(store)
    index_entries = {k.decode(): idx[k].sha.decode() for k in idx}
    if index_entries != tree:
        return f"index {index_entries} != HEAD tree {tree}"
    for name, sha in index_entries.items():
        p = os.path.join(repo.path, name)
        if not os.path.exists(p):
            return f"work-tree file {name} missing"
        with open(p, "rb") as f:
            if Blob.from_string(f.read()).id.decode() != sha:
                return f"work-tree file {name} differs from the index"
    for fn in os.listdir(repo.path):
        if fn != ".git" and os.path.isfile(os.path.join(repo.path, fn)) and fn not in index_entries:
            return f"untracked work-tree file {fn}"
    return None


def run_history(backend, hist):
    """-> None if every observation agrees with the model, else a failure dict."""
    from xandikos.store import DuplicateUidError, InvalidETag, NoSuchItem

    d = tempfile.mkdtemp(prefix="verif-explore-")
    path = os.path.join(d, "c")
    M = {}          # name -> (uid, etag)
    stale = {}      # name -> some earlier etag of that name
    tags = []       # (ctag, snapshot of {name: etag})
    log = []
    try:
        s = open_store(backend, path, True)
        is_git = backend != "vdir"
        commits = git_state(s)[0] if is_git else 0

        meta_box = [None]

        def fail(msg, step):
            return {"backend": backend, "history": [list(o) for o in hist], "step": step, "expected": msg[0], "observed": msg[1], "log": log}

        def observe(step):
            listing = sorted((n, e) for n, ct, e in s.iter_with_etag())
            want = sorted((n, M[n][1]) for n in M)
            if listing != want:
                return fail((f"listing {want}", f"{listing}"), step)
            for n, (u, e) in M.items():
                raw = b"".join(s._get_raw(n, e))
                if is_git:
                    from dulwich.objects import Blob

                    if Blob.from_string(raw).id.decode() != e:
                        return fail((f"bytes of {n} hash to its etag {e}", "they do not"), step)
                else:
                    if hashlib.md5(raw).hexdigest() != e:
                        return fail((f"bytes of {n} hash to its etag {e}", "they do not"), step)
            uids = [u for (u, e) in M.values()]
            if len(set(uids)) != len(uids):
                return fail(("unique uids", f"{M}"), step)
            if is_git:
                ct = s.get_ctag()
                snap = {n: M[n][1] for n in M}
                snap["\x00displayname"] = meta_box[0]   # collection metadata is part of what the tag identifies
                for (t, sn) in tags:
                    if (t == ct) != (sn == snap):
                        return fail((f"ctag equal iff contents equal (C08)", f"tag {t} for {sn} vs {ct} for {snap}"), step)
                tags.append((ct, snap))
                # C07: change list from every recorded tag to now
                for (t, sn) in tags[-4:]:
                    try:
                        ch = sorted((n, o, nw) for (n, c_, o, nw) in s.iter_changes(t, ct))
                    except Exception as e:  # a token we issued must be accepted
                        return fail((f"iter_changes({t}, now) succeeds", f"{type(e).__name__}: {e}"), step)
                    wantch = sorted((n, sn.get(n), snap.get(n)) for n in set(sn) | set(snap)
                                    if sn.get(n) != snap.get(n) and not n.startswith("\x00"))
                    if ch != wantch:
                        return fail((f"changes since {sn}: {wantch}", f"{ch}"), step)
                bad = check_clean(s, backend)
                if bad:
                    return fail(("index == HEAD == work tree (C09)", bad), step)
            return None

        vcount = {}
        handles = [s, None]
        hidx = 0
        meta = None
        for step, op in enumerate(hist):
            meta_box[0] = meta
            if op[0] == "restart":
                s = open_store(backend, path, False)
                handles = [s, None]
                hidx = 0
                log.append("restart")
            elif op[0] == "other":
                hidx = 1 - hidx
                if handles[hidx] is None:
                    handles[hidx] = open_store(backend, path, False)
                s = handles[hidx]
                log.append(f"switch to store object #{hidx}")
                continue
            elif op[0] == "meta":
                if not is_git:
                    continue
                _, value = op
                before = git_state(s)[0]
                try:
                    s.set_displayname(value)
                except Exception as e:
                    return fail(("set_displayname succeeds", f"{type(e).__name__}: {e}"), step)
                log.append(f"set_displayname({value!r})")
                after = git_state(s)[0]
                want_c = before + (0 if meta == value else 1)
                if after != want_c:
                    return fail((f"{want_c} commits (a property write is one commit, writing the value it already has is none: C09)", f"{after}"), step)
                meta = value
                meta_box[0] = meta
                got = open_store(backend, path, False).get_displayname()
                if got != value:
                    return fail((f"display name {value!r} after a restart (C15)", f"{got!r}"), step)
            elif op[0] == "put":
                _, name, uid, v, em = op
                body = ics(uid, v).encode()
                cur = M.get(name, (None, None))[1]
                et = None if em == "none" else (cur if em == "cur" else stale.get(name, "0" * 40 if is_git else "0" * 32))
                if em == "cur" and cur is None:
                    continue
                conflict = any(n != name and u == uid for n, (u, e) in M.items())
                before = git_state(s)[0] if is_git else 0
                try:
                    (rn, retag) = s.import_one(name, "text/calendar", [body], replace_etag=et)
                    outcome = "ok"
                except DuplicateUidError:
                    outcome = "dup"
                except InvalidETag:
                    outcome = "etag"
                except Exception as e:
                    return fail(("import_one returns or raises DuplicateUidError/InvalidETag", f"{type(e).__name__}: {e}"), step)
                want = "dup" if conflict else ("etag" if (et is not None and et != cur) else "ok")
                log.append(f"put {name} {uid} v{v} etag={em} -> {outcome}")
                if outcome != want:
                    return fail((f"import_one({name}, uid={uid}, replace_etag={em}) -> {want}", outcome), step)
                if outcome == "ok":
                    if rn != name:
                        return fail((f"returned name {name}", rn), step)
                    from xandikos.icalendar import ICalendarFile

                    fresh = b"".join(ICalendarFile([body], "text/calendar").normalized())
                    stored = b"".join(s._get_raw(name, retag))
                    if stored != fresh:
                        return fail(("the stored bytes are the normalised upload (C14)", f"stored {stored[-160:]!r}"), step)
                    # C14 fixed point: uploading the stored bytes again is a no-op (same etag, no commit)
                    c0 = git_state(s)[0] if is_git else 0
                    try:
                        (_, e2) = s.import_one(name, "text/calendar", [stored], replace_etag=retag)
                    except Exception as e:
                        return fail(("re-uploading the stored bytes is accepted", f"{type(e).__name__}: {e}"), step)
                    if e2 != retag or (is_git and git_state(s)[0] != c0):
                        return fail(("re-uploading the stored bytes keeps the etag and adds no commit (C14)",
                                     f"etag {retag} -> {e2}, commits {c0} -> {git_state(s)[0] if is_git else 0}"), step)
                    if cur is not None and cur != retag:
                        stale[name] = cur
                    changed = cur != retag
                    M[name] = (uid, retag)
                    if is_git:
                        after = git_state(s)[0]
                        if after != before + (1 if changed else 0):
                            return fail((f"{before + (1 if changed else 0)} commits (one per effective change, C09)", f"{after}"), step)
                elif is_git and git_state(s)[0] != before:
                    return fail(("a refused write adds no commit", "commit added"), step)
            elif op[0] == "post":
                _, uid, v = op
                body = ics(uid, v).encode()
                conflict = any(u == uid for n, (u, e) in M.items())
                before = git_state(s)[0] if is_git else 0
                try:
                    (rn, retag) = s.import_one(None, "text/calendar", [body])
                    outcome = "ok"
                except DuplicateUidError:
                    outcome = "dup"
                except Exception as e:
                    return fail(("import_one(None, ...) returns or raises DuplicateUidError", f"{type(e).__name__}: {e}"), step)
                want = "dup" if conflict else "ok"
                log.append(f"post uid={uid} -> {outcome}" + (f" as {rn}" if outcome == "ok" else ""))
                if outcome != want:
                    return fail((f"import_one(None, uid={uid}) -> {want}", outcome), step)
                if outcome == "ok":
                    if rn in M:
                        return fail((f"an add-member without a name creates a new member (C01: no other member changes)",
                                     f"it was stored under the existing name {rn}"), step)
                    M[rn] = (uid, retag)
                    if is_git and git_state(s)[0] != before + 1:
                        return fail((f"{before + 1} commits", f"{git_state(s)[0]}"), step)
                elif is_git and git_state(s)[0] != before:
                    return fail(("a refused write adds no commit", "commit added"), step)
            elif op[0] == "del":
                _, name, em = op
                cur = M.get(name, (None, None))[1]
                et = None if em == "none" else (cur if em == "cur" else stale.get(name, "0" * 40 if is_git else "0" * 32))
                if em == "cur" and cur is None:
                    continue
                before = git_state(s)[0] if is_git else 0
                try:
                    s.delete_one(name, etag=et)
                    outcome = "ok"
                except NoSuchItem:
                    outcome = "missing"
                except InvalidETag:
                    outcome = "etag"
                except Exception as e:
                    return fail(("delete_one returns or raises NoSuchItem/InvalidETag", f"{type(e).__name__}: {e}"), step)
                want = "missing" if cur is None else ("etag" if (et is not None and et != cur) else "ok")
                log.append(f"del {name} etag={em} -> {outcome}")
                if outcome != want:
                    return fail((f"delete_one({name}, etag={em}) -> {want}", outcome), step)
                if outcome == "ok":
                    stale[name] = cur
                    del M[name]
                    if is_git and git_state(s)[0] != before + 1:
                        return fail((f"{before + 1} commits", f"{git_state(s)[0]}"), step)
                elif is_git and git_state(s)[0] != before:
                    return fail(("a refused delete adds no commit", "commit added"), step)
            bad = observe(step)
            if bad:
                return bad
        return None
    finally:
        shutil.rmtree(d, ignore_errors=True)


def histories(depth, seed, sample):
    ops = alphabet()
    rng = random.Random(seed)
    if sample is None:
        for k in range(1, depth + 1):
            yield from itertools.product(ops, repeat=k)
    else:
        # always include the known-interesting skeletons, then random ones
        u1, u2 = UIDS
        for sk in (
            [("meta", "Name one"), ("meta", "Name one"), ("meta", "Name two")],
            # another process changes a member's uid and gives the old uid to a new member; this
            # process (whose in-memory uid map still says a.ics = u1) must then refuse u1 for a.ics
            [("put", "a.ics", u1, 0, "none"), ("other",), ("put", "a.ics", u2, 0, "none"), ("put", "b.ics", u1, 0, "none"),
             ("other",), ("put", "a.ics", u1, 1, "none")],
            # ... deletes a member this process listed before; tags and listings must follow
            [("put", "a.ics", u1, 0, "none"), ("other",), ("del", "a.ics", "none"), ("other",), ("put", "b.ics", u1, 0, "none")],
            [("put", "a.ics", u1, 0, "none"), ("del", "a.ics", "none"), ("put", "a.ics", u1, 0, "none")],
        ):
            yield tuple(sk)
        for _ in range(sample):
            k = rng.randint(2, depth)
            yield tuple(rng.choice(ops) for _ in range(k))


class Explore:
    def bounded(self, req):
        if not _prose_is_effective():
            return {"error": "harness: the folded test text has no physical line ending in a blank (C14 fixed-point oracle would be vacuous)"}
        tier = req.get("tier", "quick")
        seed = int(req.get("seed", 0) or 0)
        backends = req.get("backends") or ["tree-git", "bare-git", "vdir"]
        tried = 0
        for backend in backends:
            if tier == "quick":
                hs = histories(5, seed, 250)
            else:
                # all histories of length <= 2, then a large seeded sample of longer ones
                hs = itertools.chain(histories(2, seed, None), histories(6, seed + 1, 3000))
            for h in hs:
                tried += 1
                bad = run_history(backend, h)
                if bad:
                    return {"failing": True, "tried": tried, "input": {"backend": bad["backend"], "history": bad["history"]},
                            "expected": bad["expected"], "observed": bad["observed"], "step": bad["step"], "log": bad["log"]}
        return {"failing": False, "tried": tried,
                "bound": ("250 seeded histories of length 2-5 per back end" if tier == "quick"
                          else "all histories of length <= 2 plus 3000 seeded histories of length 2-6, per back end")}

    def search(self, req):
        r = self.bounded(dict(req, tier="quick"))
        return dict(r, reproduced=r.get("failing", False))

    def replay(self, req):
        i = req.get("input")
        if not i:
            return self.search(req)
        bad = run_history(i["backend"], [tuple(o) for o in i["history"]])
        if bad:
            return {"reproduced": True, "input": i, "expected": bad["expected"], "observed": bad["observed"]}
        return {"reproduced": False}


if __name__ == "__main__":
    main({"*": Explore()})
