"""Bounded stand-in / replay for the HTTP layer: drives the REAL WSGI callable
(XandikosApp.handle_wsgi_request) with request sequences on a temporary data directory and
compares the answers with an abstract model of the collection (C01, C02, C03, C13, C16, C17).

modes: bounded | search | replay.   Probes are grouped; `function` selects the relevant group."""
import io
import itertools
import json
import os
import random
import re
import shutil
import sys
import tempfile
import urllib.parse

from common import main

sys.path.insert(0, os.environ.get("VERIF_REPO", "/repo"))


def ics(uid, n=0):
    # version 1 carries text that must survive every representation: non-BMP, XML metacharacters
    extra = "" if n == 0 else " \U0001F600 é & <b> ]]>"
    return (f"BEGIN:VCALENDAR\r\nVERSION:2.0\r\nPRODID:-//x//y//EN\r\nBEGIN:VEVENT\r\nUID:{uid}\r\n"
            f"DTSTAMP:20200101T000000Z\r\nDTSTART:20200101T000000Z\r\nSUMMARY:v{n}{extra}\r\nEND:VEVENT\r\nEND:VCALENDAR\r\n").encode()


class Server:
    def __init__(self, prefix=""):
        from xandikos.web import XandikosApp, XandikosBackend

        self.top = tempfile.mkdtemp(prefix="verif-http-")
        self.root = os.path.join(self.top, "root")
        os.mkdir(self.root)
        self.prefix = prefix
        self.backend = XandikosBackend(self.root)
        self.backend.create_principal("/user/", create_defaults=True)
        self.app = XandikosApp(self.backend, current_user_principal="/user/")

    def close(self):
        shutil.rmtree(self.top, ignore_errors=True)

    def restart(self):
        from xandikos.web import XandikosApp, XandikosBackend, open_store_from_path

        open_store_from_path.cache_clear()
        self.backend = XandikosBackend(self.root)
        self.backend._mark_as_principal("/user/")
        self.app = XandikosApp(self.backend, current_user_principal="/user/")

    def request(self, method, path, headers=None, body=b"", raw=False):
        """path: the request target as sent (percent-encoded); the WSGI server decodes it."""
        headers = headers or {}
        if raw:
            path_info = path
        else:
            path_info = urllib.parse.unquote_to_bytes(path.split("?")[0]).decode("latin-1")
        env = {
            "REQUEST_METHOD": method, "SCRIPT_NAME": self.prefix, "PATH_INFO": path_info,
            "SERVER_NAME": "localhost", "SERVER_PORT": "80", "wsgi.url_scheme": "http",
            "wsgi.input": io.BytesIO(body), "CONTENT_LENGTH": str(len(body)), "wsgi.errors": sys.stderr,
        }
        for k, v in headers.items():
            if k.lower() == "content-type":
                env["CONTENT_TYPE"] = v
            else:
                env["HTTP_" + k.upper().replace("-", "_")] = v
        out = {}

        def start_response(status, hdrs, exc_info=None):
            out["status"] = int(status.split(" ")[0])
            out["headers"] = dict(hdrs)

        try:
            chunks = self.app.handle_wsgi_request(env, start_response)
            out["body"] = b"".join(chunks)
        except Exception as e:  # an unhandled exception is a 500 for the client
            out["status"] = 500
            out["headers"] = {}
            out["body"] = f"{type(e).__name__}: {e}".encode()
        return out

    def outside(self):
        """Everything that exists in the temp area outside the data root."""
        return sorted(x for x in os.listdir(self.top) if x != "root")


CAL = "/user/calendars/calendar/"


def refusal(resp):
    return resp["status"] >= 400 or (resp["status"] == 207 and b"<ns0:error" in resp["body"] or b":error" in resp["body"])


# ----------------------------------------------------------------------------- probes
def probe_traversal(seed, limit):
    """C13: no request target makes the server touch anything outside the root."""
    segs = ["..", "%2e%2e", "..%2f", ".", "x", "", "%2e%2e%2f..", "..%2f.."]
    methods = ["MKCOL", "MKCALENDAR", "PUT", "DELETE", "PROPFIND", "GET"]
    n = 0
    for method in methods:
        for k in (2, 3, 4):
            for combo in itertools.product(segs, repeat=k):
                n += 1
                if n > limit:
                    return None
                path = "/user/" + "/".join(combo) + "/evil"
                s = Server()
                try:
                    body = ics("u") if method == "PUT" else b""
                    hdr = {"Content-Type": "text/calendar"} if method == "PUT" else {}
                    r = s.request(method, path, hdr, body)
                    out = s.outside()
                    if out:
                        return {"input": {"requests": [[method, path, hdr, body.decode()]]},
                                "expected": "nothing is created outside the data root",
                                "observed": f"{method} {path} -> {r['status']}; outside the root now: {out}"}
                finally:
                    s.close()
    return None


def probe_members(seed, limit):
    """C13 / C01 at member level: member names with (single / double) encoded separators and dot
    segments stay inside their collection directory; the collection's own metadata file and git
    control directory are not addressable as members."""
    import hashlib

    def snapshot(root):
        out = {}
        for d, dirs, files in os.walk(root):
            for f in files:
                p = os.path.join(d, f)
                try:
                    with open(p, "rb") as fh:
                        out[os.path.relpath(p, root)] = hashlib.md5(fh.read()).hexdigest()
                except OSError:
                    pass
        return out

    names = ["..%2F..%2Foutside.ics", "..%252F..%252Foutside.ics", "%2e%2e%2f%2e%2e%2foutside.ics", "..%2F..%2F..%2F..%2Foutside%2Fx.ics",
             "..%252F..%252F..%252F..%252Foutside%252Fx.ics", "..%5c..%5coutside.ics", "a%2Fb.ics", "%2Fetc%2Fx.ics"]
    n = 0
    for nm in names:
        for method in ("PUT", "DELETE", "GET"):
            n += 1
            if n > limit:
                return None
            s = Server()
            try:
                os.mkdir(os.path.join(s.top, "outside"))
                with open(os.path.join(s.top, "outside", "precious.ics"), "wb") as f:
                    f.write(b"precious")
                coll_dir = os.path.join(s.root, "user", "calendars", "calendar")
                other = {k: v for k, v in snapshot(s.top).items() if not k.startswith(os.path.relpath(coll_dir, s.top) + os.sep)}
                path = CAL + nm
                r = s.request(method, path, {"Content-Type": "text/calendar"} if method == "PUT" else {}, ics("u-esc") if method == "PUT" else b"")
                now = {k: v for k, v in snapshot(s.top).items() if not k.startswith(os.path.relpath(coll_dir, s.top) + os.sep)}
                if now != other:
                    diff = sorted(set(now.items()) ^ set(other.items()))[:4]
                    return {"input": {"requests": [[method, path, {}, ""]]},
                            "expected": "nothing outside the addressed collection's directory changes",
                            "observed": f"{method} {path} -> {r['status']}; changed outside the collection: {diff}"}
            finally:
                s.close()
    # reserved names
    for nm in (".xandikos", ".git"):
        s = Server()
        try:
            s.request("PROPPATCH", CAL, {"Content-Type": "text/xml"},
                      b"<D:propertyupdate xmlns:D='DAV:'><D:set><D:prop><D:displayname>Kept</D:displayname></D:prop></D:set></D:propertyupdate>")
            s.request("PUT", CAL + "m.ics", {"Content-Type": "text/calendar"}, ics("u-m"))
            before = s.request("PROPFIND", CAL, {"Depth": "1"})
            outs = []
            for method in ("GET", "PUT", "DELETE"):
                r = s.request(method, CAL + nm, {"Content-Type": "text/calendar"} if method == "PUT" else {}, ics("u-r") if method == "PUT" else b"")
                outs.append((method, r["status"]))
                if method == "GET" and r["status"] == 200:
                    return {"input": {"requests": [["GET", CAL + nm, {}, ""]]}, "expected": f"{nm} is not a member: 404",
                            "observed": f"GET {CAL + nm} -> 200 ({r['body'][:60]!r})"}
                if method in ("PUT", "DELETE") and r["status"] in (200, 201, 204):
                    return {"input": {"requests": [[method, CAL + nm, {}, ""]]}, "expected": f"{nm} is not a member: refused",
                            "observed": f"{method} {CAL + nm} -> {r['status']}"}
            after = s.request("PROPFIND", CAL, {"Depth": "1"})
            g = s.request("GET", CAL + "m.ics")
            if after["status"] != 207 or g["status"] != 200 or b"Kept" not in after["body"]:
                return {"input": {"requests": [[m_, CAL + nm, {}, ""] for m_, _ in outs]},
                        "expected": "the collection, its properties and its members are untouched",
                        "observed": f"{outs}; PROPFIND -> {after['status']}, GET m.ics -> {g['status']}, displayname kept: {b'Kept' in after['body']}"}
        finally:
            s.close()
    return None


def probe_multiget_independence(seed, limit):
    """C17: the answer for one href does not depend on the other hrefs of the request - checked with
    hrefs in sibling collections whose names share a prefix, nested and missing paths; C08: a
    collection deleted and created again at the same URL does not inherit the old tags."""
    from xml.etree import ElementTree as ET

    s = Server()
    try:
        home = "/user/calendars/"
        cal2 = home + "calendar2/"
        s.request("MKCALENDAR", cal2)
        s.request("PUT", CAL + "a.ics", {"Content-Type": "text/calendar"}, ics("u-a", 0))
        s.request("PUT", CAL + "b.ics", {"Content-Type": "text/calendar"}, ics("u-b", 0))
        s.request("PUT", cal2 + "a.ics", {"Content-Type": "text/calendar"}, ics("u-a2", 1))
        hrefs = [CAL + "a.ics", cal2 + "a.ics", cal2 + "b.ics", CAL + "2024/b.ics", CAL + "b.ics", home + "calendar/../calendar2/a.ics"]

        def multiget(hs):
            body = ("<C:calendar-multiget xmlns:D='DAV:' xmlns:C='urn:ietf:params:xml:ns:caldav'><D:prop><D:getetag/></D:prop>"
                    + "".join(f"<D:href>{h}</D:href>" for h in hs) + "</C:calendar-multiget>").encode()
            r = s.request("REPORT", CAL, {"Content-Type": "text/xml", "Depth": "1"}, body)
            if r["status"] != 207:
                return None
            out = {}
            for resp in ET.fromstring(r["body"]).findall("{DAV:}response"):
                h = resp.find("{DAV:}href").text
                st = resp.find("{DAV:}status")
                et = resp.find(".//{DAV:}getetag")
                out.setdefault(h, []).append((st.text if st is not None else "propstat", et.text if et is not None else None))
            return out

        together = multiget(hrefs)
        if together is None:
            return {"input": {"requests": [["REPORT", CAL, {}, "multiget " + " ".join(hrefs)]]}, "expected": "207", "observed": "not 207"}
        for h in hrefs[:limit]:
            alone = multiget([h])
            if alone is None or together.get(h) != alone.get(h) or len(together.get(h) or []) != 1:
                return {"input": {"requests": [["REPORT", CAL, {}, "multiget " + " ".join(hrefs)]]},
                        "expected": f"{h} answered once, as when it is requested alone: {alone and alone.get(h)}",
                        "observed": f"{together.get(h)}"}
        # C17 "every distinct requested href exactly once": literal repeats (of existing, missing, absolute-URL,
        # percent-encoded and outside-the-prefix hrefs) never add answers; every addressed path is answered
        s2 = Server(prefix="/dav")
        try:
            P = "/dav" + CAL
            s2.request("PUT", CAL + "a.ics", {"Content-Type": "text/calendar"}, ics("u-a", 0))
            s2.request("PUT", CAL + "b.ics", {"Content-Type": "text/calendar"}, ics("u-b", 0))
            lists = [
                [P + "a.ics", P + "b.ics", P + "a.ics"],
                [P + "missing.ics", P + "a.ics", P + "missing.ics"],
                ["/other/x.ics", P + "a.ics", "/other/x.ics"],
                ["http://localhost" + P + "a.ics", P + "b.ics", "http://localhost" + P + "a.ics"],
                [P + "%61.ics", P + "%61.ics", P + "b.ics"],
                [P + "a.ics", "http://localhost" + P + "a.ics", P + "%61.ics", P + "b.ics"],
            ]
            for hs in lists:
                body = ("<C:calendar-multiget xmlns:D='DAV:' xmlns:C='urn:ietf:params:xml:ns:caldav'><D:prop><D:getetag/></D:prop>"
                        + "".join(f"<D:href>{h}</D:href>" for h in hs) + "</C:calendar-multiget>").encode()
                r = s2.request("REPORT", CAL, {"Content-Type": "text/xml", "Depth": "1"}, body)
                inp = {"requests": [["REPORT", P, {}, "multiget " + " ".join(hs)]], "script_name": "/dav"}
                if r["status"] != 207:
                    return {"input": inp, "expected": "207", "observed": r["status"]}
                answered = [x.find("{DAV:}href").text for x in ET.fromstring(r["body"]).findall("{DAV:}response")]

                def path_of(h):
                    h = urllib.parse.unquote(urllib.parse.urlsplit(h).path)
                    return h
                for h in set(answered):
                    if answered.count(h) != 1:
                        return {"input": inp, "expected": f"{h} answered exactly once", "observed": f"answered {answered.count(h)} times: {answered}"}
                if {path_of(h) for h in answered} != {path_of(h) for h in hs}:
                    return {"input": inp, "expected": f"one answer for each of {sorted({path_of(h) for h in hs})}", "observed": f"{answered}"}
                if len(answered) > len({path_of(h) for h in hs}) and len(set(hs)) == len({path_of(h) for h in hs}):
                    return {"input": inp, "expected": f"{len(set(hs))} answers", "observed": f"{answered}"}
        finally:
            s2.close()
        # delete + re-create at the same URL
        def tags(url):
            r = s.request("PROPFIND", url, {"Depth": "0", "Content-Type": "text/xml"},
                          b"<D:propfind xmlns:D='DAV:' xmlns:CS='http://calendarserver.org/ns/'><D:prop><CS:getctag/><D:sync-token/><D:getetag/></D:prop></D:propfind>")
            if r["status"] != 207:
                return None
            el = ET.fromstring(r["body"])
            return tuple((x.text or "") for x in el.iter() if x.tag in ("{http://calendarserver.org/ns/}getctag", "{DAV:}sync-token", "{DAV:}getetag"))
        full = tags(cal2)
        d = s.request("DELETE", cal2)
        m = s.request("MKCALENDAR", cal2)
        fresh = tags(cal2)
        s.request("MKCALENDAR", home + "calendar3/")
        empty = tags(home + "calendar3/")
        if d["status"] in (200, 204) and m["status"] == 201 and full and fresh and fresh == full:
            return {"input": {"requests": [["DELETE", cal2, {}, ""], ["MKCALENDAR", cal2, {}, ""]]},
                    "expected": "the re-created, empty calendar does not report the tags of the deleted one that had members",
                    "observed": f"tags before the delete {full}, after re-creation {fresh} (a never-used empty calendar: {empty})"}
    finally:
        s.close()
    return None


def probe_validators(seed, limit):
    """C02: what GET serves is what was stored, byte for byte, for a vCard with bare-LF line ends, and its
    ETag is the git blob id of exactly those bytes; C08: a write inside a nested collection moves none of
    the outer collection's tags; C17 / C16: a member whose name contains '+' is answered by multiget under
    its literal href exactly as GET answers it."""
    import hashlib
    from xml.etree import ElementTree as ET

    def blob_id(b):
        return hashlib.sha1(b"blob %d\0" % len(b) + b).hexdigest()

    s = Server()
    try:
        ab = "/user/contacts/addressbook/"
        for label, card in (("LF", b"BEGIN:VCARD\nVERSION:3.0\nFN:Line Feed\nN:Feed;Line;;;\nEND:VCARD\n"),
                            ("CRLF", b"BEGIN:VCARD\r\nVERSION:3.0\r\nFN:Line Feed\r\nN:Feed;Line;;;\r\nEND:VCARD\r\n")):
            r = s.request("PUT", ab + "lf.vcf", {"Content-Type": "text/vcard"}, card)
            g = s.request("GET", ab + "lf.vcf")
            inp = {"requests": [["PUT", ab + "lf.vcf", {"Content-Type": "text/vcard"}, card.decode()], ["GET", ab + "lf.vcf", {}, ""]]}
            if r["status"] not in (201, 204) or g["status"] != 200:
                return {"input": inp, "expected": "PUT 201/204 and GET 200", "observed": f"{r['status']} / {g['status']}"}
            if g["body"] != card:
                return {"input": inp, "expected": f"GET serves the {label} vCard byte for byte", "observed": repr(g["body"][:80])}
            et = (g["headers"].get("ETag") or "").strip('"')
            if et != blob_id(g["body"]) or (r["headers"].get("ETag") or "").strip('"') != et:
                return {"input": inp, "expected": f"ETag of PUT and GET = git blob id of the served bytes ({blob_id(g['body'])})",
                        "observed": f"PUT {r['headers'].get('ETag')} GET {g['headers'].get('ETag')}"}
        # nested collections
        outer, inner = "/user/calendars/outer/", "/user/calendars/outer/inner/"
        s.request("MKCALENDAR", outer)
        s.request("MKCALENDAR", inner)

        def tags(url):
            r_ = s.request("PROPFIND", url, {"Depth": "0", "Content-Type": "text/xml"},
                           b"<D:propfind xmlns:D='DAV:' xmlns:CS='http://calendarserver.org/ns/'><D:prop><CS:getctag/><D:getctag/><D:sync-token/><D:getetag/></D:prop></D:propfind>")
            if r_["status"] != 207:
                return None
            return tuple((x.tag, x.text or "") for x in ET.fromstring(r_["body"]).iter()
                         if x.tag in ("{http://calendarserver.org/ns/}getctag", "{DAV:}getctag", "{DAV:}sync-token", "{DAV:}getetag"))
        before = tags(outer)
        w = s.request("PUT", inner + "x.ics", {"Content-Type": "text/calendar"}, ics("u-inner", 0))
        after = tags(outer)
        if before is None or after is None or (w["status"] in (201, 204) and before != after):
            return {"input": {"requests": [["MKCALENDAR", outer, {}, ""], ["MKCALENDAR", inner, {}, ""], ["PUT", inner + "x.ics", {}, "..."]]},
                    "expected": f"the tags of {outer} are not moved by a write to {inner}: {before}", "observed": f"{after}"}
        w2 = s.request("PUT", outer + "y.ics", {"Content-Type": "text/calendar"}, ics("u-outer", 0))
        if w2["status"] in (201, 204) and tags(outer) == after:
            return {"input": {"requests": [["PUT", outer + "y.ics", {}, "..."]]}, "expected": f"a write to {outer} moves its tags", "observed": f"{after}"}
        # a '+' in a member name
        plus = CAL + "team+ops.ics"
        p_ = s.request("PUT", plus, {"Content-Type": "text/calendar"}, ics("u-plus", 0))
        g = s.request("GET", plus)
        body = ("<C:calendar-multiget xmlns:D='DAV:' xmlns:C='urn:ietf:params:xml:ns:caldav'><D:prop><D:getetag/></D:prop>"
                f"<D:href>{plus}</D:href></C:calendar-multiget>").encode()
        m = s.request("REPORT", CAL, {"Content-Type": "text/xml", "Depth": "1"}, body)
        inp = {"requests": [["PUT", plus, {}, "..."], ["REPORT", CAL, {}, "multiget " + plus]]}
        if p_["status"] not in (201, 204) or g["status"] != 200 or m["status"] != 207:
            return {"input": inp, "expected": "PUT 201, GET 200, REPORT 207", "observed": f"{p_['status']} {g['status']} {m['status']}"}
        resp = ET.fromstring(m["body"]).findall("{DAV:}response")
        ok = (len(resp) == 1 and urllib.parse.unquote(resp[0].find("{DAV:}href").text) == plus
              and (resp[0].find(".//{DAV:}getetag") is not None and resp[0].find(".//{DAV:}getetag").text == g["headers"].get("ETag")))
        if not ok:
            return {"input": inp, "expected": f"one response for {plus} with the ETag GET shows ({g['headers'].get('ETag')})",
                    "observed": m["body"][:300].decode("utf-8", "replace")}
    finally:
        s.close()
    return None


def probe_status_hrefs(seed, limit):
    """C16: the href of every response element of every multistatus - also of PROPPATCH answers, of
    the 404 answer for a missing target and of DAV:error bodies - is the request target as a path
    below the route prefix (percent-quoted), for member names that need quoting, under both
    decodings a WSGI server can deliver (PEP 3333 latin-1 PATH_INFO)."""
    from xml.etree import ElementTree as ET

    for prefix in ("", "/dav"):
        s = Server(prefix)
        try:
            name = "caf\u00e9 \u2603.ics"
            member = CAL + urllib.parse.quote(name)
            r = s.request("PUT", member, {"Content-Type": "text/calendar"}, ics("u-n"))
            if r["status"] not in (201, 204):
                return {"input": {"requests": [["PUT", prefix + member, {}, ""]]}, "expected": "201", "observed": f"{r['status']} {r['body'][:100]!r}"}
            pf = s.request("PROPFIND", CAL, {"Depth": "1"})
            hrefs = [x.find("{DAV:}href").text for x in ET.fromstring(pf["body"]).findall("{DAV:}response")] if pf["status"] == 207 else []
            if prefix + member not in hrefs:
                return {"input": {"requests": [["PUT", prefix + member, {}, ""], ["PROPFIND", prefix + CAL, {}, ""]]},
                        "expected": f"the listing contains {prefix + member}", "observed": f"{hrefs}"}
            for h in hrefs:
                g = s.request("PROPFIND", h[len(prefix):], {"Depth": "0"})
                if g["status"] != 207:
                    return {"input": {"requests": [["PROPFIND", h, {}, ""]]}, "expected": "every listed href resolves", "observed": f"{h} -> {g['status']}"}
            cases = [
                ("PROPPATCH", CAL, {"Content-Type": "text/xml"},
                 b"<D:propertyupdate xmlns:D='DAV:'><D:set><D:prop><D:displayname>X</D:displayname></D:prop></D:set></D:propertyupdate>"),
                ("PROPFIND", "/user/calendars/missing/", {"Depth": "0"}, b""),
                ("PROPPATCH", "/user/calendars/missing/", {"Content-Type": "text/xml"},
                 b"<D:propertyupdate xmlns:D='DAV:'><D:set><D:prop><D:displayname>X</D:displayname></D:prop></D:set></D:propertyupdate>"),
            ]
            for method, path, hdr, body in cases[:limit]:
                r = s.request(method, path, hdr, body)
                if r["status"] != 207:
                    continue
                for resp in ET.fromstring(r["body"]).findall("{DAV:}response"):
                    h = resp.find("{DAV:}href").text
                    if h.rstrip("/") != (prefix + path).rstrip("/"):
                        return {"input": {"requests": [[method, prefix + path, hdr, body.decode()]]},
                                "expected": f"response href {prefix + path} (the request target as a path; a trailing slash is immaterial)", "observed": h}
        finally:
            s.close()
    return None


def probe_refused_mkcol(seed, limit):
    """C01: a MKCOL / MKCALENDAR that is answered with an error creates nothing."""
    cases = [
        ("MKCOL", {"Content-Type": "text/xml"}, b"<not-closed"),
        ("MKCOL", {"Content-Type": "text/xml"}, b"<x xmlns='DAV:'/>"),
        ("MKCALENDAR", {"Content-Type": "text/xml"}, b"<not-closed"),
        ("MKCALENDAR", {"Content-Type": "text/xml"}, b"<x xmlns='DAV:'/>"),
        # well-formed, right root, but an element the server rejects while processing it
        ("MKCOL", {"Content-Type": "text/xml"}, b"<mkcol xmlns='DAV:'><bogus/></mkcol>"),
        ("MKCOL", {"Content-Type": "text/xml"}, b"<mkcol xmlns='DAV:'><set><notprop/></set></mkcol>"),
        ("MKCALENDAR", {"Content-Type": "text/xml"}, b"<C:mkcalendar xmlns='DAV:' xmlns:C='urn:ietf:params:xml:ns:caldav'><bogus/></C:mkcalendar>"),
        # a <set> with no / two children, an empty mkcalendar body
        ("MKCOL", {"Content-Type": "text/xml"}, b"<mkcol xmlns='DAV:'><set/></mkcol>"),
        ("MKCOL", {"Content-Type": "text/xml"}, b"<mkcol xmlns='DAV:'><set><prop/><prop/></set></mkcol>"),
        ("MKCALENDAR", {"Content-Type": "text/xml"}, b"<C:mkcalendar xmlns='DAV:' xmlns:C='urn:ietf:params:xml:ns:caldav'><set/></C:mkcalendar>"),
        ("MKCALENDAR", {"Content-Type": "text/xml"}, b"<C:mkcalendar xmlns='DAV:' xmlns:C='urn:ietf:params:xml:ns:caldav'/>"),
    ]
    known = known_probe_ids()
    for ci, (method, hdr, body) in enumerate(cases):
        cid = f"refused_mkcol/{method}/{body.decode()}"
        if cid in known:
            continue
        s = Server()
        try:
            path = "/user/calendars/newcol/"
            r = s.request(method, path, hdr, body)
            g = s.request("PROPFIND", path, {"Depth": "0"})
            if r["status"] >= 400 and g["status"] != 404 and not (g["status"] == 207 and b"404" in g["body"]):
                return {"input": {"requests": [[method, path, hdr, body.decode()]]},
                        "expected": f"{method} answered {r['status']} creates nothing",
                        "observed": f"PROPFIND {path} -> {g['status']} (the collection exists)"}
        finally:
            s.close()
    return None


def probe_listing(seed, limit):
    """C16: a Depth 1 listing of a home set names every sub-collection that exists at that
    moment - created, created later (same ctag of the parent), deleted - each once."""
    import re

    s = Server()
    try:
        home = "/user/calendars/"

        def listed():
            r = s.request("PROPFIND", home, {"Depth": "1"})
            if r["status"] != 207:
                return None
            from xml.etree import ElementTree as ET

            ms = ET.fromstring(r["body"])
            return sorted(urllib.parse.unquote(resp.find("{DAV:}href").text) for resp in ms.findall("{DAV:}response"))

        want = {home, home + "calendar/"}
        steps = [("MKCOL", "n1/"), ("MKCALENDAR", "n 2/"), ("MKCOL", "n3/"), ("DELETE", "n1/"), ("restart", None), ("MKCOL", "n4/")]
        for i, (method, name) in enumerate(steps[:limit]):
            if method == "restart":
                s.restart()
            else:
                r = s.request(method, home + urllib.parse.quote(name))
                if method == "DELETE":
                    if r["status"] in (200, 204):
                        want.discard(home + name)
                elif r["status"] == 201:
                    want.add(home + name)
            got = listed()
            if got is None or sorted(want) != got:
                return {"input": {"requests": [[m, home + (n or ""), {}, ""] for m, n in steps[:i + 1]]},
                        "expected": f"Depth 1 listing of {home}: {sorted(want)}", "observed": f"{got}"}
    finally:
        s.close()
    return None


def known_probe_ids():
    """Probe cases recorded as known findings (reported by the check as KNOWN-FINDING, not
    re-raised): read from the committed known_findings.json, never written."""
    try:
        with open(os.path.join(os.path.dirname(os.path.dirname(os.path.abspath(__file__))), "known_findings.json")) as f:
            return {k["probe"] for k in json.load(f) if k.get("kind") == "known" and k.get("probe")}
    except FileNotFoundError:
        return set()


def sync_report(s, token):
    from xml.etree import ElementTree as ET

    body = ("<D:sync-collection xmlns:D='DAV:'><D:sync-token>%s</D:sync-token><D:sync-level>1</D:sync-level>"
            "<D:prop><D:getetag/></D:prop></D:sync-collection>" % (token or "")).encode()
    r = s.request("REPORT", CAL, {"Content-Type": "text/xml"}, body)
    if r["status"] != 207:
        return r["status"], None, None, None
    ms = ET.fromstring(r["body"])
    changed, removed = {}, set()
    for resp in ms.findall("{DAV:}response"):
        href = urllib.parse.unquote(resp.find("{DAV:}href").text)
        st = resp.find("{DAV:}status")
        et = resp.find(".//{DAV:}getetag")
        if resp.find("{DAV:}error") is not None or (st is not None and any(c in (st.text or "") for c in (" 403", " 412", " 409"))):
            return 207, None, None, None   # a refusal wrapped in a multistatus (DAV:error)
        if st is not None and "404" in (st.text or ""):
            removed.add(href)
        else:
            changed[href] = et.text if et is not None else None
    tok = ms.find("{DAV:}sync-token")
    return 207, changed, removed, (tok.text if tok is not None else None)


def check_sync(s, prefix, M, tokens, step, log):
    now = {n: e for n, (b, e) in M.items()}
    for tok, snap in [(None, {})] + tokens[-3:]:
        st, changed, removed, new_tok = sync_report(s, tok)
        if changed is None:
            return dict(step=step, expected=f"sync-collection from a token this server issued ({tok}) answers 207", observed=st, log=log)
        base = prefix + CAL
        want_changed = {base + n: e for n, e in now.items() if snap.get(n) != e}
        want_removed = {base + n for n in snap if n not in now}
        got_changed = {h: e for h, e in changed.items() if h != base and h != base.rstrip("/")}
        if got_changed != want_changed or removed != want_removed:
            return dict(step=step, expected=f"sync since {tok}: changed {want_changed}, removed {sorted(want_removed)}",
                        observed=f"changed {got_changed}, removed {sorted(removed)}", log=log)
        if not new_tok:
            return dict(step=step, expected="a new sync-token", observed="none", log=log)
    # a token this server never issued is refused (valid-sync-token), never answered with a list
    st, changed, removed, _ = sync_report(s, "0123456789abcdef0123456789abcdef01234567")
    if changed is not None:
        return dict(step=step, expected="an unknown sync-token is refused (valid-sync-token precondition)",
                    observed=f"207 with changed {changed}, removed {sorted(removed)}", log=log)
    if not tokens or tokens[-1][1] != now:
        tokens.append((new_tok, now))
    return None


def model_run(hist, prefix=""):
    """Run a PUT/DELETE/GET history on one calendar and compare with the member-map model."""
    s = Server(prefix)
    M = {}      # name -> (body, etag)
    old = {}
    log = []
    tokens = []  # (sync-token, {name: etag}) as handed out by earlier reports
    try:
        for step, op in enumerate(hist):
            kind = op[0]
            if kind == "restart":
                s.restart()
                continue
            name = op[1]
            path = CAL + urllib.parse.quote(name)
            cur = M.get(name)
            if kind == "put":
                _, _, uid, v, cond = op
                body = ics(uid, v)
                hdr = {"Content-Type": "text/calendar"}
                want_refused = False
                if cond == "im-cur":
                    if not cur:
                        hdr["If-Match"] = '"0000"'
                        want_refused = True
                    else:
                        hdr["If-Match"] = cur[1]
                elif cond == "im-stale":
                    hdr["If-Match"] = old.get(name, '"0000"')
                    want_refused = (cur is None) or (cur[1] != hdr["If-Match"])
                elif cond == "im-list":
                    hdr["If-Match"] = '"zzz", ' + (cur[1] if cur else '"0000"')
                    want_refused = cur is None
                elif cond == "inm-star":
                    hdr["If-None-Match"] = "*"
                    want_refused = cur is not None
                conflict = any(n != name and b"UID:" + uid.encode() in b for n, (b, e) in M.items())
                r = s.request("PUT", path, hdr, body)
                log.append(f"PUT {name} uid={uid} v{v} {cond} -> {r['status']}")
                if want_refused:
                    if r["status"] != 412:
                        return dict(step=step, expected=f"412 for {cond} on {'existing' if cur else 'missing'} resource", observed=r["status"], log=log)
                elif conflict:
                    if not refusal(r):
                        return dict(step=step, expected="refusal (UID conflict)", observed=r["status"], log=log)
                else:
                    if r["status"] not in (201, 204):
                        return dict(step=step, expected="201/204", observed=f"{r['status']} {r['body'][:100]}", log=log)
                    if (r["status"] == 201) != (cur is None):
                        return dict(step=step, expected="201 iff created", observed=r["status"], log=log)
                    etag = r["headers"].get("ETag")
                    if cur:
                        old[name] = cur[1]
                    M[name] = (body, etag)
            elif kind == "del":
                cond = op[2]
                hdr = {}
                want_refused = False
                if cond == "im-stale":
                    hdr["If-Match"] = old.get(name, '"0000"')
                    want_refused = cur is not None and cur[1] != hdr["If-Match"]
                r = s.request("DELETE", path, hdr)
                log.append(f"DELETE {name} {cond} -> {r['status']}")
                if cur is None:
                    if r["status"] != 404:
                        return dict(step=step, expected="404", observed=r["status"], log=log)
                elif want_refused:
                    if r["status"] != 412:
                        return dict(step=step, expected="412", observed=r["status"], log=log)
                else:
                    if r["status"] != 204:
                        return dict(step=step, expected="204", observed=f"{r['status']} {r['body'][:100]}", log=log)
                    old[name] = cur[1]
                    del M[name]
            # observe every name + listing
            for n in sorted(set(list(M) + [name])):
                g = s.request("GET", CAL + urllib.parse.quote(n))
                if n in M:
                    if g["status"] != 200:
                        return dict(step=step, expected=f"GET {n} 200", observed=g["status"], log=log)
                    if g["headers"].get("ETag") != M[n][1]:
                        return dict(step=step, expected=f"GET ETag == PUT ETag {M[n][1]}", observed=g["headers"].get("ETag"), log=log)
                    if b"SUMMARY:" + re.search(rb"SUMMARY:(v\d)", M[n][0]).group(1) not in g["body"]:
                        return dict(step=step, expected="GET body = last successful PUT", observed=g["body"][:80], log=log)
                    h = s.request("GET", CAL + urllib.parse.quote(n), {"If-None-Match": M[n][1]})
                    if h["status"] != 304 or h["body"]:
                        return dict(step=step, expected="304 without body for matching If-None-Match", observed=f"{h['status']} {len(h['body'])}B", log=log)
                elif g["status"] != 404:
                    return dict(step=step, expected=f"GET {n} 404", observed=g["status"], log=log)
            pf = s.request("PROPFIND", CAL, {"Depth": "1"}, b"")
            hrefs = set(re.findall(rb"<[^>]*href>([^<]*)<", pf["body"]))
            want = {(prefix + CAL + urllib.parse.quote(n)).encode() for n in M} | {(prefix + CAL).encode()}
            got = {h for h in hrefs if h.startswith((prefix + CAL).encode())}
            if got != want:
                return dict(step=step, expected=f"Depth-1 listing {sorted(want)}", observed=sorted(got), log=log)
            for n in M:
                m = re.search(re.escape((prefix + CAL + urllib.parse.quote(n)).encode()) + rb"</[^>]*href>.*?getetag>([^<]*)<", pf["body"], re.S)
                if m and m.group(1).replace(b"&quot;", b'"') != M[n][1].encode():
                    return dict(step=step, expected=f"PROPFIND getetag {M[n][1]}", observed=m.group(1), log=log)
            # C07: sync-collection from every recorded token reports exactly what changed since then
            bad = check_sync(s, prefix, M, tokens, step, log)
            if bad:
                return bad
            # C17: multiget of every emitted href (+ one that does not exist) answers each exactly once
            asked = [prefix + CAL + urllib.parse.quote(n) for n in sorted(M)] + [prefix + CAL + "missing.ics"]
            body = ("<C:calendar-multiget xmlns:D='DAV:' xmlns:C='urn:ietf:params:xml:ns:caldav'><D:prop><D:getetag/>"
                    "<C:calendar-data/></D:prop>" + "".join(f"<D:href>{h}</D:href>" for h in asked) + "</C:calendar-multiget>").encode()
            mg = s.request("REPORT", CAL, {"Content-Type": "text/xml", "Depth": "1"}, body)
            if mg["status"] != 207:
                return dict(step=step, expected="multiget 207", observed=f"{mg['status']} {mg['body'][:120]}", log=log)
            resp = re.findall(rb"<[^>]*response>(.*?)</[^>]*response>", mg["body"], re.S)
            if len(resp) != len(asked):
                return dict(step=step, expected=f"{len(asked)} multiget responses", observed=len(resp), log=log)
            for n in sorted(M):
                h = (prefix + CAL + urllib.parse.quote(n)).encode()
                mine = [r_ for r_ in resp if b">" + h + b"<" in r_]
                if len(mine) != 1 or b"200 OK" not in mine[0] or M[n][1].encode().replace(b'"', b"&quot;") not in mine[0].replace(b'"', b"&quot;"):
                    return dict(step=step, expected=f"multiget answers {h.decode()} once with 200 and etag {M[n][1]}",
                                observed=(mine[0][:200].decode("utf-8", "replace") if mine else "no response"), log=log)
            # C11 / C17: the calendar-data of every answer is the resource's content (what GET serves)
            from xml.etree import ElementTree as ET

            try:
                ms = ET.fromstring(mg["body"])
            except ET.ParseError as e:
                return dict(step=step, expected="multiget body is well-formed XML", observed=str(e), log=log)
            for r_ in ms.findall("{DAV:}response"):
                href = urllib.parse.unquote(r_.find("{DAV:}href").text)
                cd = r_.find(".//{urn:ietf:params:xml:ns:caldav}calendar-data")
                if cd is None:
                    continue
                g = s.request("GET", urllib.parse.quote(href[len(prefix):]))
                # (an XML parser normalises CRLF to LF: compared modulo line endings)
                if g["status"] == 200 and (cd.text or "").replace("\r\n", "\n") != g["body"].decode("utf-8").replace("\r\n", "\n"):
                    return dict(step=step, expected=f"calendar-data of {href} equals the body GET serves",
                                observed=f"calendar-data {cd.text!r:.200} vs GET {g['body'].decode('utf-8')!r:.200}", log=log)
        return None
    finally:
        s.close()


NAMES = ["a.ics", "b c.ics", "d%41.ics", "q?x.ics", "h#y;z+.ics", "k:l.ics"]


def http_alphabet():
    ops = []
    for n in NAMES:
        for u in ("u1", "u2"):
            for v in (0, 1):
                for cond in ("none", "im-cur", "im-stale", "im-list", "inm-star"):
                    ops.append(("put", n, u, v, cond))
        for cond in ("none", "im-stale"):
            ops.append(("del", n, cond))
    ops.append(("restart",))
    return ops


def probe_model(seed, limit):
    rng = random.Random(seed)
    ops = http_alphabet()
    for i in range(limit):
        k = rng.randint(2, 5)
        hist = [rng.choice(ops) for _ in range(k)]
        prefix = ["", "/dav"][i % 2]
        bad = model_run(hist, prefix)
        if bad:
            return {"input": {"history": [list(o) for o in hist], "prefix": prefix}, "expected": bad["expected"],
                    "observed": str(bad["observed"]), "log": bad["log"]}
    return None


def probe_post_location(seed, limit):
    """C16: the Location of a POST add-member dereferences to the new member, for the route
    prefixes of both front ends (aiohttp passes SCRIPT_NAME = route prefix with trailing '/')."""
    import asyncio

    from xandikos.webdav import WSGIRequest

    for script, front in (("", "wsgi"), ("/dav", "wsgi"), ("/", "aiohttp"), ("/dav/", "aiohttp")):
        s = Server()
        try:
            body = ics("post-uid")
            env = {"REQUEST_METHOD": "POST", "SCRIPT_NAME": script.rstrip("/"), "PATH_INFO": CAL, "SERVER_NAME": "localhost",
                   "SERVER_PORT": "80", "wsgi.url_scheme": "http", "wsgi.input": io.BytesIO(body),
                   "CONTENT_LENGTH": str(len(body)), "CONTENT_TYPE": "text/calendar"}
            req = WSGIRequest(env)
            loop = asyncio.new_event_loop()
            try:
                resp = loop.run_until_complete(s.app._handle_request(req, {"SCRIPT_NAME": script}))
            finally:
                loop.close()
            loc = dict(resp.headers).get("Location")
            want_prefix = script.rstrip("/") + CAL
            if resp.status != 200 or not loc or not loc.startswith(want_prefix) or loc.startswith("//"):
                return {"input": {"front_end": front, "SCRIPT_NAME": script, "request": ["POST", CAL]},
                        "expected": f"Location starting with {want_prefix!r} (single leading slash)",
                        "observed": f"status {resp.status}, Location {loc!r}"}
            g = s.request("GET", loc[len(script.rstrip('/')):])
            if g["status"] != 200:
                return {"input": {"front_end": front, "SCRIPT_NAME": script, "request": ["POST", CAL]},
                        "expected": "GET of the Location answers 200", "observed": f"Location {loc!r} -> {g['status']}"}
        finally:
            s.close()
    return None


GROUPS = {
    "post_location": probe_post_location,
    "traversal": probe_traversal,
    "refused_mkcol": probe_refused_mkcol,
    "listing": probe_listing,
    "members": probe_members,
    "independence": probe_multiget_independence,
    "validators": probe_validators,
    "status_hrefs": probe_status_hrefs,
    "model": probe_model,
}


def groups_for(fn):
    if fn and ("Mkcol" in fn or "Mkcalendar" in fn or "create_collection" in fn):
        return ["refused_mkcol", "traversal", "model"]
    if fn and ("_map_to_file_path" in fn or "get_resource" in fn or "CollectionSetResource" in fn):
        return ["traversal", "members", "model"]
    if fn and ("create_member" in fn or "get_member" in fn or "delete_member" in fn or "import_one" in fn):
        return ["members", "model", "listing"]
    if fn and ("subdirectories" in fn or "subcollections" in fn or fn.endswith(".members") or "traverse_resource" in fn):
        return ["listing", "model"]
    if fn and "PostMethod" in fn:
        return ["post_location", "model"]
    return ["model", "traversal", "refused_mkcol", "post_location", "listing", "members", "independence", "status_hrefs", "validators"]


class Http:
    def bounded(self, req):
        seed = int(req.get("seed", 0) or 0)
        quick = req.get("tier", "quick") == "quick"
        tried = {}
        for g in groups_for(req.get("function")):
            limit = {"traversal": 60 if quick else 600, "refused_mkcol": 11, "listing": 6, "members": 24, "independence": 6, "status_hrefs": 3, "model": 40 if quick else 400, "post_location": 4, "validators": 3}[g]
            bad = GROUPS[g](seed, limit)
            tried[g] = limit
            if bad:
                return dict(bad, failing=True, group=g)
        return {"failing": False, "tried": tried}

    def search(self, req):
        r = self.bounded(req)
        return dict(r, reproduced=r.get("failing", False))

    def replay(self, req):
        i = req.get("input")
        if not i:
            return self.search(req)
        if "history" in i:
            bad = model_run([tuple(o) for o in i["history"]], i.get("prefix", ""))
            if bad:
                return {"reproduced": True, "input": i, "expected": bad["expected"], "observed": str(bad["observed"])}
            return {"reproduced": False}
        if "script_name" in i:
            # a multiget probe: its request list is rebuilt by the probe itself
            bad = probe_multiget_independence(int(req.get("seed", 0) or 0), 6)
            if bad:
                return {"reproduced": True, "input": bad["input"], "expected": bad["expected"], "observed": str(bad["observed"])}
            return {"reproduced": False}
        s = Server()
        try:
            outs = []
            for method, path, hdr, body in i["requests"]:
                r = s.request(method, path, hdr, body.encode())
                outs.append(r["status"])
            out = s.outside()
            if out:
                return {"reproduced": True, "input": i, "expected": "nothing outside the data root", "observed": f"statuses {outs}; outside: {out}"}
            return {"reproduced": False, "statuses": outs}
        finally:
            s.close()


if __name__ == "__main__":
    main({"*": Http()})
