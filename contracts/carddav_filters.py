"""C12: addressbook-query filter evaluation (RFC 6352 10.5)."""

CARD_NS = "urn:ietf:params:xml:ns:carddav"


def fold(collation, s):
    # RFC 4790: i;ascii-casemap folds a-z only (ascii_fold), i;octet nothing,
    # i;unicode-casemap is implemented as upper() of the utf-8 bytes
    return (ascii_fold(s) if collation == "i;ascii-casemap" else
            s if collation == "i;octet" else
            s.encode("utf-8", "surrogateescape").upper())


def spec_text_match(el, value):
    collation = xml_attr(el, "collation") if xml_attr(el, "collation") is not None else "i;ascii-casemap"
    match_type = xml_attr(el, "match-type") if xml_attr(el, "match-type") is not None else "contains"
    negate = xml_attr(el, "negate-condition") == "yes"
    text = el.text if el.text is not None and el.text != "" else ""
    matches = spec_match(fold(collation, value), fold(collation, text), match_type)
    return (not matches) if negate else matches


@contract("xandikos.carddav.apply_text_match", params={"el": "opaque:Element", "value": "str"}, returns="bool")
class apply_text_match_c:
    """Total on every text value (non-ASCII included): the only exceptions are an unsupported
    collation name (KeyError) or match type (NotImplementedError) in the request."""

    def raises_KeyError(el):
        c = xml_attr(el, "collation") if xml_attr(el, "collation") is not None else "i;ascii-casemap"
        return c != "i;ascii-casemap" and c != "i;octet" and c != "i;unicode-casemap"

    def raises_NotImplementedError(el):
        c = xml_attr(el, "collation") if xml_attr(el, "collation") is not None else "i;ascii-casemap"
        k = xml_attr(el, "match-type") if xml_attr(el, "match-type") is not None else "contains"
        return ((c == "i;ascii-casemap" or c == "i;octet" or c == "i;unicode-casemap")
                and k != "equals" and k != "contains" and k != "starts-with" and k != "ends-with")

    def ensures(el, value, result):
        return result == spec_text_match(el, value)
