"""C12: addressbook-query filter evaluation (RFC 6352 10.5)."""

CARD_NS = "urn:ietf:params:xml:ns:carddav"


def fold(collation, s):
    # RFC 4790: i;ascii-casemap folds a-z only (ascii_fold), i;octet nothing,
    # i;unicode-casemap is implemented as upper() of the utf-8 bytes
    return (ascii_fold(s) if collation == "i;ascii-casemap" else
            s if collation == "i;octet" else
            s.encode("utf-8", "surrogateescape").upper())


def spec_text_match(el, value):
    collation = xml_attr(el, "collation") if xml_attr(el, "collation") is not None else "i;ascii-casemap"
    match_type = xml_attr(el, "match-type") if xml_attr(el, "match-type") is not None else "contains"
    negate = xml_attr(el, "negate-condition") == "yes"
    text = el.text if el.text is not None and el.text != "" else ""
    matches = spec_match(fold(collation, value), fold(collation, text), match_type)
    return (not matches) if negate else matches


def text_match_supported(el):
    c = xml_attr(el, "collation") if xml_attr(el, "collation") is not None else "i;ascii-casemap"
    k = xml_attr(el, "match-type") if xml_attr(el, "match-type") is not None else "contains"
    return ((c == "i;ascii-casemap" or c == "i;octet" or c == "i;unicode-casemap")
            and (k == "equals" or k == "contains" or k == "starts-with" or k == "ends-with"))


@contract("xandikos.carddav.apply_text_match", params={"el": "opaque:Element", "value": "str"}, returns="bool")
class apply_text_match_c:
    """Total on every text value (non-ASCII included): the only exceptions are an unsupported
    collation name (KeyError) or match type (NotImplementedError) in the request."""

    def raises_KeyError(el):
        c = xml_attr(el, "collation") if xml_attr(el, "collation") is not None else "i;ascii-casemap"
        return c != "i;ascii-casemap" and c != "i;octet" and c != "i;unicode-casemap"

    def raises_NotImplementedError(el):
        c = xml_attr(el, "collation") if xml_attr(el, "collation") is not None else "i;ascii-casemap"
        k = xml_attr(el, "match-type") if xml_attr(el, "match-type") is not None else "contains"
        return ((c == "i;ascii-casemap" or c == "i;octet" or c == "i;unicode-casemap")
                and k != "equals" and k != "contains" and k != "starts-with" and k != "ends-with")

    def ensures(el, value, result):
        return result == spec_text_match(el, value)

    def value(el, value):
        # functional form, for uses inside any()/all() over a symbolic sequence
        return spec_text_match(el, value)


opaque("ContentLine", attrs={"params": "dict[str,list[str]]", "value": "str"})

IS_NOT_DEFINED = "{urn:ietf:params:xml:ns:carddav}is-not-defined"
TEXT_MATCH = "{urn:ietf:params:xml:ns:carddav}text-match"
PARAM_FILTER = "{urn:ietf:params:xml:ns:carddav}param-filter"


def only_is_not_defined(el):
    return len(el) == 1 and el[0].tag == "{urn:ietf:params:xml:ns:carddav}is-not-defined"


def rendered(prop):
    """The text a prop-filter's text-match is applied to: the property value (RFC 6352 10.5.4).
    (Structured values - N, ADR - are outside this contract: the attribute is typed str.)"""
    return prop.value


ghost("sub_ok", ["opaque:Element", "opaque:ContentLine"], "bool")


def sub_matches(subel, prop):
    # named by the ghost predicate sub_ok (definition: apply_prop_filter_c.define_sub_ok)
    return sub_ok(subel, prop)


def sub_matches_def(subel, prop):
    return (spec_text_match(subel, rendered(prop)) if subel.tag == "{urn:ietf:params:xml:ns:carddav}text-match"
            else spec_param_filter(subel, prop) if subel.tag == "{urn:ietf:params:xml:ns:carddav}param-filter"
            else True)


def spec_param_filter(el, prop):
    name = xml_attr(el, "name")
    return ((name is None or name not in prop.params) if only_is_not_defined(el)
            else (name is not None and name in prop.params
                  and all(any(spec_text_match(subel, v) for v in prop.params[name]) for subel in el)))


ghost("inst_ok", ["opaque:Element", "opaque:ContentLine"], "bool")


def instance_matches(el, prop):
    # all listed conditions must hold for this property instance (the code's reading; the
    # prop-filter `test` attribute is not looked at: known finding).  inst_ok names this
    # formula (definition: apply_prop_filter_c.define_inst_ok) so that the outer loop's
    # invariant is free of nested quantifiers.
    return inst_ok(el, prop)


def instance_matches_def(el, prop):
    return all(sub_matches(subel, prop) for subel in el)


def spec_prop_filter(el, ab):
    name = xml_attr(el, "name").lower()
    return ((name not in ab) if only_is_not_defined(el)
            else (name in ab and any(instance_matches(el, p) for p in ab[name])))


@contract("xandikos.carddav.apply_param_filter", params={"el": "opaque:Element", "prop": "opaque:ContentLine"},
          returns="bool", may_raise=["KeyError", "NotImplementedError"])
class apply_param_filter_c:
    def requires(el):
        # a well-formed request: only text-match children, with supported collation / match type
        # (anything else is answered with an error by the caller's exception handling)
        return (xml_attr(el, "name") is not None
                and (only_is_not_defined(el)
                     or all(subel.tag == "{urn:ietf:params:xml:ns:carddav}text-match" and text_match_supported(subel)
                            for subel in el)))

    def ensures(el, prop, result):
        return result == spec_param_filter(el, prop)

    def inv_0(el, prop, value, _i, _seq):
        return (value == prop.params[xml_attr(el, "name")]
                and all(any(spec_text_match(s, v) for v in value) for s in _seq[:_i]))


@contract("xandikos.carddav.apply_prop_filter",
          params={"el": "opaque:Element", "ab": "dict[str,list[opaque:ContentLine]]"}, returns="bool",
          locals={"matched": "bool"}, may_raise=["KeyError", "NotImplementedError"])
class apply_prop_filter_c:
    """RFC 6352 10.5.1: is-not-defined <=> no such property; otherwise some instance of the
    property satisfies the listed text-match / param-filter conditions."""

    def requires(el):
        return (xml_attr(el, "name") is not None
                and (only_is_not_defined(el)
                     or all(well_formed_sub(subel) for subel in el)))

    def ensures(el, ab, result):
        return result == spec_prop_filter(el, ab)

    def value(el, ab):
        return spec_prop_filter(el, ab)

    def inv_0(el, ab, prop, _i, _seq):
        return not any(instance_matches(el, p) for p in _seq[:_i])

    def define_inst_ok(el):
        return forall("opaque:ContentLine", lambda p: inst_ok(el, p) == instance_matches_def(el, p))

    def define_sub_ok(el):
        return forall("opaque:Element", "opaque:ContentLine", lambda s, p: sub_ok(s, p) == sub_matches_def(s, p))

    def inv_1(el, ab, prop, prop_el, matched, _i, _seq):
        return matched == all(sub_matches(s, prop_el) for s in _seq[:_i]) and matched


def well_formed_sub(subel):
    return ((subel.tag == "{urn:ietf:params:xml:ns:carddav}text-match" and text_match_supported(subel))
            or (subel.tag == "{urn:ietf:params:xml:ns:carddav}param-filter" and xml_attr(subel, "name") is not None
                and (only_is_not_defined(subel)
                     or all(s2.tag == "{urn:ietf:params:xml:ns:carddav}text-match" and text_match_supported(s2)
                            for s2 in subel)))
            or (subel.tag != "{urn:ietf:params:xml:ns:carddav}text-match"
                and subel.tag != "{urn:ietf:params:xml:ns:carddav}param-filter"))


ghost("card_of", ["opaque:Resource"], "opt[dict[str,list[opaque:ContentLine]]]")


@contract("xandikos.carddav.addressbook_from_resource", params={"resource": "opaque:Resource"},
          returns="opt[dict[str,list[opaque:ContentLine]]]")
class addressbook_from_resource_c:
    """The parsed vCard of an address object resource; None for anything else (collections,
    calendar objects).  Not verified here (vobject parsing); card_of names the result."""

    def ensures(resource, result):
        return result == card_of(resource)


def spec_filter(el, ab):
    test = xml_attr(el, "test") if xml_attr(el, "test") is not None else "anyof"
    return (all(spec_prop_filter(subel, ab) for subel in el) if test == "allof"
            else any(spec_prop_filter(subel, ab) for subel in el))


@contract("xandikos.carddav.apply_filter", params={"el": "opt[opaque:Element]", "resource": "opaque:Resource"},
          returns="bool", may_raise=["KeyError", "NotImplementedError"])
class apply_filter_c:
    """RFC 6352 10.5: only address object resources can match; no / an empty filter matches
    every one of them; otherwise anyof (default) / allof over the prop-filters."""

    def requires(el):
        return implies(el is not None,
                       (xml_attr(el, "test") is None or xml_attr(el, "test") == "anyof" or xml_attr(el, "test") == "allof")
                       and all(xml_attr(subel, "name") is not None
                               and (only_is_not_defined(subel) or all(well_formed_sub(s2) for s2 in subel))
                               for subel in el))

    def ensures(el, resource, result):
        ab = card_of(resource)
        return bool(result) == (ab is not None and (el is None or len(el) == 0 or spec_filter(el, ab)))
