"""C07/C08: ctags, listings and change lists of GitStore over the abstract maps."""

ghost("tag_hash", ["dict[str,str]", "opt[str]"], "str")    # TH(M u Cfg); injective (hash assumption)


def default_mime(name):
    return mime_of(name) if mime_of(name) is not None else "application/octet-stream"


def lists(result, T):
    """result = [(n, mime(n), T[n])] for the entries of T, each once."""
    return (len(result) == len(keys_list(T))
            and forall("int", lambda j: implies(
                0 <= j and j < len(result),
                result[j][0] == keys_list(T)[j]
                and result[j][1] == default_mime(result[j][0])
                and result[j][2] == T[result[j][0]])))


@contract("xandikos.store.git.GitStore.iter_with_etag",
          params={"self": "obj:xandikos.store.git.GitStore", "ctag": "opt[str]"},
          returns="list[tuple[str,str,str]]", yields="tuple[str,str,str]")
class GitStore_iter_with_etag:
    def raises_InvalidCTag(self, ctag):
        return ctag is not None and ctag not in self.ghost_trees

    def ensures(self, ctag, result):
        return lists(result, tree_for(self, ctag))

    def inv_0(self, ctag, _i, _seq, _yielded):
        T = tree_for(self, ctag)
        return (enumerates(_seq, T) and len(_yielded) == _i
                and forall("int", lambda j: implies(
                    0 <= j and j < _i,
                    _yielded[j][0] == keys_list(T)[j]
                    and _yielded[j][1] == default_mime(_yielded[j][0])
                    and _yielded[j][2] == T[_yielded[j][0]])))


@contract("xandikos.store.Store.get_ctag", params={"self": "obj:xandikos.store.git.GitStore"},
          returns="str", modifies=["self.ghost_trees"])
class Store_get_ctag:
    """Interface contract: the tag of the current state; the state it denotes is recorded so
    that the tag can be presented later (C07), and equal states have equal tags (C08)."""

    def ensures(self, result):
        return (result == tag_hash(self.ghost_M, self.ghost_cfg)
                and result in self.ghost_trees and self.ghost_trees[result] == self.ghost_M
                and forall("str", lambda t: implies(t in old(self.ghost_trees),
                                                    t in self.ghost_trees
                                                    and self.ghost_trees[t] == old(self.ghost_trees)[t])))


def old_map(self, old_ctag):
    return self.ghost_trees[old_ctag]


def is_change(r, A, has_old, B):
    """r = (name, content_type, old_etag, new_etag) is the change record of r[0] between A and B."""
    return (r[1] == default_mime(r[0])
            and r[2] == (A.get(r[0]) if has_old else None)
            and r[3] == B.get(r[0])
            and r[2] != r[3])


def change_list(result, A, has_old, B):
    """result is exactly the set of names whose etag differs between A (empty if not has_old)
    and B, each once, with old and new etag (None = absent)."""
    return (forall("int", lambda j: implies(0 <= j and j < len(result), is_change(result[j], A, has_old, B)))
            and forall("int", "int", lambda i, j: implies(0 <= i and i < j and j < len(result),
                                                         result[i][0] != result[j][0]))
            and forall("str", lambda n: implies((A.get(n) if has_old else None) != B.get(n),
                                                exists("int", lambda j: 0 <= j and j < len(result)
                                                       and result[j][0] == n))))


@contract("xandikos.store.git.GitStore.iter_changes",
          params={"self": "obj:xandikos.store.git.GitStore", "old_ctag": "opt[str]", "new_ctag": "str"},
          returns="list[tuple[str,str,opt[str],opt[str]]]", yields="tuple[str,str,opt[str],opt[str]]",
          modifies=["self.ghost_trees"], modifies_on_raise=["self.ghost_trees"],
          locals={"old_etag": "opt[str]", "old_content_type": "str"})
class GitStore_iter_changes:
    """C07: the yielded list is exactly the difference between the two recorded trees."""

    def raises_InvalidCTag(self, old_ctag, new_ctag):
        # (with old_ctag None the empty tree is added first, so its own tag is then acceptable)
        return ((old_ctag is not None and old_ctag not in self.ghost_trees)
                or (new_ctag not in self.ghost_trees and not (old_ctag is None and new_ctag == empty_tag())))

    def ensures(self, old_ctag, new_ctag, result):
        return (change_list(result, self.ghost_trees[old_ctag], old_ctag is not None,
                            self.ghost_trees[new_ctag])
                and forall("str", lambda t: implies(t in old(self.ghost_trees),
                                                    t in self.ghost_trees
                                                    and self.ghost_trees[t] == old(self.ghost_trees)[t])))

    def inv_0(self, old_ctag, new_ctag, previous, _i, _seq, _yielded):
        has_old = old(old_ctag) is not None
        A = self.ghost_trees[old(old_ctag)]
        B = self.ghost_trees[new_ctag]
        return (lists(_seq, B)
                and forall("int", lambda j: implies(0 <= j and j < len(_yielded), is_change(_yielded[j], A, has_old, B)
                                                    and _yielded[j][0] in B and idx_of(B, _yielded[j][0]) < _i))
                and forall("int", "int", lambda i, j: implies(0 <= i and i < j and j < len(_yielded),
                                                             _yielded[i][0] != _yielded[j][0]))
                and forall("str", lambda n: implies(n in B and idx_of(B, n) < _i
                                                    and (A.get(n) if has_old else None) != B.get(n),
                                                    exists("int", lambda j: 0 <= j and j < len(_yielded)
                                                           and _yielded[j][0] == n)))
                # previous = A minus the processed names
                and forall("str", lambda n: (n in previous) == (has_old and n in A and not (n in B and idx_of(B, n) < _i)))
                and forall("str", lambda n: implies(n in previous, previous[n][0] == default_mime(n)
                                                    and previous[n][1] == A[n])))

    def inv_1(self, old_ctag, new_ctag, previous, _i, _seq, _yielded):
        has_old = old(old_ctag) is not None
        A = self.ghost_trees[old(old_ctag)]
        B = self.ghost_trees[new_ctag]
        return (forall("int", lambda j: implies(0 <= j and j < len(_yielded), is_change(_yielded[j], A, has_old, B)
                                                and (_yielded[j][0] in B or idx_of(previous, _yielded[j][0]) < _i)))
                and forall("int", "int", lambda i, j: implies(0 <= i and i < j and j < len(_yielded),
                                                             _yielded[i][0] != _yielded[j][0]))
                and forall("str", lambda n: implies((n in B or (n in previous and idx_of(previous, n) < _i))
                                                    and (A.get(n) if has_old else None) != B.get(n),
                                                    exists("int", lambda j: 0 <= j and j < len(_yielded)
                                                           and _yielded[j][0] == n)))
                and forall("str", lambda n: (n in previous) == (has_old and n in A and n not in B))
                and forall("str", lambda n: implies(n in previous, previous[n][0] == default_mime(n)
                                                    and previous[n][1] == A[n])))


@contract("xandikos.store.Store.delete_one",
          params={"self": "obj:xandikos.store.git.GitStore", "name": "str", "message": "opt[str]",
                  "author": "opt[str]", "etag": "opt[str]"},
          defaults={"message": None, "author": None, "etag": None},
          modifies=["self.ghost_M"])
class Store_delete_one:
    """Interface contract (BareGitStore.delete_one / TreeGitStore.delete_one refine it with
    ghost_M = their view)."""

    def raises_NoSuchItem(self, name):
        return name not in self.ghost_M

    def raises_InvalidETag(self, name, etag):
        return name in self.ghost_M and etag is not None and self.ghost_M[name] != etag

    def raises_LockedError(self, name, etag):
        return (name in self.ghost_M and not (etag is not None and self.ghost_M[name] != etag)
                and self.ghost_locked)

    def ensures(self, name):
        return self.ghost_M == old(self.ghost_M).without(name)


@contract("xandikos.store.Store.subdirectories", params={"self": "obj:xandikos.store.git.GitStore"},
          returns="list[str]")
class Store_subdirectories:
    def names_result(self, result):
        # deterministic and read-only: sub_names(store) names the list it returns
        return result == sub_names(self)

    def ensures(self, result):
        return (forall("int", lambda j: implies(0 <= j and j < len(result), result[j] in self.ghost_subdirs))
                and forall("str", lambda n: implies(n in self.ghost_subdirs, n in result)))


ghost("sub_names_of", ["set[str]", "str"], "list[str]")


def sub_names(store):
    # the list Store.subdirectories() returns: a function of the directory state (named, not defined)
    return sub_names_of(store.ghost_subdirs, store.path)


# ---------------------------------------------------------------------------- refinement (behavioural subtyping)
# The generic code (GitStore.import_one, iter_with_etag, the web layer) is verified against the
# interface contracts GitStore._import_one / _get_etag / Store.get_ctag / delete_one /
# subdirectories; TreeGitStore, BareGitStore and VdirStore are verified against their own,
# stronger contracts, whose postconditions contain the interface's clauses over the same ghost
# fields (defined by views).  `refines("Base.m", ["Sub"], extra_requires=...)` (end of this file)
# checks the subclass *body* against the interface contract mechanically, under the subclass'
# representation invariant (rep_tree / rep_bare, "name is not a sub-directory") - which the
# interface cannot state and generic callers therefore do not establish: that it holds at every
# call is the residual assumption (DESIGN 0.12): every write re-establishes it (proved,
# ensures_history), create/open are assumed to.


# ---- checked refinements: the subclass body against the *interface* contract, under the
# subclass' representation invariant (which every write of that subclass re-establishes -
# ensures_history of the subclass contracts - and create/open are assumed to establish)
def bare_import_rep(self, name):
    return rep_bare(self.repo) and name != ".xandikos"


def tree_import_rep(self, name):
    return rep_tree(self.repo) and name != ".xandikos" and name not in fs_subdirs(self.repo.path)


refines("xandikos.store.git.GitStore._import_one", ["xandikos.store.git.BareGitStore"],
        extra_requires="bare_import_rep", modifies=["self.repo"])
refines("xandikos.store.git.GitStore._import_one", ["xandikos.store.git.TreeGitStore"],
        extra_requires="tree_import_rep", modifies=["self.repo", "fs()"])


def bare_meta_rep(self, name):
    return rep_bare(self.repo)


def tree_meta_rep(self, name):
    return rep_tree(self.repo) and name not in fs_subdirs(self.repo.path)


refines("xandikos.store.git.GitStore._import_one@metadata", ["xandikos.store.git.BareGitStore"],
        extra_requires="bare_meta_rep", modifies=["self.repo"])
refines("xandikos.store.git.GitStore._import_one@metadata", ["xandikos.store.git.TreeGitStore"],
        extra_requires="tree_meta_rep", modifies=["self.repo", "fs()"])


def bare_etag_rep(self, name):
    return rep_bare(self.repo)


def tree_etag_rep(self, name):
    return rep_tree(self.repo)


refines("xandikos.store.git.GitStore._get_etag", ["xandikos.store.git.BareGitStore"],
        extra_requires="bare_etag_rep", modifies=["self.repo"], modifies_on_raise=["self.repo"])
refines("xandikos.store.git.GitStore._get_etag", ["xandikos.store.git.TreeGitStore"], extra_requires="tree_etag_rep")


def bare_delete_rep(self, name, etag):
    return rep_bare(self.repo) and name != ".xandikos" and (etag is None or is_ascii(etag))


def tree_delete_rep(self, name, etag):
    return rep_tree(self.repo) and name != ".xandikos" and (etag is None or is_ascii(etag))


refines("xandikos.store.Store.delete_one", ["xandikos.store.git.BareGitStore"],
        extra_requires="bare_delete_rep", modifies=["self.repo"], modifies_on_raise=["self.repo"])
refines("xandikos.store.Store.delete_one", ["xandikos.store.git.TreeGitStore"],
        extra_requires="tree_delete_rep", modifies=["self.repo", "fs()"])


# NOT refined mechanically: Store.get_ctag (the interface names the tag by the uninterpreted
# tag_hash(ghost_M, ghost_cfg); the subclass contracts prove it is the hash of the index / head tree -
# that the tree hash is a function of exactly (members, metadata entry) is the residual assumption),
# GitStore._iterblobs and Store.subdirectories (their subclass bodies are not under contract).
