"""C11: RFC 4791 9.7 filter evaluation (comp-filter, prop-filter, param-filter, text-match,
time-range dispatch).

The filter objects form a tree built by caldav.parse_filter.  Each level is specified
against ghost predicates naming what the level below answers (cnode_match, pnode_match,
vnode_match, ctr_match, ptr_match), i.e. function by function, exactly like any other callee
contract; the recursion of comp-filters uses the function's own contract as induction
hypothesis (define_cnode_match).

Scope assumption (requires): no time-range evaluation raises MissingProperty below the top
level, i.e. every VEVENT / VJOURNAL a nested time-range is applied to has a DTSTART."""

fields("xandikos.icalendar.ComponentTimeRangeMatcher", {"start": "int", "end": "int", "comp": "opt[str]"})
fields("xandikos.icalendar.PropertyTimeRangeMatcher", {"start": "int", "end": "int"})


def ctr_spec(start, end, comp):
    return (rfc4791_vevent(start, end, comp) if comp.name == "VEVENT" else
            rfc4791_vtodo(start, end, comp) if comp.name == "VTODO" else
            rfc4791_vjournal(start, end, comp) if comp.name == "VJOURNAL" else
            rfc4791_vfreebusy(start, end, comp) if comp.name == "VFREEBUSY" else
            False)


@contract("xandikos.icalendar.ComponentTimeRangeMatcher.match",
          params={"self": "obj:xandikos.icalendar.ComponentTimeRangeMatcher", "comp": "opaque:PropSource",
                  "tzify": "opaque:Tzify"},
          returns="bool")
class ComponentTimeRangeMatcher_match_c:
    """Dispatch on the component type to the RFC 4791 9.9 table of that type; a component type
    without a table (VTIMEZONE, ...) does not match.  VALARM (NotImplementedError) is outside
    this contract (requires)."""

    def requires(self, comp):
        return (self.start < self.end and comp.name != "VALARM"
                and not (comp.name == "VEVENT" and has(comp, "DTEND") and has(comp, "DURATION"))
                and not (comp.name == "VTODO" and has(comp, "DURATION") and (has(comp, "DUE") or not has(comp, "DTSTART"))))

    def raises_MissingProperty(self, comp):
        return (comp.name == "VEVENT" or comp.name == "VJOURNAL") and not has(comp, "DTSTART")

    def ensures(self, comp, result):
        return result == ctr_spec(self.start, self.end, comp)


def ptr_spec(start, end, t):
    # "start" is inclusive, "end" is non-inclusive (RFC 4791 9.9)
    return start <= t and t < end


@contract("xandikos.icalendar.PropertyTimeRangeMatcher.match",
          params={"self": "obj:xandikos.icalendar.PropertyTimeRangeMatcher", "prop": "opaque:Prop", "tzify": "opaque:Tzify"},
          returns="bool")
class PropertyTimeRangeMatcher_match_c:
    """RFC 4791 9.9: a property time-range matches when the value lies in [start, end)."""

    def ensures(self, prop, result):
        return result == ptr_spec(self.start, self.end, ts_of(prop.dt))


# ---------------------------------------------------------------------------- text-match
opaque("TextMatcherSelf", attrs={"name": "str", "text": "str", "collation": "opaque:Collation", "negate_condition": "bool"},
       isa=["xandikos.icalendar.TextMatcher"])
opaque("Collation")
opaque("Category", attrs={"cats": "list[str]"}, isa=["icalendar.prop.vCategory"], nota=["icalendar.prop.vText"])
ghost("collate", ["opaque:Collation", "str", "str", "str"], "bool")


@contract("iface:Collation.__call__", params={"self": "opaque:Collation", "a": "str", "b": "str", "k": "str"},
          returns="bool", assumed=True)
class Collation_call:
    """collations[name](a, b, k): `a` is the stored value, `b` the text searched for
    (collation._match: "contains" is `b in a`); see contracts/collation.py."""

    def ensures(self, a, b, k, result):
        return result == collate(self, a, b, k)

    def value(self, a, b, k):
        return collate(self, a, b, k)


def text_hit(tm, value):
    # RFC 4791 9.7.5: "text used for a substring match against the property or parameter value"
    return collate(tm.collation, value, tm.text, "contains")


def tm_spec(tm, value):
    return text_hit(tm, value) != tm.negate_condition


def tm_spec_category(tm, cats):
    return any(text_hit(tm, c) for c in cats) != tm.negate_condition


def text_equal(tm, value):
    # what xandikos implements instead (pinned by its tests): equality under the collation
    return collate(tm.collation, tm.text, value, "equals")


@contract("xandikos.icalendar.TextMatcher.match", params={"self": "opaque:TextMatcherSelf", "prop": "str"},
          returns="bool")
class TextMatcher_match_c:
    def ensures_rfc(self, prop, result):
        # KNOWN FINDING (equality instead of substring): see known_findings.json
        return result == tm_spec(self, prop)

    def ensures_negate(self, prop, result):
        # regression guard, independent of the finding above: one collation test, inverted
        # exactly when negate-condition is set
        return result == (text_equal(self, prop) != self.negate_condition)


@contract("iface:TextMatcherSelf.match", params={"self": "opaque:TextMatcherSelf", "prop": "str"}, returns="bool",
          assumed=True)
class TextMatcherSelf_match:
    """The recursive call on one category: TextMatcher.match's own contract (above)."""

    def ensures(self, prop, result):
        return result == (text_equal(self, prop) != self.negate_condition)


@contract("xandikos.icalendar.TextMatcher.match", variant="category",
          params={"self": "opaque:TextMatcherSelf", "prop": "opaque:Category"}, returns="bool")
class TextMatcher_match_category_c:
    """A CATEGORIES value matches when one of its categories does; negate-condition inverts the
    whole test (RFC 4791 9.7.5: 'the filter matches when the text does not match')."""

    def ensures_rfc(self, prop, result):
        # KNOWN FINDING (equality instead of substring)
        return result == tm_spec_category(self, prop.cats)

    def ensures_negate(self, prop, result):
        return result == (any(text_equal(self, c) for c in prop.cats) != self.negate_condition)


# ---------------------------------------------------------------------------- param-filter
opaque("VNode")      # child of a param-filter: a text-match
opaque("ParamFilterSelf", attrs={"name": "str", "is_not_defined": "bool", "children": "list[opaque:VNode]"})
opaque("Params")
opaque("PropObj", attrs={"params": "opaque:Params"})
ghost("param_of", ["opaque:Params", "str"], "opt[str]")
ghost("vnode_match", ["opaque:VNode", "str"], "bool")


@contract("iface:Params.__contains__", params={"self": "opaque:Params", "name": "str"}, returns="bool", assumed=True)
class Params_contains:
    def ensures(self, name, result):
        return result == (param_of(self, name) is not None)


@contract("iface:Params.__getitem__", params={"self": "opaque:Params", "name": "str"}, returns="str", assumed=True)
class Params_getitem:
    def raises_KeyError(self, name):
        return param_of(self, name) is None

    def ensures(self, name, result):
        return result == param_of(self, name)


@contract("iface:VNode.match", params={"self": "opaque:VNode", "prop": "str"}, returns="bool", assumed=True)
class VNode_match:
    """Names the answer of the child's match (TextMatcher.match, verified above)."""

    def ensures(self, prop, result):
        return result == vnode_match(self, prop)


def param_spec(f, prop):
    v = param_of(prop.params, f.name)
    return ((v is None) if f.is_not_defined else
            (v is not None and all(vnode_match(ch, v) for ch in f.children)))


@contract("xandikos.icalendar.ParameterFilter.match", params={"self": "opaque:ParamFilterSelf", "prop": "opaque:PropObj"},
          returns="bool")
class ParameterFilter_match_c:
    """RFC 4791 9.7.3: is-not-defined <=> the parameter is absent; otherwise the parameter
    exists and every text-match child matches its value."""

    def ensures(self, prop, result):
        return result == param_spec(self, prop)

    def inv_0(self, prop, value, _i, _seq):
        return (_seq == self.children and not self.is_not_defined and value == param_of(prop.params, self.name)
                and param_of(prop.params, self.name) is not None
                and all(vnode_match(ch, value) for ch in _seq[:_i]))


# ---------------------------------------------------------------------------- prop-filter
# the calendar object as the filters see it: a tree of named components with properties
opaque("FComp", attrs={"name": "str", "subcomponents": "list[opaque:FComp]"})
opaque("PNode")      # child of a prop-filter: a param-filter or a text-match
opaque("PTimeRange", truthy="true")
opaque("PropFilterSelf", attrs={"name": "str", "is_not_defined": "bool", "children": "list[opaque:PNode]",
                                "time_range": "opt[opaque:PTimeRange]"},
       isa=["xandikos.icalendar.PropertyFilter"], nota=["xandikos.icalendar.ComponentFilter"])
ghost("comp_prop", ["opaque:FComp", "str"], "opt[opaque:PropObj]")
ghost("pnode_match", ["opaque:PNode", "opaque:PropObj"], "bool")
ghost("ptr_match", ["opaque:PTimeRange", "opaque:PropObj"], "bool")


@contract("iface:FComp.__contains__", params={"self": "opaque:FComp", "name": "str"}, returns="bool", assumed=True)
class FComp_contains:
    def ensures(self, name, result):
        return result == (comp_prop(self, name) is not None)


@contract("iface:FComp.__getitem__", params={"self": "opaque:FComp", "name": "str"}, returns="opaque:PropObj",
          assumed=True)
class FComp_getitem:
    """ASSUMED: the property named `name` (single-instance properties; a property that occurs
    several times is returned by icalendar as a list, which the filters do not handle)."""

    def raises_KeyError(self, name):
        return comp_prop(self, name) is None

    def ensures(self, name, result):
        return result == comp_prop(self, name)


@contract("iface:PNode.match", params={"self": "opaque:PNode", "prop": "opaque:PropObj"}, returns="bool", assumed=True)
class PNode_match:
    """Names the answer of the child's match (ParameterFilter.match / TextMatcher.match)."""

    def ensures(self, prop, result):
        return result == pnode_match(self, prop)


@contract("iface:PTimeRange.match", params={"self": "opaque:PTimeRange", "prop": "opaque:PropObj", "tzify": "opaque:Tzify"},
          returns="bool", assumed=True)
class PTimeRange_match:
    """Names the answer of PropertyTimeRangeMatcher.match (verified above)."""

    def ensures(self, prop, result):
        return result == ptr_match(self, prop)


def pf_spec(f, comp):
    p = comp_prop(comp, f.name)
    return ((p is None) if f.is_not_defined else
            (p is not None
             and (f.time_range is None or ptr_match(f.time_range, p))
             and all(pnode_match(ch, p) for ch in f.children)))


@contract("xandikos.icalendar.PropertyFilter.match",
          params={"self": "opaque:PropFilterSelf", "comp": "opaque:FComp", "tzify": "opaque:Tzify"}, returns="bool")
class PropertyFilter_match_c:
    """RFC 4791 9.7.2: is-not-defined <=> no property of that name in the component;
    otherwise the property exists, its value is in the time range (if one is given) and every
    param-filter / text-match child matches."""

    def ensures(self, comp, result):
        return result == pf_spec(self, comp)

    def inv_0(self, comp, prop, _i, _seq):
        return (_seq == self.children and not self.is_not_defined and comp_prop(comp, self.name) is not None
                and prop == comp_prop(comp, self.name)
                and (self.time_range is None or ptr_match(self.time_range, prop))
                and all(pnode_match(ch, prop) for ch in _seq[:_i]))


# ---------------------------------------------------------------------------- comp-filter
opaque("CNode", attrs={"name": "str", "is_not_defined": "bool", "children": "list[opaque:CNode]",
                       "time_range": "opt[opaque:CTimeRange]"})
opaque("CTimeRange", truthy="true")
ghost("cnode_match", ["opaque:CNode", "opaque:FComp"], "bool")
ghost("ctr_match", ["opaque:CTimeRange", "opaque:FComp"], "bool")
ghost("ctr_raises", ["opaque:CTimeRange", "opaque:FComp"], "bool")
ghost("is_comp_filter", ["opaque:CNode"], "bool")


def is_cf(n):
    return is_instance(n, "xandikos.icalendar.ComponentFilter")


def is_pf(n):
    return is_instance(n, "xandikos.icalendar.PropertyFilter")


@contract("iface:CNode.match", params={"self": "opaque:CNode", "comp": "opaque:FComp", "tzify": "opaque:Tzify"},
          returns="bool", assumed=True)
class CNode_match:
    """The answer of a child filter for one component: for a comp-filter child this is
    ComponentFilter.match's own contract (induction hypothesis, see define_cnode_match), for a
    prop-filter child it names PropertyFilter.match's answer (verified above)."""

    def ensures(self, comp, result):
        return result == cnode_match(self, comp)

    def value(self, comp):
        return cnode_match(self, comp)


@contract("iface:CTimeRange.match", params={"self": "opaque:CTimeRange", "comp": "opaque:FComp", "tzify": "opaque:Tzify"},
          returns="bool", assumed=True)
class CTimeRange_match:
    """Names the answer of ComponentTimeRangeMatcher.match (verified above)."""

    def raises_MissingProperty(self, comp):
        return ctr_raises(self, comp)

    def ensures(self, comp, result):
        return result == ctr_match(self, comp)


def child_ok(ch, comp):
    # RFC 4791 9.7.1, for a child filter of a comp-filter that targets `comp`: a comp-filter child
    # is evaluated in the scope of comp's sub-components (is-not-defined: NO sub-component of that
    # type exists; otherwise SOME sub-component matches); a prop-filter child is evaluated on comp
    return ((all(s.name != ch.name for s in comp.subcomponents) if ch.is_not_defined
             else any(cnode_match(ch, s) for s in comp.subcomponents))
            if is_cf(ch) else cnode_match(ch, comp))


def cf_spec(f, comp):
    return ((comp.name != f.name) if f.is_not_defined else
            (comp.name == f.name
             and (f.time_range is None or ctr_match(f.time_range, comp))
             and all(child_ok(ch, comp) for ch in f.children)))


@contract("xandikos.icalendar.ComponentFilter.match",
          params={"self": "opaque:CNode", "comp": "opaque:FComp", "tzify": "opaque:Tzify"}, returns="bool")
class ComponentFilter_match_c:
    def requires(self, comp):
        return (all(is_cf(ch) != is_pf(ch) for ch in self.children)
                and forall("opaque:CTimeRange", lambda t: forall("opaque:FComp", lambda c: not ctr_raises(t, c))))

    def define_cnode_match(self):
        # what a comp-filter node answers for one component is this very function (unfolding of
        # the recursive definition; the recursive call is the induction hypothesis)
        return forall("opaque:CNode", lambda n: forall("opaque:FComp", lambda c: implies(
            is_cf(n), cnode_match(n, c) == cf_spec(n, c))))

    def ensures(self, comp, result):
        return result == cf_spec(self, comp)

    def inv_0(self, comp, _i, _seq):
        return (_seq == self.children and not self.is_not_defined and comp.name == self.name
                and (self.time_range is None or ctr_match(self.time_range, comp))
                and all(child_ok(ch, comp) for ch in _seq[:_i]))


# ---------------------------------------------------------------------------- the whole filter
opaque("CalFilterSelf", attrs={"children": "list[opaque:CNode]", "tzify": "opaque:Tzify"})
opaque("FilterFile", attrs={"calendar": "opt[opaque:FComp]"})


@contract("xandikos.icalendar.CalendarFilter.check",
          params={"self": "opaque:CalFilterSelf", "name": "str", "file": "opaque:FilterFile"}, returns="bool")
class CalendarFilter_check_c:
    """A calendar object resource matches the CALDAV:filter exactly when it is an iCalendar
    file and every top-level comp-filter matches its VCALENDAR object."""

    def ensures(self, file, result):
        return result == (is_instance(file, "xandikos.icalendar.ICalendarFile") and file.calendar is not None
                          and all(cnode_match(ch, file.calendar) for ch in self.children))

    def inv_0(self, file, _i, _seq):
        return (_seq == self.children and is_instance(file, "xandikos.icalendar.ICalendarFile")
                and file.calendar is not None
                and all(cnode_match(ch, file.calendar) for ch in _seq[:_i]))
