"""C13: URL path -> file-system path mapping never leaves the data directory."""

fields("xandikos.web.XandikosBackend", {
    "path": "str", "_user_principals": "set[str]", "paranoid": "bool", "index_threshold": "opt[int]",
})
fields("xandikos.web.CollectionSetResource", {"backend": "obj:xandikos.web.XandikosBackend", "relpath": "str"})


@contract("xandikos.web.XandikosBackend._map_to_file_path",
          params={"self": "obj:xandikos.web.XandikosBackend", "relpath": "str"}, returns="str")
class map_to_file_path:
    """The precondition is what every caller must establish (obligation #pre at each call
    site): an absolute URL path without '..' segments."""

    def requires(self, relpath):
        return relpath.startswith("/") and not has_dotdot_seg(relpath) and self.path != ""

    def ensures(self, relpath, result):
        return under(self.path, result)


opaque("Resource", attrs={"resource_types": "set[str]"})
ghost("is_store_dir", ["str"], "bool")


ghost("member_of", ["opaque:Resource", "str"], "opt[opaque:Resource]")
ghost("resource_at", ["str"], "opt[opaque:Resource]")


@contract("iface:Resource.get_member", params={"self": "opaque:Resource", "name": "str"},
          returns="opaque:Resource", assumed=True)
class Resource_get_member:
    def raises_KeyError(self, name):
        return member_of(self, name) is None

    def ensures(self, name, result):
        return result == member_of(self, name)


@contract("xandikos.web.open_store_from_path", params={"path": "str", "double_check_indexes": "bool",
                                                     "index_threshold": "opt[int]"},
          returns="obj:xandikos.store.git.GitStore", effects=[["Fs", "path"]], assumed=True)
class open_store_from_path_c:
    """lru_cache'd GitStore.open_from_path + handler registration: opens the repository at
    `path` (and nothing else).  ASSUMED (dulwich opens only below the path it is given)."""

    def raises_NotStoreError(path):
        return not is_store_dir(path)


@contract("xandikos.store.git.GitStore.get_type", params={"self": "obj:xandikos.store.git.GitStore"},
          returns="str")
class GitStore_get_type_c:
    pass


@contract("xandikos.web.XandikosBackend.get_resource",
          params={"self": "obj:xandikos.web.XandikosBackend", "relpath": "str"},
          returns="opt[opaque:Resource]", may_raise=["ValueError", "KeyError", "AssertionError"],
          inline_calls=["xandikos.web.XandikosBackend._map_to_file_path"])
class Backend_get_resource:
    """C13: whatever the request path, every file-system location this lookup touches is
    beneath the configured root (the recursion on the parent path is covered by this same
    contract: induction on the path length)."""

    def requires(self):
        return self.path != ""

    def ensures(self):
        return fs_paths_under(self.path)

    def ensures_member_lookup(self, relpath, result):
        # C01: a path that is not a directory on disk is resolved through its parent collection:
        # it exists iff the parent is a collection that has such a member (members of bare
        # repositories have no file on disk)
        n = posixpath.normpath(relpath)
        parent = resource_at(posixpath.normpath(posixpath.split(n)[0]))
        name = posixpath.split(n)[1]
        is_dir = fs_isdir(self.path, n)
        return implies(n != "/" and not is_dir and not in_git_dir(n),
                       result == (None if parent is None or "{DAV:}collection" not in parent.resource_types
                                  else member_of(parent, name)))

    def ensures_git_dir_is_no_resource(self, relpath, result):
        # C01 / C13: nothing inside a repository's control directory is addressable
        return implies(in_git_dir(posixpath.normpath(relpath)), result is None)

    def names_result(self, relpath, result):
        # resource_at(p) is by definition what get_resource returns for the normalised path p
        return result == resource_at(posixpath.normpath(relpath))

    def ensures_raise(self):
        return fs_paths_under(self.path)


def in_git_dir(n):
    # some path segment is '.git'
    return n != "/" and ".git" in n.split("/")


@contract("xandikos.web.XandikosBackend.create_collection",
          params={"self": "obj:xandikos.web.XandikosBackend", "relpath": "str"},
          returns="obj:xandikos.web.Collection", may_raise=["FileExistsError", "FileNotFoundError"],
          effects=[["create_collection", "relpath"]], effects_ok=[["created", "relpath"]])
class Backend_create_collection:
    """C13: whatever path MKCOL / MKCALENDAR / principal creation pass in, the repository is
    created beneath the root (the path is normalised here, as in get_resource)."""

    def requires(self, relpath):
        return self.path != ""

    def ensures(self):
        return fs_paths_under(self.path)

    def ensures_raise(self):
        return fs_paths_under(self.path)


@contract("xandikos.store.git.TreeGitStore.create", params={"cls": "none", "path": "str", "bare": "bool"},
          defaults={"bare": True},
          returns="obj:xandikos.store.git.TreeGitStore", effects=[["Mkdir", "path"]],
          may_raise=["FileExistsError", "FileNotFoundError"], assumed=True)
class TreeGitStore_create_c:
    """os.mkdir(path) + dulwich Repo.init(path): touches only `path` (ASSUMED for dulwich)."""


@contract("xandikos.store.git.GitStore.destroy", params={"self": "obj:xandikos.store.git.GitStore"},
          modifies=["fs()"], effects=[["store_destroyed", "self"]])
class GitStore_destroy_c:
    def ensures(self):
        return effect_names() == ["Rmtree"] and effect_arg(0, 1) == self.path


@contract("xandikos.web.StoreBasedCollection.destroy", params={"self": "obj:xandikos.web.Collection"},
          modifies=["fs()"], effects=[["destroyed", "self"]])
class StoreBasedCollection_destroy_c:
    """Removes exactly the collection's own directory (RFC 2518 8.6.2: recursively)."""

    def ensures(self):
        return effect_names() == ["store_destroyed"] and effect_arg(0, 1) == self.store
