"""C15: collection metadata kept in the repository's git config section [xandikos] and in
.git/description (RepoCollectionMetadata)."""

fields("xandikos.store.git.RepoCollectionMetadata", {"_repo": "obj:dulwich.repo.Repo"})


@contract("xandikos.store.git.RepoCollectionMetadata._write_config",
          params={"self": "obj:xandikos.store.git.RepoCollectionMetadata", "config": "obj:dulwich.config.ConfigFile"},
          modifies=["self._repo"])
class write_config_c:
    """Serialising the ConfigFile and storing it as .git/config makes exactly its contents the
    repository's configuration - through dulwich's atomic named-file replacement and nothing
    else (C04: no other write).  The dulwich write/read round trip itself is ASSUMED in the model
    (the property text excludes ';' for this back end because the dulwich writer truncates it)."""

    def ensures(self, config):
        return (effect_names() == ["put_named_file"]
                and repo_gitconfig(self._repo) == gitconfig_data(config)
                and repo_description(self._repo) == old(repo_description(self._repo))
                and repo_head(self._repo) == old(repo_head(self._repo))
                and repo_ncommits(self._repo) == old(repo_ncommits(self._repo)))


def git_cfg(self, option):
    return repo_gitconfig(self._repo).get(option)


@contract("xandikos.store.git.RepoCollectionMetadata.set_color",
          params={"self": "obj:xandikos.store.git.RepoCollectionMetadata", "color": "opt[str]"},
          modifies=["self._repo"],
          effects=[["metadata_write", "self"]])
class repo_set_color_c:
    def ensures(self, color):
        want = color.encode("utf-8") if color is not None else b""
        return (repo_gitconfig(self._repo) == old(repo_gitconfig(self._repo)).put(b"xandikos/color", want)
                and repo_description(self._repo) == old(repo_description(self._repo)))


@contract("xandikos.store.git.RepoCollectionMetadata.get_color",
          params={"self": "obj:xandikos.store.git.RepoCollectionMetadata"}, returns="str")
class repo_get_color_c:
    def raises_KeyError(self):
        return git_cfg(self, b"xandikos/color") is None or git_cfg(self, b"xandikos/color") == b""

    def ensures(self, result):
        return result == git_cfg(self, b"xandikos/color").decode("utf-8")


@contract("xandikos.store.git.RepoCollectionMetadata.set_displayname",
          params={"self": "obj:xandikos.store.git.RepoCollectionMetadata", "displayname": "opt[str]"},
          modifies=["self._repo"],
          effects=[["metadata_write", "self"]])
class repo_set_displayname_c:
    def ensures(self, displayname):
        want = displayname.encode("utf-8") if displayname is not None else b""
        return (repo_gitconfig(self._repo) == old(repo_gitconfig(self._repo)).put(b"xandikos/displayname", want)
                and repo_description(self._repo) == old(repo_description(self._repo)))


@contract("xandikos.store.git.RepoCollectionMetadata.get_displayname",
          params={"self": "obj:xandikos.store.git.RepoCollectionMetadata"}, returns="str")
class repo_get_displayname_c:
    def raises_KeyError(self):
        return git_cfg(self, b"xandikos/displayname") is None or git_cfg(self, b"xandikos/displayname") == b""

    def ensures(self, result):
        return result == git_cfg(self, b"xandikos/displayname").decode("utf-8")


@contract("xandikos.store.git.RepoCollectionMetadata.set_comment",
          params={"self": "obj:xandikos.store.git.RepoCollectionMetadata", "comment": "opt[str]"},
          modifies=["self._repo"],
          effects=[["metadata_write", "self"]])
class repo_set_comment_c:
    def ensures(self, comment):
        want = comment.encode("utf-8") if comment is not None else b""
        return (repo_gitconfig(self._repo) == old(repo_gitconfig(self._repo)).put(b"xandikos/comment", want)
                and repo_description(self._repo) == old(repo_description(self._repo)))


@contract("xandikos.store.git.RepoCollectionMetadata.get_comment",
          params={"self": "obj:xandikos.store.git.RepoCollectionMetadata"}, returns="str")
class repo_get_comment_c:
    def raises_KeyError(self):
        return git_cfg(self, b"xandikos/comment") is None or git_cfg(self, b"xandikos/comment") == b""

    def ensures(self, result):
        return result == git_cfg(self, b"xandikos/comment").decode("utf-8")


@contract("xandikos.store.git.RepoCollectionMetadata.set_description",
          params={"self": "obj:xandikos.store.git.RepoCollectionMetadata", "description": "opt[str]"},
          modifies=["self._repo"],
          effects=[["metadata_write", "self"]])
class repo_set_description_c:
    def ensures(self, description):
        want = description.encode("utf-8") if description is not None else b""
        return (repo_description(self._repo) == want
                and repo_gitconfig(self._repo) == old(repo_gitconfig(self._repo)))


@contract("xandikos.store.git.RepoCollectionMetadata.get_description",
          params={"self": "obj:xandikos.store.git.RepoCollectionMetadata"}, returns="str")
class repo_get_description_c:
    """Every non-empty description reads back as written (no text is special)."""

    def raises_KeyError(self):
        return repo_description(self._repo) is None or repo_description(self._repo) == b""

    def ensures(self, result):
        return result == repo_description(self._repo).decode("utf-8")


@contract("xandikos.store.git.RepoCollectionMetadata.set_order",
          params={"self": "obj:xandikos.store.git.RepoCollectionMetadata", "order": "opt[str]"},
          modifies=["self._repo"],
          effects=[["metadata_write", "self"]])
class repo_set_order_c:
    def ensures(self, order):
        want = order.encode("utf-8") if order is not None else b""
        return (repo_gitconfig(self._repo) == old(repo_gitconfig(self._repo)).put(b"xandikos/calendar-order", want)
                and repo_description(self._repo) == old(repo_description(self._repo)))


@contract("xandikos.store.git.RepoCollectionMetadata.get_order",
          params={"self": "obj:xandikos.store.git.RepoCollectionMetadata"}, returns="str")
class repo_get_order_c:
    def raises_KeyError(self):
        return git_cfg(self, b"xandikos/calendar-order") is None or git_cfg(self, b"xandikos/calendar-order") == b""

    def ensures(self, result):
        return result == git_cfg(self, b"xandikos/calendar-order").decode("utf-8")


@contract("xandikos.store.git.RepoCollectionMetadata.set_source_url",
          params={"self": "obj:xandikos.store.git.RepoCollectionMetadata", "url": "opt[str]"},
          modifies=["self._repo"],
          effects=[["metadata_write", "self"]])
class repo_set_source_url_c:
    def ensures(self, url):
        want = url.encode("utf-8") if url is not None else b""
        return (repo_gitconfig(self._repo) == old(repo_gitconfig(self._repo)).put(b"xandikos/source", want)
                and repo_description(self._repo) == old(repo_description(self._repo)))


@contract("xandikos.store.git.RepoCollectionMetadata.get_source_url",
          params={"self": "obj:xandikos.store.git.RepoCollectionMetadata"}, returns="str")
class repo_get_source_url_c:
    def raises_KeyError(self):
        return git_cfg(self, b"xandikos/source") is None or git_cfg(self, b"xandikos/source") == b""

    def ensures(self, result):
        return result == git_cfg(self, b"xandikos/source").decode("utf-8")
