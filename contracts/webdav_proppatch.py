"""C15: apply_modify_prop reports 200 for a property exactly when its handler's set_value ran
and returned normally (404 unknown / unsupported, 409 protected)."""

opaque("PropHandler", maybe=["get_value_ext"])   # get_value_ext: only data properties (SubbedProperty) have it
ghost("handler_for", ["opaque:Registry", "str"], "opt[opaque:PropHandler]")
ghost("handler_supported", ["opaque:PropHandler", "opaque:Resource"], "bool")
ghost("set_value_protected", ["opaque:PropHandler", "opaque:Resource", "opt[opaque:Element]"], "bool")



@contract("iface:Registry.__getitem__", params={"self": "opaque:Registry", "key": "str"}, returns="opaque:PropHandler",
          assumed=True)
class Registry_getitem:
    def raises_KeyError(self, key):
        return handler_for(self, key) is None

    def ensures(self, key, result):
        return result == handler_for(self, key)


@contract("iface:PropHandler.supported_on", params={"self": "opaque:PropHandler", "resource": "opaque:Resource"},
          returns="bool", assumed=True)
class PropHandler_supported_on:
    def ensures(self, resource, result):
        return result == handler_supported(self, resource)


@contract("iface:PropHandler.set_value",
          params={"self": "opaque:PropHandler", "href": "str", "resource": "opaque:Resource", "el": "opt[opaque:Element]"},
          effects=[["set_value", "self", "resource", "el"]], assumed=True)
class PropHandler_set_value:
    def raises_NotImplementedError(self, resource, el):
        return set_value_protected(self, resource, el)


def expected_status(properties, resource, propel, removing):
    h = handler_for(properties, propel.tag)
    return ("404 Not Found" if h is None or not handler_supported(h, resource)
            else "409 Conflict" if set_value_protected(h, resource, None if removing else propel)
            else "200 OK")


@contract("xandikos.webdav.apply_modify_prop",
          params={"el": "opaque:Element", "href": "str", "resource": "opaque:Resource", "properties": "opaque:Registry"},
          returns="list[tuple[str,opt[str],opaque:XmlOut]]", yields="tuple[str,opt[str],opaque:XmlOut]",
          locals={"statuscode": "str"})
class apply_modify_prop_real_c:
    def requires(el):
        return el.tag == "{DAV:}set" or el.tag == "{DAV:}remove"

    def raises_ValueError(el):
        # `[requested] = el` with no or several children (the IndexError the code catches is
        # never raised by an unpacking): the caller answers 500
        return len(el) != 1

    def raises_BadRequestError(el):
        return len(el) == 1 and el[0].tag != "{DAV:}prop"

    def ensures(el, resource, properties, result):
        props = el[0]
        removing = el.tag == "{DAV:}remove"
        return (len(result) == len(props)
                and forall("int", lambda j: implies(
                    0 <= j and j < len(result),
                    result[j][0] == expected_status(properties, resource, props[j], removing))))

    def inv_0(el, resource, properties, requested, _i, _seq, _yielded):
        removing = el.tag == "{DAV:}remove"
        return (len(_yielded) == _i
                and forall("int", lambda j: implies(
                    0 <= j and j < _i,
                    _yielded[j][0] == expected_status(properties, resource, _seq[j], removing))))
