"""C16 / C18: what a Depth 1 listing of a collection is made of, and principal / default
collection creation on (re)start.

subdirectories(): the sub-collections of a tree store are exactly the sub-directories of its
directory other than git's own control directory - every one of them, whatever it contains
(a bare repository pushed there, a collection created by another process), each once.

create_principal_defaults(): runs on every start with --defaults.  Each of the three default
collections is either created and typed, or - when something exists at its path - left
completely alone: nothing is removed, re-typed or re-initialised."""


@contract("xandikos.store.git.TreeGitStore.subdirectories", params={"self": "obj:xandikos.store.git.TreeGitStore"},
          returns="list[str]", locals={"ret": "list[str]"}, loop_modifies={0: ["ret"]})
class TreeGitStore_subdirectories_c:
    def ensures(self, result):
        return (forall("str", lambda n: any(n == x for x in result) == (n in fs_subdirs(self.path) and n != ".git"))
                and forall("int", lambda i: forall("int", lambda j: implies(
                    0 <= i and i < j and j < len(result), result[i] != result[j])))
                and effect_names() == [])

    def inv_0(self, ret, _i, _seq):
        return (forall("int", lambda i: forall("int", lambda j: implies(0 <= i and i < j and j < len(_seq), _seq[i] != _seq[j])))
                and forall("str", lambda n: any(n == x for x in _seq) == (n in fs_subdirs(self.path) or fs_has(self.path, n)))
                and forall("str", lambda n: any(n == x for x in ret) == (
                    any(n == x for x in _seq[:_i]) and n in fs_subdirs(self.path) and n != ".git"))
                and forall("int", lambda i: forall("int", lambda j: implies(0 <= i and i < j and j < len(ret), ret[i] != ret[j]))))


fields("xandikos.web.PrincipalBare", {"relpath": "str", "backend": "obj:xandikos.web.XandikosBackend"})


@contract("xandikos.store.git.GitStore.set_type", params={"self": "obj:xandikos.store.git.GitStore", "store_type": "str"},
          effects=[["set_type", "self", "store_type"]], assumed=True)
class GitStore_set_type_c:
    """ASSUMED here (writes xandikos.type into the repository's own config; C15 covers the
    metadata round trip): recorded as an effect so that callers can be held to when they call it."""


@contract("xandikos.web.create_principal_defaults",
          params={"backend": "obj:xandikos.web.XandikosBackend", "principal": "obj:xandikos.web.PrincipalBare"},
          modifies=["fs()"], modifies_on_raise=["fs()"], may_raise=["FileNotFoundError"])
class create_principal_defaults_c:
    """Idempotent (re)start step: exactly three create attempts, at <principal>/calendars/calendar,
    <principal>/contacts/addressbook and <principal>/inbox; a store type is set only on a
    collection this call has just created; nothing is ever removed.  (FileNotFoundError: a
    home-set directory is missing - PrincipalBare.create makes them first.)"""

    def requires(backend):
        return backend.path != ""

    def ensures_three_attempts(principal):
        attempts = [i for i in range(len(effect_names())) if effect_names()[i] == "create_collection"]
        return (len(attempts) == 3
                and effect_arg(attempts[0], 1) == posixpath.join(principal.relpath, "calendars", "calendar")
                and effect_arg(attempts[1], 1) == posixpath.join(principal.relpath, "contacts", "addressbook")
                and effect_arg(attempts[2], 1) == posixpath.join(principal.relpath, "inbox"))

    def ensures_existing_untouched():
        names = effect_names()
        return (all(n == "create_collection" or n == "created" or n == "set_type" for n in names)
                # a type is set exactly once per collection created by this call, right after it
                and all(implies(names[i] == "set_type", i > 0 and names[i - 1] == "created") for i in range(len(names)))
                and all(implies(names[i] == "created", i + 1 < len(names) and names[i + 1] == "set_type") for i in range(len(names))))


# ---------------------------------------------------------------------------- listing (C16)
ghost("object_resource", ["str", "str", "str"], "opaque:Resource")      # ObjectResource(store, name, content_type, etag)


@contract("iface:Backend.get_resource", params={"self": "opaque:Backend", "relpath": "str"}, returns="opt[opaque:Resource]",
          assumed=True)
class Backend_get_resource_iface:
    """XandikosBackend.get_resource (contracts/web_paths.py): named by resource_at."""

    def ensures(self, relpath, result):
        return result == resource_at(posixpath.normpath(relpath))


@contract("xandikos.web.StoreBasedCollection._get_resource",
          params={"self": "obj:xandikos.web.StoreBasedCollection", "name": "str", "content_type": "str", "etag": "str",
                  "file": "none"}, defaults={"file": None},
          returns="opaque:Resource", assumed=True)
class Collection_get_resource_c:
    """ASSUMED naming of the constructor call ObjectResource(self.store, name, content_type, etag)."""

    def ensures(self, name, content_type, etag, result):
        return result == object_resource(name, content_type, etag)


@contract("xandikos.web.StoreBasedCollection._get_subcollection",
          params={"self": "obj:xandikos.web.StoreBasedCollection", "name": "str"}, returns="opt[opaque:Resource]")
class Collection_get_subcollection_c:
    def ensures(self, name, result):
        return result == resource_at(posixpath.normpath(posixpath.join(self.relpath, name)))


@contract("xandikos.web.StoreBasedCollection.subcollections",
          params={"self": "obj:xandikos.web.StoreBasedCollection"},
          returns="list[tuple[str,opt[opaque:Resource]]]", yields="tuple[str,opt[opaque:Resource]]")
class Collection_subcollections_c:
    """One entry per sub-directory the store reports, in that order, each resolved through the
    backend at <collection path>/<name>."""

    def ensures(self, result):
        S = sub_names(self.store)
        return (len(result) == len(S)
                and forall("int", lambda j: implies(
                    0 <= j and j < len(S),
                    result[j][0] == S[j]
                    and result[j][1] == resource_at(posixpath.normpath(posixpath.join(self.relpath, S[j]))))))

    def inv_0(self, _i, _seq, _yielded):
        return (_seq == sub_names(self.store) and len(_yielded) == _i
                and forall("int", lambda j: implies(
                    0 <= j and j < _i,
                    _yielded[j][0] == _seq[j]
                    and _yielded[j][1] == resource_at(posixpath.normpath(posixpath.join(self.relpath, _seq[j]))))))


@contract("xandikos.web.StoreBasedCollection.members",
          params={"self": "obj:xandikos.web.StoreBasedCollection"},
          returns="list[tuple[str,opt[opaque:Resource]]]", yields="tuple[str,opt[opaque:Resource]]")
class Collection_members_c:
    """C16: the members of a collection are exactly its stored items (every name of the member
    map, each once, with the etag it currently has) followed by its sub-collections."""

    def ensures(self, result):
        M = self.store.ghost_M
        S = sub_names(self.store)
        n = len(keys_list(M))
        return (len(result) == n + len(S)
                and forall("int", lambda j: implies(
                    0 <= j and j < n,
                    result[j][0] == keys_list(M)[j]
                    and result[j][1] == object_resource(keys_list(M)[j], default_mime(keys_list(M)[j]), M[keys_list(M)[j]])))
                and forall("int", lambda j: implies(
                    0 <= j and j < len(S),
                    result[n + j][0] == S[j]
                    and result[n + j][1] == resource_at(posixpath.normpath(posixpath.join(self.relpath, S[j]))))))

    def inv_0(self, _i, _seq, _yielded):
        M = self.store.ghost_M
        return (lists(_seq, M) and len(_yielded) == _i
                and forall("int", lambda j: implies(
                    0 <= j and j < _i,
                    _yielded[j][0] == keys_list(M)[j]
                    and _yielded[j][1] == object_resource(keys_list(M)[j], default_mime(keys_list(M)[j]), M[keys_list(M)[j]]))))

    def inv_1(self, _i, _seq, _yielded):
        M = self.store.ghost_M
        S = sub_names(self.store)
        n = len(keys_list(M))
        return (len(_seq) == len(S) and len(_yielded) == n + _i
                and forall("int", lambda j: implies(
                    0 <= j and j < len(S),
                    _seq[j][0] == S[j]
                    and _seq[j][1] == resource_at(posixpath.normpath(posixpath.join(self.relpath, S[j])))))
                and forall("int", lambda j: implies(
                    0 <= j and j < n,
                    _yielded[j][0] == keys_list(M)[j]
                    and _yielded[j][1] == object_resource(keys_list(M)[j], default_mime(keys_list(M)[j]), M[keys_list(M)[j]])))
                and forall("int", lambda j: implies(
                    0 <= j and j < _i,
                    _yielded[n + j][0] == S[j]
                    and _yielded[n + j][1] == resource_at(posixpath.normpath(posixpath.join(self.relpath, S[j]))))))


@contract("xandikos.web.StoreBasedCollection.get_member",
          params={"self": "obj:xandikos.web.StoreBasedCollection", "name": "str"}, returns="opt[opaque:Resource]")
class Collection_get_member_c:
    """C01: a name addresses a member exactly when the listing shows it - a stored item of the
    member map (never the collection's own metadata file or anything else in its directory) or
    a sub-collection; everything else is KeyError (404)."""

    def requires(self, name):
        return name != ""

    def raises_KeyError(self, name):
        return name not in self.store.ghost_M and not any(name == s for s in sub_names(self.store))

    def ensures(self, name, result):
        M = self.store.ghost_M
        return result == (object_resource(name, default_mime(name), M[name]) if name in M
                          else resource_at(posixpath.normpath(posixpath.join(self.relpath, name))))

    def inv_0(self, name, _i, _seq):
        M = self.store.ghost_M
        return lists(_seq, M) and forall("int", lambda j: implies(0 <= j and j < _i, keys_list(M)[j] != name))


fields("xandikos.web.XandikosBackend", {"path": "str", "_user_principals": "set[str]", "paranoid": "bool", "index_threshold": "opt[int]"})


@contract("xandikos.web.XandikosBackend._mark_as_principal", params={"self": "obj:xandikos.web.XandikosBackend", "path": "str"},
          modifies=["self._user_principals"], effects=[["mark_as_principal", "path"]])
class Backend_mark_as_principal_c:
    """C18: the configured principal path is registered in its normalised form (with or without
    a trailing slash, it is the same principal), and nothing is unregistered."""

    def ensures(self, path):
        return forall("str", lambda p: (p in self._user_principals) == (p in old(self._user_principals) or p == posixpath.normpath(path)))


@contract("xandikos.web.PrincipalBare.create", params={"cls": "none", "backend": "obj:xandikos.web.XandikosBackend", "relpath": "str"},
          returns="obj:xandikos.web.PrincipalBare", effects=[["principal_create", "relpath"]], modifies=["fs()"], assumed=True)
class PrincipalBare_create_c:
    """ASSUMED here (creates the principal directory and its two home sets, existing ones are
    kept: FileExistsError is swallowed per collection); exercised by the discovery explorer."""


@contract("xandikos.web.XandikosBackend.create_principal",
          params={"self": "obj:xandikos.web.XandikosBackend", "relpath": "str", "create_defaults": "bool"},
          defaults={"create_defaults": False}, modifies=["self._user_principals", "fs()"], modifies_on_raise=["fs()", "self._user_principals"],
          may_raise=["FileNotFoundError"])
class Backend_create_principal_c:
    """C18: creating a principal always registers it as one; default collections only on request."""

    def requires(self):
        return self.path != ""

    def ensures(self, relpath, create_defaults):
        return (posixpath.normpath(relpath) in self._user_principals
                and forall("str", lambda p: implies(p in old(self._user_principals), p in self._user_principals)))
