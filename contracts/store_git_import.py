"""C01/C03/C06/C14: GitStore._check_duplicate and GitStore.import_one against the
abstract member map ghost_M."""


@contract("xandikos.store.open_by_content_type",
          params={"content": "opaque:Chunks", "content_type": "str", "extra_file_handlers": "opaque:Handlers"},
          returns="opaque:File")
class open_by_content_type_c:
    def ensures(content, content_type, extra_file_handlers, result):
        return result == file_by_ct(content, content_type, extra_file_handlers)


@contract("xandikos.store.git.GitStore._get_etag",
          params={"self": "obj:xandikos.store.git.GitStore", "name": "str"}, returns="str")
class GitStore_get_etag:
    """Interface contract, refined by BareGitStore._get_etag / TreeGitStore._get_etag."""

    def raises_KeyError(self, name):
        # (the metadata entry .xandikos is not a member; its blob id is ghost_cfg)
        return (self.ghost_cfg is None) if name == ".xandikos" else (name not in self.ghost_M)

    def ensures(self, name, result):
        return result == (self.ghost_cfg if name == ".xandikos" else self.ghost_M[name])


def uid_conflict(self, uid, name):
    return exists("str", lambda n: n in self.ghost_M and n != name
                  and stored_uid(self, n, self.ghost_M[n]) == uid)


@contract("xandikos.store.git.GitStore._check_duplicate",
          params={"self": "obj:xandikos.store.git.GitStore", "uid": "opt[str]", "name": "str",
                  "replace_etag": "opt[str]"},
          returns="opt[str]",
          modifies=["self._fname_to_uid", "self._uid_to_fname"],
          modifies_on_raise=["self._fname_to_uid", "self._uid_to_fname"])
class GitStore_check_duplicate:
    def requires(self, name):
        return store_inv(self) and name != ".xandikos"

    def raises_DuplicateUidError(self, uid, name):
        # exactly when a *different* member currently holds this uid (C06, both directions)
        return uid is not None and self._check_for_duplicate_uids and uid_conflict(self, uid, name)

    def raises_InvalidETag(self, uid, name, replace_etag):
        return (not (uid is not None and self._check_for_duplicate_uids and uid_conflict(self, uid, name))
                and replace_etag is not None and self.ghost_M.get(name) != replace_etag)

    def ensures(self, uid, name, replace_etag, result):
        return result == self.ghost_M.get(name) and store_inv(self)

    def ensures_raise(self):
        return store_inv(self)


@contract("xandikos.store.git.GitStore._import_one",
          params={"self": "obj:xandikos.store.git.GitStore", "name": "str", "data": "opaque:Chunks",
                  "message": "str", "author": "opt[str]"},
          returns="bytes", modifies=["self.ghost_M"])
class GitStore__import_one:
    """Interface contract (refined by BareGitStore / TreeGitStore): store `data` under `name`.
    ghost_locked: an index.lock exists (tree stores only; constantly False for bare stores)."""

    def raises_LockedError(self):
        return self.ghost_locked

    def ensures(self, name, data, result):
        return (result == blob_id(data)
                and in_store(self.repo.object_store, result)
                and self.ghost_M == old(self.ghost_M).put(name, result.decode("ascii")))


@contract("xandikos.store.git.GitStore._import_one", variant="metadata", when={"name": ".xandikos"},
          params={"self": "obj:xandikos.store.git.GitStore", "name": "str", "data": "opaque:Chunks",
                  "message": "str", "author": "opt[str]"},
          returns="bytes", modifies=["self.ghost_cfg"])
class GitStore__import_one_metadata:
    """Interface contract for the collection's own metadata file (refined by
    BareGitStore._import_one@metadata / TreeGitStore._import_one@metadata): it becomes the
    metadata entry; no member changes."""

    def requires(self, name):
        return name == ".xandikos"

    def raises_LockedError(self):
        return self.ghost_locked

    def ensures(self, name, data, result):
        return (result == blob_id(data)
                and in_store(self.repo.object_store, result)
                and self.ghost_cfg == result.decode("ascii")
                and self.ghost_M == old(self.ghost_M))


@contract("xandikos.store.Store.get_file",
          params={"self": "obj:xandikos.store.git.GitStore", "name": "str", "content_type": "opt[str]",
                  "etag": "opt[str]"},
          returns="opaque:File", may_raise=["KeyError"])
class Store_get_file_c:
    pass


ghost("uuid4_str", [], "str")


def upload_file(self, name, content_type, data):
    return (file_of(data, name, self.extra_file_handlers) if content_type is None
            else file_by_ct(data, content_type, self.extra_file_handlers))


def accepted_upload(self, name, content_type, data):
    # the name of the collection's own metadata file is not a member name; anything else must
    # be a valid file of its type
    return name != ".xandikos" and valid_file(upload_file(self, name, content_type, data))


def upload_uid(f):
    return uid_val(f) if uid_ok(f) else None


def effective_name(name, content_type):
    return name if name is not None else (
        uuid4_str() + guessed_ext(content_type) if guessed_ext(content_type) is not None else uuid4_str())


def refused_dup(self, name, content_type, data):
    f = upload_file(self, name, content_type, data)
    return (upload_uid(f) is not None and self._check_for_duplicate_uids
            and uid_conflict(self, upload_uid(f), effective_name(name, content_type)))


@contract("xandikos.store.git.GitStore.import_one",
          params={"self": "obj:xandikos.store.git.GitStore", "name": "opt[str]", "content_type": "opt[str]",
                  "data": "opaque:Chunks", "message": "opt[str]", "author": "opt[str]", "replace_etag": "opt[str]"},
          returns="tuple[str,str]",
          modifies=["self._fname_to_uid", "self._uid_to_fname", "self.ghost_M"],
          modifies_on_raise=["self._fname_to_uid", "self._uid_to_fname"])
class GitStore_import_one:
    def requires(self, name, content_type):
        # name None comes with a content type (POST add-member); InvalidFileContents outcome 2 of
        # get_uid cannot happen after validate() succeeded
        return (store_inv(self) and (name is not None or content_type is not None)
                # a generated name (uuid4 + extension) is never the reserved one
                and implies(name is None, effective_name(name, content_type) != ".xandikos")
                and forall("opaque:File", lambda f: implies(valid_file(f), uid_outcome(f) != 2)))

    def raises_InvalidFileContents(self, name, content_type, data):
        return not accepted_upload(self, name, content_type, data)

    def raises_DuplicateUidError(self, name, content_type, data):
        return accepted_upload(self, name, content_type, data) and refused_dup(self, name, content_type, data)

    def raises_InvalidETag(self, name, content_type, data, replace_etag):
        return (accepted_upload(self, name, content_type, data)
                and not refused_dup(self, name, content_type, data)
                and replace_etag is not None
                and self.ghost_M.get(effective_name(name, content_type)) != replace_etag)

    def raises_LockedError(self, name, content_type, data, replace_etag):
        return (accepted_upload(self, name, content_type, data)
                and not refused_dup(self, name, content_type, data)
                and not (replace_etag is not None
                         and self.ghost_M.get(effective_name(name, content_type)) != replace_etag)
                and self.ghost_locked)

    def ensures(self, name, content_type, data, result):
        f = upload_file(self, name, content_type, data)
        return (result[0] == effective_name(name, content_type)
                and result[1] == blob_id(normalized_of(f)).decode("ascii")
                and self.ghost_M == old(self.ghost_M).put(result[0], result[1])
                and in_store(self.repo.object_store, blob_id(normalized_of(f))))
