"""C02 / C08 / C15 / C16: how PROPFIND (and every report that shows properties) obtains one
property of one resource: through the handler registered under exactly the requested name,
asked exactly once about exactly this resource, with the status the protocol assigns to the
handler's outcome - 404 unknown / not applicable / no value, 501 not implemented, else 200."""

ghost("get_value_outcome", ["opaque:PropHandler", "opaque:Resource"], "int")   # 0 value, 1 KeyError, 2 NotImplementedError


@contract("iface:PropHandler.get_value",
          params={"self": "opaque:PropHandler", "href": "str", "resource": "opaque:Resource", "el": "obj:xml.Element",
                  "environ": "dict[str,str]"},
          modifies=["el"], modifies_on_raise=["el"], effects=[["get_value", "self", "resource", "el"]], assumed=True)
class PropHandler_get_value:
    def raises_KeyError(self, resource):
        return get_value_outcome(self, resource) == 1

    def raises_NotImplementedError(self, resource):
        return get_value_outcome(self, resource) == 2

    def ensures(self, el):
        return el.tag == old(el.tag)

    def ensures_raise(self, el):
        return el.tag == old(el.tag)


@contract("iface:PropHandler.get_value_ext",
          params={"self": "opaque:PropHandler", "href": "str", "resource": "opaque:Resource", "el": "obj:xml.Element",
                  "environ": "dict[str,str]", "requested": "opaque:Element"},
          modifies=["el"], modifies_on_raise=["el"], effects=[["get_value", "self", "resource", "el"]], assumed=True)
class PropHandler_get_value_ext:
    def raises_KeyError(self, resource):
        return get_value_outcome(self, resource) == 1

    def raises_NotImplementedError(self, resource):
        return get_value_outcome(self, resource) == 2

    def ensures(self, el):
        return el.tag == old(el.tag)

    def ensures_raise(self, el):
        return el.tag == old(el.tag)


def get_status(properties, resource, tag):
    h = handler_for(properties, tag)
    return ("404 Not Found" if h is None or not handler_supported(h, resource) or get_value_outcome(h, resource) == 1
            else "501 Not Implemented" if get_value_outcome(h, resource) == 2
            else "200 OK")


@contract("xandikos.webdav.get_property_from_element",
          params={"href": "str", "resource": "opaque:Resource", "properties": "opaque:Registry", "environ": "dict[str,str]",
                  "requested": "opaque:Element"},
          returns="tuple[str,opt[str],opaque:XmlOut]")
class get_property_from_element_c:
    def ensures(resource, properties, requested, result):
        h = handler_for(properties, requested.tag)
        asked = h is not None and handler_supported(h, resource)
        return (result[0] == get_status(properties, resource, requested.tag)
                and result[1] is None
                and result[2].tag == requested.tag
                # the handler is asked exactly once, about this resource
                and implies(asked, effect_names() == ["get_value"]) and implies(not asked, effect_names() == [])
                and implies(asked, effect_arg(0, 1) == h and effect_arg(0, 2) == resource))


@contract("xandikos.webdav.get_properties",
          params={"href": "str", "resource": "opaque:Resource", "properties": "opaque:Registry", "environ": "dict[str,str]",
                  "requested": "opaque:Element"},
          returns="list[tuple[str,opt[str],opaque:XmlOut]]", yields="tuple[str,opt[str],opaque:XmlOut]")
class get_properties_c:
    """One answer per requested property, in request order, each with the status and the name
    get_property_from_element assigns."""

    def ensures(resource, properties, requested, result):
        return (len(result) == len(requested)
                and forall("int", lambda j: implies(
                    0 <= j and j < len(result),
                    result[j][0] == get_status(properties, resource, requested[j].tag)
                    and result[j][2].tag == requested[j].tag)))

    def inv_0(resource, properties, requested, _i, _seq, _yielded):
        return (len(_seq) == len(requested)
                and forall("int", lambda j: implies(0 <= j and j < len(_seq), _seq[j] == requested[j]))
                and len(_yielded) == _i
                and forall("int", lambda j: implies(
                    0 <= j and j < _i,
                    _yielded[j][0] == get_status(properties, resource, requested[j].tag)
                    and _yielded[j][2].tag == requested[j].tag)))


fields("xandikos.webdav.Status", {"href": "str", "status": "opt[str]", "propstat": "opt[list[tuple[str,opt[str],opaque:XmlOut]]]"})


@contract("xandikos.webdav.get_all_properties",
          params={"href": "str", "resource": "opaque:Resource", "properties": "opaque:Registry", "environ": "dict[str,str]"},
          returns="list[tuple[str,opt[str],opaque:XmlOut]]", assumed=True)
class get_all_properties_c:
    """Not verified (iterates the registry): shape only."""


@contract("xandikos.webdav.get_property_names",
          params={"href": "str", "resource": "opaque:Resource", "properties": "opaque:Registry", "environ": "dict[str,str]",
                  "requested": "opaque:Element"},
          returns="list[tuple[str,opt[str],opaque:XmlOut]]", assumed=True)
class get_property_names_c:
    """Not verified (iterates the registry): shape only."""


@contract("xandikos.webdav.PropfindMethod.handle",
          params={"self": "obj:xandikos.webdav.PropfindMethod", "request": "opaque:Request", "environ": "dict[str,str]",
                  "app": "obj:xandikos.webdav.WebDAVApp"},
          returns="list[struct:xandikos.webdav.Status]", yields="struct:xandikos.webdav.Status",
          may_raise=["ValueError", "KeyError", "AssertionError", "BadRequestError", "UnsupportedMediaType"])
class Propfind_handle_c:
    """C16: a PROPFIND answers with one response for the addressed resource and, at Depth 1,
    one per direct member - each once, in members() order, under the href the listing lemma
    needs (collection hrefs end in '/', a member's href is the collection's followed by its
    name); a missing target is one 404 response."""

    def requires(self, request, app):
        return app.backend.path != "" and header(request.headers, "Depth") in ("0", "1")

    def ensures_missing(self, request, result):
        return implies(target(request) is None,
                       len(result) == 1 and result[0].status == "404 Not Found" and result[0].href == request.path)

    def ensures_listing(self, request, result):
        t = target(request)
        h = own_href(t, request.path)
        ms = members_of(t)
        deep = header(request.headers, "Depth") == "1" and is_collection(t)
        return implies(t is not None and known_request(request),
                       len(result) == (1 + len(ms) if deep else 1)
                       and result[0].href == h and result[0].status == "200 OK"
                       and implies(deep, forall("int", lambda k: implies(
                           0 <= k and k < len(ms),
                           result[1 + k].href == own_href(ms[k][1], h + ms[k][0]) and result[1 + k].status == "200 OK"))))

    def ensures_values(self, request, app, result):
        # C02 / C08 / C15: with a {DAV:}prop request every response carries, for each requested
        # property in request order, the status get_property_from_element assigns for *that* resource
        t = target(request)
        ms = members_of(t)
        req = xml_body(request)[0]
        return implies(t is not None and request.can_read_body and len(xml_body(request)) == 1 and req.tag == "{DAV:}prop",
                       forall("int", lambda j: implies(
                           0 <= j and j < len(result),
                           result[j].propstat is not None and len(result[j].propstat) == len(req)
                           and forall("int", lambda i: implies(
                               0 <= i and i < len(req),
                               result[j].propstat[i][0] == get_status(app.properties, (t if j == 0 else ms[j - 1][1]), req[i].tag)
                               and result[j].propstat[i][2].tag == req[i].tag)))))

    def inv_0(self, request, app, requested, _i, _seq, _yielded):
        known = requested is None or requested.tag in ("{DAV:}allprop", "{DAV:}prop", "{DAV:}propname")
        return ((len(_yielded) == _i if known else len(_yielded) == 0)
                and forall("int", lambda j: implies(0 <= j and j < len(_yielded),
                                                    _yielded[j].href == _seq[j][0] and _yielded[j].status == "200 OK"))
                and implies(requested is not None and requested.tag == "{DAV:}prop",
                            forall("int", lambda j: implies(
                                0 <= j and j < len(_yielded),
                                _yielded[j].propstat is not None and len(_yielded[j].propstat) == len(requested)
                                and forall("int", lambda i: implies(
                                    0 <= i and i < len(requested),
                                    _yielded[j].propstat[i][0] == get_status(app.properties, _seq[j][1], requested[i].tag)
                                    and _yielded[j].propstat[i][2].tag == requested[i].tag))))))


def known_request(request):
    """No body (= allprop), or a body whose single child is allprop / prop / propname."""
    return (not request.can_read_body
            or (len(xml_body(request)) == 1
                and xml_body(request)[0].tag in ("{DAV:}allprop", "{DAV:}prop", "{DAV:}propname")))


@contract("xandikos.webdav.ProppatchMethod.handle",
          params={"self": "obj:xandikos.webdav.ProppatchMethod", "request": "opaque:Request", "environ": "dict[str,str]",
                  "app": "obj:xandikos.webdav.WebDAVApp"},
          returns="list[struct:xandikos.webdav.Status]", yields="struct:xandikos.webdav.Status",
          locals={"propstat": "list[tuple[str,opt[str],opaque:XmlOut]]"}, loop_modifies={0: ["propstat"]},
          may_raise=["ValueError", "KeyError", "AssertionError", "BadRequestError", "UnsupportedMediaType"])
class Proppatch_handle_c:
    """C15: a PROPPATCH whose body is one DAV:set or one DAV:remove is answered with one response,
    for the request path, that carries one status per property of that instruction, in order:
    200 exactly for the properties whose handler's set_value ran and returned (expected_status
    of apply_modify_prop: 404 unknown / unsupported, 409 protected).  Bodies with several
    instructions are outside this contract (bounded explorer only)."""

    def requires(self, request, app):
        return app.backend.path != "" and len(xml_body(request)) == 1

    def ensures_missing(self, request, result):
        return implies(target(request) is None,
                       len(result) == 1 and result[0].status == "404 Not Found" and result[0].href == request.path)

    def ensures(self, request, app, result):
        t = target(request)
        ins = xml_body(request)[0]
        ok = t is not None and (ins.tag == "{DAV:}set" or ins.tag == "{DAV:}remove")
        return implies(ok,
                       len(result) == 1 and result[0].href == request.path and result[0].propstat is not None
                       and len(result[0].propstat) == len(ins[0])
                       and forall("int", lambda j: implies(
                           0 <= j and j < len(ins[0]),
                           result[0].propstat[j][0] == expected_status(app.properties, t, ins[0][j], ins.tag == "{DAV:}remove"))))

    def inv_0(self, request, app, propstat, _i, _seq, _yielded):
        t = target(request)
        ins = xml_body(request)[0]
        ok = ins.tag == "{DAV:}set" or ins.tag == "{DAV:}remove"
        return (len(_yielded) == 0 and len(_seq) == 1 and _seq[0] == ins
                and (len(propstat) == 0 if (_i == 0 or not ok)
                     else (len(propstat) == len(ins[0])
                           and forall("int", lambda j: implies(
                               0 <= j and j < len(ins[0]),
                               propstat[j][0] == expected_status(app.properties, t, ins[0][j], ins.tag == "{DAV:}remove"))))))


# ---------------------------------------------------------------------------- REPORT dispatch (C07 / C11 / C12 / C17)
opaque("Reporter")
opaque("ReporterRegistry")
opaque("Resolver")
ghost("reporter_for", ["opaque:ReporterRegistry", "str"], "opt[opaque:Reporter]")
ghost("reporter_supported", ["opaque:Reporter", "opaque:Resource"], "bool")
ghost("report_fails_precondition", ["opaque:Reporter", "opaque:Element", "opaque:Resource"], "bool")


@contract("iface:ReporterRegistry.__getitem__", params={"self": "opaque:ReporterRegistry", "key": "str"}, returns="opaque:Reporter",
          assumed=True)
class ReporterRegistry_getitem:
    def raises_KeyError(self, key):
        return reporter_for(self, key) is None

    def ensures(self, key, result):
        return result == reporter_for(self, key)


@contract("iface:Reporter.supported_on", params={"self": "opaque:Reporter", "resource": "opaque:Resource"}, returns="bool", assumed=True)
class Reporter_supported_on:
    def ensures(self, resource, result):
        return result == reporter_supported(self, resource)


@contract("iface:Reporter.report",
          params={"self": "opaque:Reporter", "environ": "dict[str,str]", "body": "opaque:Element", "resources_by_hrefs": "opaque:Resolver",
                  "properties": "opaque:Registry", "base_href": "str", "resource": "opaque:Resource", "depth": "str", "strict": "bool"},
          returns="obj:xandikos.webdav.Response", may_raise=["BadRequestError"],
          effects=[["report", "self", "body", "base_href", "resource", "depth"]], assumed=True)
class Reporter_report:
    def raises_PreconditionFailure(self, body, resource):
        return report_fails_precondition(self, body, resource)


@contract("xandikos.webdav.ReportMethod.handle",
          params={"self": "obj:xandikos.webdav.ReportMethod", "request": "opaque:Request", "environ": "dict[str,str]",
                  "app": "obj:xandikos.webdav.WebDAVApp"},
          returns="obj:xandikos.webdav.Response",
          may_raise=["ValueError", "KeyError", "AssertionError", "BadRequestError", "UnsupportedMediaType"])
class Report_handle_c:
    """A REPORT is answered by the reporter registered under the body's root tag - asked once, about
    the addressed resource, with the request path as base href and the request's Depth (default 0)
    - and by nobody else; an unknown or inapplicable report is refused (403 inside a multistatus)
    without running anything; a reporter's precondition failure (e.g. an invalid sync token, C07)
    is answered 412, never with a successful body."""

    def requires(self, request, app):
        return app.backend.path != ""

    def ensures(self, request, app, result):
        t = target(request)
        body = xml_body(request)
        rep = reporter_for(app.reporters, body.tag)
        usable = t is not None and rep is not None and reporter_supported(rep, t)
        d = header(request.headers, "Depth")
        return (implies(t is None, result.status == 404 and effect_names() == [])
                and implies(t is not None and not usable,
                            result.status == 207 and result.ghost_inner == "403 Forbidden" and effect_names() == ["read_body"])
                and implies(usable,
                            effect_names() == ["read_body", "report"]
                            and effect_arg(1, 1) == rep and effect_arg(1, 2) == body and effect_arg(1, 3) == request.path
                            and effect_arg(1, 4) == t and effect_arg(1, 5) == (d if d is not None else "0")
                            and implies(report_fails_precondition(rep, body, t),
                                        result.status == 207 and result.ghost_inner == "412 Precondition Failed")))


# ---------------------------------------------------------------------------- multiget driver (C17)
ghost("resolved", ["opaque:Resolver", "list[opt[str]]"], "list[tuple[opt[str],opt[opaque:Resource]]]")
ghost("data_props", ["opaque:PropHandler", "opt[str]", "opaque:Resource", "opaque:Registry", "opaque:Element"],
      "list[tuple[str,opt[str],opaque:XmlOut]]")
fields("xandikos.davcommon.MultiGetReporter", {"data_property": "opaque:PropHandler"})


def opt_str(h):
    """str(h) as Status.__init__ computes it for the href the resolver names."""
    return "None" if h is None else h


def href_of(el):
    """What read_href_element answers for an element (its contract, as a term)."""
    return None if el.text is None else urllib.parse.unquote(urllib.parse.urlsplit(el.text).path)


@contract("iface:Resolver.__call__", params={"self": "opaque:Resolver", "hrefs": "list[opt[str]]"},
          returns="list[tuple[opt[str],opt[opaque:Resource]]]", may_raise=["ValueError", "KeyError", "AssertionError"],
          effects=[["resolve", "self", "hrefs"]], assumed=True)
class Resolver_call:
    """functools.partial(_get_resources_by_hrefs, backend, environ) (contract in webdav_hrefs.py)."""

    def ensures(self, hrefs, result):
        return result == resolved(self, hrefs)


@contract("xandikos.davcommon.get_properties_with_data",
          params={"data_property": "opaque:PropHandler", "href": "opt[str]", "resource": "opaque:Resource",
                  "properties": "opaque:Registry", "environ": "dict[str,str]", "requested": "opaque:Element"},
          returns="list[tuple[str,opt[str],opaque:XmlOut]]", assumed=True)
class get_properties_with_data_c:
    """Not verified (copies the registry): get_properties over the registry extended by the data
    property; named."""

    def ensures(data_property, href, resource, properties, requested, result):
        return result == data_props(data_property, href, resource, properties, requested)


@contract("xandikos.davcommon.MultiGetReporter.report",
          params={"self": "obj:xandikos.davcommon.MultiGetReporter", "environ": "dict[str,str]", "body": "opaque:Element",
                  "resources_by_hrefs": "opaque:Resolver", "properties": "opaque:Registry", "base_href": "str",
                  "resource": "opaque:Resource", "depth": "str", "strict": "bool"},
          returns="list[struct:xandikos.webdav.Status]", yields="struct:xandikos.webdav.Status",
          locals={"requested": "opt[opaque:Element]", "hrefs": "list[opt[str]]"}, loop_modifies={0: ["hrefs"]},
          may_raise=["ValueError", "KeyError", "AssertionError", "BadRequestError"])
class MultiGet_report_c:
    """C17, the driver above the resolver: for a request of the usual shape (the property request
    first, then the hrefs) the resolver is asked once, with exactly the requested hrefs in order,
    and every answer it gives becomes exactly one response: under the href the resolver names,
    404 when there is no resource, else 200 with the properties of *that* resource."""

    def requires(self, body):
        return (len(body) >= 1 and body[0].tag == "{DAV:}prop"
                and forall("int", lambda j: implies(1 <= j and j < len(body), body[j].tag == "{DAV:}href")))

    def ensures_asks_once(self, body, resources_by_hrefs):
        hs = effect_arg(0, 2)
        return (effect_names() == ["resolve"] and effect_arg(0, 1) == resources_by_hrefs
                and len(hs) == len(body) - 1
                and forall("int", lambda j: implies(0 <= j and j < len(hs), hs[j] == href_of(body[1 + j]))))

    def ensures_one_response_per_answer(self, body, resources_by_hrefs, properties, result):
        R = resolved(resources_by_hrefs, effect_arg(0, 2))
        return (len(result) == len(R)
                and forall("int", lambda j: implies(
                    0 <= j and j < len(R),
                    result[j].href == opt_str(R[j][0])
                    and (result[j].status == ("404 Not Found" if R[j][1] is None else "200 OK"))
                    and implies(R[j][1] is not None,
                                result[j].propstat == data_props(self.data_property, R[j][0], R[j][1], properties, body[0])))))

    def inv_0(self, body, requested, hrefs, _i, _seq, _yielded):
        return (len(_yielded) == 0 and len(_seq) == len(body)
                and forall("int", lambda j: implies(0 <= j and j < len(_seq), _seq[j] == body[j]))
                and implies(_i == 0, requested is None) and implies(_i > 0, requested is not None and requested == body[0])
                and len(hrefs) == (0 if _i == 0 else _i - 1)
                and forall("int", lambda j: implies(0 <= j and j < len(hrefs), hrefs[j] == href_of(body[1 + j]))))

    def inv_1(self, body, resources_by_hrefs, properties, hrefs, _i, _seq, _yielded):
        return (_seq == resolved(resources_by_hrefs, hrefs) and len(_yielded) == _i
                and forall("int", lambda j: implies(
                    0 <= j and j < _i,
                    _yielded[j].href == opt_str(_seq[j][0])
                    and (_yielded[j].status == ("404 Not Found" if _seq[j][1] is None else "200 OK"))
                    and implies(_seq[j][1] is not None,
                                _yielded[j].propstat == data_props(self.data_property, _seq[j][0], _seq[j][1], properties, body[0])))))
