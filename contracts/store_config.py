"""C15: collection metadata in the versioned .xandikos file (FileBasedCollectionMetadata):
what is set is what is read back (raw, no interpolation), every setter saves exactly once."""

fields("xandikos.store.config.FileBasedCollectionMetadata", {
    "_configparser": "obj:configparser.ConfigParser", "_save_cb": "opaque:SaveCallback",
})
opaque("SaveCallback", truthy="true")


@contract("iface:SaveCallback.__call__", params={"self": "opaque:SaveCallback", "cp": "obj:configparser.ConfigParser",
                                                  "message": "str"},
          effects=[["save", "cp"]], assumed=True)
class SaveCallback_call:
    """Persists the parser (GitStore.config: write + _import_one of .xandikos; vdir: file write)."""


def raw_cfg(self, section, option):
    return cp_raw(self._configparser, section, option)


def setter_post(self, section, option, value):
    return (cp_data(self._configparser) == (old(cp_data(self._configparser)).put(cp_key(section, option), value)
                                             if value is not None
                                             else old(cp_data(self._configparser)).without(cp_key(section, option)))
            and effect_names() == ["save"] and effect_arg(0, 1) == self._configparser)


def no_interp(self):
    return not cp_interpolating(self._configparser)


@contract("xandikos.store.config.FileBasedCollectionMetadata.set_displayname",
          params={"self": "obj:xandikos.store.config.FileBasedCollectionMetadata", "displayname": "opt[str]"},
          modifies=["self._configparser"], may_raise=["KeyError"],
          effects=[["metadata_write", "self"]])
class set_displayname_c:
    def requires(self):
        return no_interp(self)

    def ensures(self, displayname):
        return setter_post(self, "DEFAULT", "displayname", displayname)


@contract("xandikos.store.config.FileBasedCollectionMetadata.get_displayname",
          params={"self": "obj:xandikos.store.config.FileBasedCollectionMetadata"}, returns="str")
class get_displayname_c:
    def requires(self):
        return no_interp(self)

    def raises_KeyError(self):
        return raw_cfg(self, "DEFAULT", "displayname") is None

    def ensures(self, result):
        return result == raw_cfg(self, "DEFAULT", "displayname") and effect_names() == []


@contract("xandikos.store.config.FileBasedCollectionMetadata.set_description",
          params={"self": "obj:xandikos.store.config.FileBasedCollectionMetadata", "description": "opt[str]"},
          modifies=["self._configparser"], may_raise=["KeyError"],
          effects=[["metadata_write", "self"]])
class set_description_c:
    def requires(self):
        return no_interp(self)

    def ensures(self, description):
        return setter_post(self, "DEFAULT", "description", description)


@contract("xandikos.store.config.FileBasedCollectionMetadata.get_description",
          params={"self": "obj:xandikos.store.config.FileBasedCollectionMetadata"}, returns="str")
class get_description_c:
    def requires(self):
        return no_interp(self)

    def raises_KeyError(self):
        return raw_cfg(self, "DEFAULT", "description") is None

    def ensures(self, result):
        return result == raw_cfg(self, "DEFAULT", "description") and effect_names() == []


@contract("xandikos.store.config.FileBasedCollectionMetadata.set_color",
          params={"self": "obj:xandikos.store.config.FileBasedCollectionMetadata", "color": "opt[str]"},
          modifies=["self._configparser"], may_raise=["KeyError"],
          effects=[["metadata_write", "self"]])
class set_color_c:
    def requires(self):
        return no_interp(self)

    def ensures(self, color):
        return setter_post(self, "DEFAULT", "color", color)


@contract("xandikos.store.config.FileBasedCollectionMetadata.get_color",
          params={"self": "obj:xandikos.store.config.FileBasedCollectionMetadata"}, returns="str")
class get_color_c:
    def requires(self):
        return no_interp(self)

    def raises_KeyError(self):
        return raw_cfg(self, "DEFAULT", "color") is None

    def ensures(self, result):
        return result == raw_cfg(self, "DEFAULT", "color") and effect_names() == []


@contract("xandikos.store.config.FileBasedCollectionMetadata.set_comment",
          params={"self": "obj:xandikos.store.config.FileBasedCollectionMetadata", "comment": "opt[str]"},
          modifies=["self._configparser"], may_raise=["KeyError"],
          effects=[["metadata_write", "self"]])
class set_comment_c:
    def requires(self):
        return no_interp(self)

    def ensures(self, comment):
        return setter_post(self, "DEFAULT", "comment", comment)


@contract("xandikos.store.config.FileBasedCollectionMetadata.get_comment",
          params={"self": "obj:xandikos.store.config.FileBasedCollectionMetadata"}, returns="str")
class get_comment_c:
    def requires(self):
        return no_interp(self)

    def raises_KeyError(self):
        return raw_cfg(self, "DEFAULT", "comment") is None

    def ensures(self, result):
        return result == raw_cfg(self, "DEFAULT", "comment") and effect_names() == []


@contract("xandikos.store.config.FileBasedCollectionMetadata.set_source_url",
          params={"self": "obj:xandikos.store.config.FileBasedCollectionMetadata", "url": "opt[str]"},
          modifies=["self._configparser"], may_raise=["KeyError"],
          effects=[["metadata_write", "self"]])
class set_source_url_c:
    def requires(self):
        return no_interp(self)

    def ensures(self, url):
        return setter_post(self, "DEFAULT", "source", url)


@contract("xandikos.store.config.FileBasedCollectionMetadata.get_source_url",
          params={"self": "obj:xandikos.store.config.FileBasedCollectionMetadata"}, returns="str")
class get_source_url_c:
    def requires(self):
        return no_interp(self)

    def raises_KeyError(self):
        return raw_cfg(self, "DEFAULT", "source") is None

    def ensures(self, result):
        return result == raw_cfg(self, "DEFAULT", "source") and effect_names() == []


@contract("xandikos.store.config.FileBasedCollectionMetadata.set_order",
          params={"self": "obj:xandikos.store.config.FileBasedCollectionMetadata", "order": "opt[str]"},
          modifies=["self._configparser"], modifies_on_raise=["self._configparser"], may_raise=["KeyError"],
          effects=[["metadata_write", "self"]])
class set_order_c:  # (modifies_on_raise below)
    def requires(self):
        return no_interp(self)

    def ensures(self, order):
        return setter_post(self, "calendar", "order", order)


@contract("xandikos.store.config.FileBasedCollectionMetadata.get_order",
          params={"self": "obj:xandikos.store.config.FileBasedCollectionMetadata"}, returns="str",
          may_raise=["KeyError"])
class get_order_c:
    def requires(self):
        return no_interp(self)

    def ensures(self, result):
        return result == raw_cfg(self, "calendar", "order") and effect_names() == []


def cfg_ok(store):
    """Repository integrity for the metadata entry: the tree's .xandikos entry names an object
    that exists (and is text); established by every write of it (import_one adds the blob)."""
    return store.ghost_cfg is None or (is_ascii(store.ghost_cfg)
                                       and in_store(store.repo.object_store, store.ghost_cfg.encode("ascii")))


def stored_cfg(store):
    """The options of the collection's versioned .xandikos file."""
    return (empty("dict[str,str]") if store.ghost_cfg is None
            else cfg_parse(blob_bytes(store.ghost_cfg.encode("ascii")).decode("utf-8")))


@contract("xandikos.store.git.GitStore.config", params={"self": "obj:xandikos.store.git.GitStore"},
          returns="oneof:xandikos.store.git.RepoCollectionMetadata|xandikos.store.config.FileBasedCollectionMetadata",
          may_raise=["KeyError"])
class GitStore_config_c:
    """C15: the metadata object is rebuilt from the repository on every access (so a restart
    changes nothing), and the parser it uses returns values as written (no interpolation)."""

    def requires(self):
        return cfg_ok(self)

    def ensures(self, result):
        return (not cp_interpolating(result._configparser)
                if is_instance(result, "xandikos.store.config.FileBasedCollectionMetadata") else True)

    def ensures_which(self, result):
        # the git-config form is used exactly when the repository has a [xandikos] section
        return (is_instance(result, "xandikos.store.git.RepoCollectionMetadata") == repo_has_meta(self.repo)
                and is_instance(result, "xandikos.store.config.FileBasedCollectionMetadata") == (not repo_has_meta(self.repo))
                and (result._repo == self.repo if is_instance(result, "xandikos.store.git.RepoCollectionMetadata") else True))

    def ensures_contents(self, result):
        # ... and otherwise the parser holds exactly what the stored .xandikos file says
        # (nothing when there is none): what was saved is what every later access reads
        return (cp_data(result._configparser) == stored_cfg(self)
                if is_instance(result, "xandikos.store.config.FileBasedCollectionMetadata") else True)


@contract("xandikos.store.git.GitStore.config.<locals>.save_config",
          params={"self": "obj:xandikos.store.git.GitStore", "cp": "obj:configparser.ConfigParser", "message": "str"},
          modifies=["self.ghost_cfg"], may_raise=["LockedError"])
class GitStore_save_config_c:
    """C15, the persist step of the versioned metadata file: the callback GitStore.config hands
    to FileBasedCollectionMetadata stores the parser's options as the collection's `.xandikos`
    entry - the next `config` access (contract above: it holds stored_cfg) reads exactly them -
    and changes no member.  With the setters' contracts (parser updated, callback called once
    with that parser) this is the file form of "what is set is what is read back, also after a
    restart"; the configparser write/read round trip is the ASSUMED link (false for values with
    a line feed: the recorded finding)."""

    def ensures(self, cp):
        return (stored_cfg(self) == cp_data(cp) and cfg_ok(self)
                and self.ghost_M == old(self.ghost_M))
