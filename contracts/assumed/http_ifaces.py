"""ASSUMED: the request object both front ends hand to the method handlers (aiohttp request /
WSGIRequest), and the abstract Resource interface the handlers are written against.
The concrete resources in xandikos.web are verified against contracts of the same shape
(contracts/web_resources.py)."""

opaque("Request", attrs={"headers": "opaque:Headers", "content_type": "str", "path": "str", "url": "str",
                         "match_info": "opaque:MatchInfo", "raw_path": "str", "can_read_body": "bool",
                         "content": "opaque:Content", "method": "str"})
opaque("Headers")
opaque("MatchInfo")
opaque("Content")
ghost("header", ["opaque:Headers", "str"], "opt[str]")
ghost("path_info", ["opaque:MatchInfo"], "str")
ghost("body_of", ["opaque:Content"], "bytes")


@contract("iface:Headers.get", params={"self": "opaque:Headers", "name": "str", "default": "opt[str]"},
          defaults={"default": None}, returns="opt[str]", assumed=True)
class Headers_get:
    def ensures(self, name, default, result):
        return result == (header(self, name) if header(self, name) is not None else default)


@contract("iface:MatchInfo.__getitem__", params={"self": "opaque:MatchInfo", "key": "str"}, returns="str", assumed=True)
class MatchInfo_getitem:
    def requires(self, key):
        return key == "path_info"

    def ensures(self, result):
        return result == path_info(self)


@contract("iface:Content.read", params={"self": "opaque:Content"}, returns="bytes", assumed=True)
class Content_read:
    def ensures(self, result):
        return result == body_of(self)


# ---- abstract Resource (webdav.Resource / webdav.Collection)
ghost("res_etag", ["opaque:Resource"], "str")
ghost("sb_outcome", ["opaque:Resource", "opaque:Chunks", "opt[str]"], "int")   # 0 ok 1 precondition 2 locked 3 not implemented
ghost("sb_etag", ["opaque:Resource", "opaque:Chunks", "opt[str]"], "str")
ghost("cm_outcome", ["opaque:Resource", "opt[str]", "opaque:Chunks", "str"], "int")  # 0 ok 1 precondition 2 locked 3 storage
ghost("cm_name", ["opaque:Resource", "opt[str]", "opaque:Chunks", "str"], "str")
ghost("cm_etag", ["opaque:Resource", "opt[str]", "opaque:Chunks", "str"], "str")


@contract("iface:Resource.get_etag", params={"self": "opaque:Resource"}, returns="str", assumed=True)
class Resource_get_etag:
    def ensures(self, result):
        return result == res_etag(self)


@contract("iface:Resource.set_body", params={"self": "opaque:Resource", "data": "opaque:Chunks", "replace_etag": "opt[str]"},
          defaults={"replace_etag": None}, returns="str", effects=[["set_body", "self", "data", "replace_etag"]],
          assumed=True)
class Resource_set_body:
    def raises_PreconditionFailure(self, data, replace_etag):
        return sb_outcome(self, data, replace_etag) == 1

    def raises_ResourceLocked(self, data, replace_etag):
        return sb_outcome(self, data, replace_etag) == 2

    def raises_NotImplementedError(self, data, replace_etag):
        return sb_outcome(self, data, replace_etag) == 3

    def ensures(self, data, replace_etag, result):
        return result == sb_etag(self, data, replace_etag)


@contract("iface:Resource.create_member", params={"self": "opaque:Resource", "name": "opt[str]",
                                                   "contents": "opaque:Chunks", "content_type": "str"},
          returns="tuple[str,str]", effects=[["create_member", "self", "name", "contents", "content_type"]], assumed=True)
class Resource_create_member:
    def requires(self, name):
        # C13: a member name is one path segment - the stores join it onto the collection's
        # directory (StoreBasedCollection.create_member -> import_one -> os.path.join)
        return name is None or "/" not in name

    def raises_PreconditionFailure(self, name, contents, content_type):
        return cm_outcome(self, name, contents, content_type) == 1

    def raises_ResourceLocked(self, name, contents, content_type):
        return cm_outcome(self, name, contents, content_type) == 2

    def raises_InsufficientStorage(self, name, contents, content_type):
        return cm_outcome(self, name, contents, content_type) == 3

    def ensures(self, name, contents, content_type, result):
        return (result[0] == cm_name(self, name, contents, content_type)
                and result[1] == cm_etag(self, name, contents, content_type))


@contract("iface:Resource.delete_member", params={"self": "opaque:Resource", "name": "str", "etag": "opt[str]"},
          defaults={"etag": None}, effects=[["delete_member", "self", "name", "etag"]], assumed=True)
class Resource_delete_member:
    def requires(self, name):
        return "/" not in name
