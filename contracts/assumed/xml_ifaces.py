"""ASSUMED: received XML elements (request bodies parsed by defusedxml): tag, text,
attributes via .get(name[, default]), children by iteration / len / index."""

opaque("Element", attrs={"tag": "str", "text": "opt[str]"}, iter="opaque:Element", truthy="len")
ghost("xml_attr", ["opaque:Element", "str"], "opt[str]")


@contract("iface:Element.get", params={"self": "opaque:Element", "name": "str", "default": "opt[str]"},
          defaults={"default": None}, returns="opt[str]", assumed=True)
class Element_get:
    def ensures(self, name, default, result):
        return result == (xml_attr(self, name) if xml_attr(self, name) is not None else default)
