"""ASSUMED interfaces used by the store functions: dulwich object store (read side),
File handlers.  Ghost functions name the abstract content."""

opaque("Repo", attrs={"object_store": "opaque:ObjectStore", "path": "str"})
opaque("ObjectStore")
opaque("Blob", attrs={"chunked": "opaque:Chunks"})
opaque("Chunks")
opaque("Handlers")
opaque("File", attrs={"content": "opaque:Chunks", "content_type": "str"})

ghost("blob_of", ["bytes"], "opaque:Blob")
ghost("in_store", ["opaque:ObjectStore", "bytes"], "bool")
ghost("file_of", ["opaque:Chunks", "str", "opaque:Handlers"], "opaque:File")
ghost("uid_outcome", ["opaque:File"], "int")     # 0 ok, 1 KeyError, 2 InvalidFileContents, 3 NotImplementedError
ghost("uid_val", ["opaque:File"], "str")


@contract("iface:ObjectStore.__getitem__", params={"self": "opaque:ObjectStore", "sha": "bytes"},
          returns="opaque:Blob", assumed=True)
class ObjectStore_getitem:
    def raises_KeyError(self, sha):
        return not in_store(self, sha)

    def ensures(self, sha, result):
        # content addressing: the object stored under an id is the one whose bytes hash to it
        # (blob_bytes = the inverse of the blob hash, as in the concrete repository model)
        return result == blob_of(sha) and b"".join(result.chunked) == blob_bytes(sha)


@contract("iface:File.get_uid", params={"self": "opaque:File"}, returns="str", assumed=True)
class File_get_uid:
    def raises_KeyError(self):
        return uid_outcome(self) == 1

    def raises_InvalidFileContents(self):
        return uid_outcome(self) == 2

    def raises_NotImplementedError(self):
        return uid_outcome(self) == 3

    def ensures(self, result):
        return result == uid_val(self)


# ---- File interface (xandikos.store.File and its subclasses), abstractly
ghost("file_by_ct", ["opaque:Chunks", "str", "opaque:Handlers"], "opaque:File")
ghost("valid_file", ["opaque:File"], "bool")
ghost("normalized_of", ["opaque:File"], "opaque:Chunks")
# blob_id(chunks) = BHb(b"".join(chunks)) is defined by the dulwich model (pyvc/models/dulwichmodels.py)
ghost("same_handler", ["str", "str", "opaque:Handlers"], "bool")   # extension of name and content type select the same File class


@contract("iface:File.validate", params={"self": "opaque:File"}, assumed=True)
class File_validate:
    def raises_InvalidFileContents(self):
        return not valid_file(self)


@contract("iface:File.normalized", params={"self": "opaque:File"}, returns="opaque:Chunks", assumed=True)
class File_normalized:
    def ensures(self, result):
        return result == normalized_of(self)


@contract("iface:File.describe_delta", params={"self": "opaque:File", "name": "str", "previous": "opt[opaque:File]"},
          returns="list[str]", assumed=True)
class File_describe_delta:
    pass


@contract("iface:File.describe", params={"self": "opaque:File", "name": "str"}, returns="str", assumed=True)
class File_describe:
    pass
