"""ASSUMED interfaces used by the store functions: dulwich object store (read side),
File handlers.  Ghost functions name the abstract content."""

opaque("Repo", attrs={"object_store": "opaque:ObjectStore", "path": "str"})
opaque("ObjectStore")
opaque("Blob", attrs={"chunked": "opaque:Chunks"})
opaque("Chunks")
opaque("Handlers")
opaque("File", attrs={"content": "opaque:Chunks", "content_type": "str"})

ghost("blob_of", ["bytes"], "opaque:Blob")
ghost("in_store", ["opaque:ObjectStore", "bytes"], "bool")
ghost("file_of", ["opaque:Chunks", "str", "opaque:Handlers"], "opaque:File")
ghost("uid_outcome", ["opaque:File"], "int")     # 0 ok, 1 KeyError, 2 InvalidFileContents, 3 NotImplementedError
ghost("uid_val", ["opaque:File"], "str")


@contract("iface:ObjectStore.__getitem__", params={"self": "opaque:ObjectStore", "sha": "bytes"},
          returns="opaque:Blob", assumed=True)
class ObjectStore_getitem:
    def raises_KeyError(self, sha):
        return not in_store(self, sha)

    def ensures(self, sha, result):
        return result == blob_of(sha)


@contract("iface:File.get_uid", params={"self": "opaque:File"}, returns="str", assumed=True)
class File_get_uid:
    def requires(self):
        return uid_outcome(self) >= 0 and uid_outcome(self) <= 3

    def raises_KeyError(self):
        return uid_outcome(self) == 1

    def raises_InvalidFileContents(self):
        return uid_outcome(self) == 2

    def raises_NotImplementedError(self):
        return uid_outcome(self) == 3

    def ensures(self, result):
        return result == uid_val(self)
