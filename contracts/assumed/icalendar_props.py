"""ASSUMED: the property-source protocol the time-range functions are written against.

The same functions are called with an icalendar.Component (by `match`) and with a plain
dict of vDDDTypes (by `match_indexes`); both offer `.get(name[, default])`.

Assumptions (DESIGN 6/C11; conformance: bounded/conf_icalendar.py):
  * a present date / duration property object is truthy;
  * `prop.dt` of a date-time/date property is mapped by `tzify` to an integer time stamp
    (time-zone-aware datetimes are totally ordered);
  * `prop.dt` of a DURATION is a timedelta, modelled as a non-negative number of seconds;
  * `getattr(dt, "time", None) is not None`  <=>  the value is a DATE-TIME (not a DATE);
  * timedelta(1) is 86400 seconds.
"""

opaque("PropSource", attrs={"name": "str"}, truthy="true")
opaque("Prop", attrs={"dt": "opaque:DT"}, truthy="true")
opaque("DT", attrs={"time": "opt[opaque:Method]", "tzinfo": "opt[opaque:TZ]"}, as_int="seconds", nonneg=True)
opaque("Method", truthy="true")
opaque("TZ", truthy="true")
opaque("TimeV", attrs={"tzinfo": "opt[opaque:TZ]"})
opaque("Tzify")
ghost("prop_of", ["opaque:PropSource", "str"], "opt[opaque:Prop]")
ghost("ts_of", ["opaque:DT"], "int")


@contract("iface:PropSource.get", params={"self": "opaque:PropSource", "name": "str", "default": "none"},
          defaults={"default": None}, returns="opt[opaque:Prop]", assumed=True)
class PropSource_get:
    def ensures(self, name, result):
        return result == prop_of(self, name)


@contract("iface:Tzify.__call__", params={"self": "opaque:Tzify", "dt": "opaque:DT"}, returns="int", assumed=True)
class Tzify_call:
    def ensures(self, dt, result):
        return result == ts_of(dt)


# ---------------------------------------------------------------------------- datetime (ASSUMED)
# date / datetime values are abstract; what the standard library guarantees about the three
# operations as_tz_aware_ts uses is stated through three ghost functions.
ghost("time_value", ["opt[opaque:TZ]"], "opaque:TimeV")          # datetime.time(tzinfo=z): 00:00 in z (naive for None)
ghost("combine_of", ["opaque:DT", "opaque:TimeV"], "opaque:DT")   # datetime.combine(d, t)
ghost("with_tz", ["opaque:DT", "opt[opaque:TZ]"], "opaque:DT")    # dt.replace(tzinfo=z)


@contract("ext:datetime.time", params={"tzinfo": "opt[opaque:TZ]"}, defaults={"tzinfo": None},
          returns="opaque:TimeV", assumed=True)
class datetime_time:
    def ensures(tzinfo, result):
        return result == time_value(tzinfo) and result.tzinfo == tzinfo


@contract("ext:datetime.datetime.combine", params={"date": "opaque:DT", "time": "opaque:TimeV"},
          returns="opaque:DT", assumed=True)
class datetime_combine:
    def ensures(date, time, result):
        return result == combine_of(date, time) and result.time is not None and result.tzinfo == time.tzinfo


@contract("iface:DT.replace", params={"self": "opaque:DT", "tzinfo": "opt[opaque:TZ]"}, returns="opaque:DT", assumed=True)
class DT_replace:
    def ensures(self, tzinfo, result):
        return (result == with_tz(self, tzinfo) and result.tzinfo == tzinfo
                and (result.time is None) == (self.time is None))


# ---------------------------------------------------------------------------- FREEBUSY periods
opaque("Period", attrs={"start": "int", "end": "int"})
ghost("periods_of", ["opaque:PropSource"], "list[opaque:Period]")


@contract("iface:PropSource.get", variant="periods",
          params={"self": "opaque:PropSource", "name": "str", "default": "list[opaque:Period]"},
          returns="list[opaque:Period]", assumed=True)
class PropSource_get_periods:
    """comp.get("FREEBUSY", []): the periods of the component's FREEBUSY property (already
    time-zone aware instants), or the default when there is none."""

    def requires(self, name):
        return name == "FREEBUSY"

    def ensures(self, name, default, result):
        return result == (periods_of(self) if prop_of(self, name) is not None else default)
