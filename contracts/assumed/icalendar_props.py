"""ASSUMED: the property-source protocol the time-range functions are written against.

The same functions are called with an icalendar.Component (by `match`) and with a plain
dict of vDDDTypes (by `match_indexes`); both offer `.get(name[, default])`.

Assumptions (DESIGN 6/C11; conformance: bounded/conf_icalendar.py):
  * a present date / duration property object is truthy;
  * `prop.dt` of a date-time/date property is mapped by `tzify` to an integer time stamp
    (time-zone-aware datetimes are totally ordered);
  * `prop.dt` of a DURATION is a timedelta, modelled as a non-negative number of seconds;
  * `getattr(dt, "time", None) is not None`  <=>  the value is a DATE-TIME (not a DATE);
  * timedelta(1) is 86400 seconds.
"""

opaque("PropSource", truthy="true")
opaque("Prop", attrs={"dt": "opaque:DT"}, truthy="true")
opaque("DT", attrs={"time": "opt[int]"}, as_int="seconds", nonneg=True)
opaque("Tzify")
ghost("prop_of", ["opaque:PropSource", "str"], "opt[opaque:Prop]")
ghost("ts_of", ["opaque:DT"], "int")


@contract("iface:PropSource.get", params={"self": "opaque:PropSource", "name": "str", "default": "none"},
          defaults={"default": None}, returns="opt[opaque:Prop]", assumed=True)
class PropSource_get:
    def ensures(self, name, result):
        return result == prop_of(self, name)


@contract("iface:Tzify.__call__", params={"self": "opaque:Tzify", "dt": "opaque:DT"}, returns="int", assumed=True)
class Tzify_call:
    def ensures(self, dt, result):
        return result == ts_of(dt)
