"""C07, the driver above the change list: SyncCollectionReporter.report.

For a request of the usual shape - sync-token, sync-level, prop, in this order, no limit (the
property's quantifier excludes DAV:limit) - the collection is asked once for the differences
between the presented token and its *current* token; every difference becomes exactly one
response, in order, under the collection's href followed by the member's name: 404 for a
member that no longer exists, otherwise a propstat response; the last element is the current
token; a token the collection does not know is a precondition failure (answered 412 by
ReportMethod.handle), never a successful list; a sync-level other than 1 is a bad request."""

fields("xandikos.sync.SyncToken", {"token": "str"})
fields("xandikos.sync.InvalidToken", {"token": "opt[str]"})
ghost("res_sync_token", ["opaque:Resource"], "str")
ghost("res_diffs", ["opaque:Resource", "opt[str]", "str"], "list[tuple[str,opt[opaque:Resource],opt[opaque:Resource]]]")
ghost("res_token_unknown", ["opaque:Resource", "opt[str]", "str"], "bool")


@contract("iface:Resource.get_sync_token", params={"self": "opaque:Resource"}, returns="str", assumed=True)
class Resource_get_sync_token:
    def ensures(self, result):
        return result == res_sync_token(self)


@contract("iface:Resource.iter_differences_since", params={"self": "opaque:Resource", "old_token": "opt[str]", "new_token": "str"},
          returns="list[tuple[str,opt[opaque:Resource],opt[opaque:Resource]]]",
          effects=[["iter_differences_since", "self", "old_token", "new_token"]], assumed=True)
class Resource_iter_differences_since:
    """StoreBasedCollection.iter_differences_since (contracts/web_resources.py): exactly the members
    whose etag differs between the two token states; an unknown token is InvalidToken."""

    def raises_InvalidToken(self, old_token, new_token):
        return res_token_unknown(self, old_token, new_token)

    def ensures(self, old_token, new_token, result):
        return result == res_diffs(self, old_token, new_token)


def usual_shape(body):
    return (len(body) == 3 and body[0].tag == "{DAV:}sync-token" and body[1].tag == "{DAV:}sync-level"
            and body[2].tag == "{DAV:}prop")


def created_props(ps, properties, res, prop_el):
    return (len(ps) == len(prop_el)
            and forall("int", lambda i: implies(0 <= i and i < len(prop_el),
                                                ps[i][0] == get_status(properties, res, prop_el[i].tag)
                                                and ps[i][2].tag == prop_el[i].tag)))


RESP = "union[struct:xandikos.webdav.Status|struct:xandikos.sync.SyncToken]"


@contract("xandikos.sync.SyncCollectionReporter.report",
          params={"self": "obj:xandikos.sync.SyncCollectionReporter", "environ": "dict[str,str]", "request_body": "opaque:Element",
                  "resources_by_hrefs": "opaque:Resolver", "properties": "opaque:Registry", "href": "str",
                  "resource": "opaque:Resource", "depth": "str", "strict": "bool"},
          returns="list[union[struct:xandikos.webdav.Status|struct:xandikos.sync.SyncToken]]",
          yields="union[struct:xandikos.webdav.Status|struct:xandikos.sync.SyncToken]",
          locals={"old_token": "opt[str]", "sync_level": "opt[str]", "limit": "opt[str]", "requested": "opt[list[opaque:Element]]",
                  "propstat": "list[tuple[str,opt[str],opaque:XmlOut]]"},
          loop_modifies={2: ["propstat"]},
          may_raise=["BadRequestError"])
class Sync_report_c:
    def requires(self, request_body):
        return usual_shape(request_body)

    def raises_BadRequestError(self, request_body):
        return request_body[1].text != "1"

    def raises_PreconditionFailure(self, request_body, resource):
        return (request_body[1].text == "1"
                and res_token_unknown(resource, request_body[0].text, res_sync_token(resource)))

    def ensures_asks_once(self, request_body, resource):
        return (effect_names() == ["iter_differences_since"] and effect_arg(0, 1) == resource
                and effect_arg(0, 2) == request_body[0].text and effect_arg(0, 3) == res_sync_token(resource))

    def ensures_one_response_per_difference(self, request_body, resource, href, properties, result):
        new = res_sync_token(resource)
        D = res_diffs(resource, request_body[0].text, new)
        base = href if href.endswith("/") else href + "/"
        return (len(result) == len(D) + 1
                and forall("int", lambda j: implies(
                    0 <= j and j < len(D),
                    result[j][0] == 0 and result[j][1].href == base + D[j][0]
                    and (result[j][1].status == "404 Not Found") == (D[j][2] is None)
                    and implies(D[j][2] is not None, result[j][1].status is None and result[j][1].propstat is not None)
                    and implies(D[j][2] is not None and D[j][1] is None, created_props(result[j][1].propstat, properties, D[j][2], request_body[2]))))
                and result[len(D)][0] == 1 and result[len(D)][2].token == new)

    def inv_0(self, request_body, old_token, sync_level, limit, requested, _i, _seq, _yielded):
        return (len(_yielded) == 0 and len(_seq) == 3
                and forall("int", lambda j: implies(0 <= j and j < 3, _seq[j] == request_body[j]))
                and (old_token == request_body[0].text if _i >= 1 else old_token is None)
                and (sync_level == request_body[1].text if _i >= 2 else sync_level is None)
                and limit is None
                and ((requested is not None) == (_i >= 3))
                and implies(_i >= 3, len(requested) == len(request_body[2])
                            and forall("int", lambda i: implies(0 <= i and i < len(requested), requested[i] == request_body[2][i]))))

    def inv_1(self, request_body, resource, href, properties, requested, _i, _seq, _yielded):
        new = res_sync_token(resource)
        base = href if href.endswith("/") else href + "/"
        return (_seq == res_diffs(resource, request_body[0].text, new) and requested is not None and len(_yielded) == _i
                and len(requested) == len(request_body[2])
                and forall("int", lambda i: implies(0 <= i and i < len(requested), requested[i] == request_body[2][i]))
                and forall("int", lambda j: implies(
                    0 <= j and j < _i,
                    _yielded[j][0] == 0 and _yielded[j][1].href == base + _seq[j][0]
                    and (_yielded[j][1].status == "404 Not Found") == (_seq[j][2] is None)
                    and implies(_seq[j][2] is not None, _yielded[j][1].status is None and _yielded[j][1].propstat is not None)
                    and implies(_seq[j][2] is not None and _seq[j][1] is None,
                                created_props(_yielded[j][1].propstat, properties, _seq[j][2], request_body[2])))))

    def inv_2(self, properties, requested, old_resource, new_resource, _i, _seq, _yielded, propstat):
        # a member that did not exist in the old state is reported with every requested property
        # (there is nothing to compare with), in request order, as computed for the *new* resource
        return (_seq == requested
                and implies(old_resource is None,
                            len(propstat) == _i
                            and forall("int", lambda i: implies(
                                0 <= i and i < _i,
                                propstat[i][0] == get_status(properties, new_resource, requested[i].tag)
                                and propstat[i][2].tag == requested[i].tag))))


# ---------------------------------------------------------------------------- the tag properties (C08)
ghost("res_ctag", ["opaque:Resource"], "str")


@contract("iface:Resource.get_ctag", params={"self": "opaque:Resource"}, returns="str", assumed=True)
class Resource_get_ctag:
    """StoreBasedCollection.get_ctag (contracts/web_resources.py): the store's tag of the current state."""

    def ensures(self, result):
        return result == res_ctag(self)


@contract("xandikos.webdav.GetCTagProperty.get_value",
          params={"self": "obj:xandikos.webdav.GetCTagProperty", "href": "str", "resource": "opaque:Resource",
                  "el": "obj:xml.Element", "environ": "dict[str,str]"}, modifies=["el"])
class GetCTagProperty_get_value_c:
    """C08: the getctag a PROPFIND shows is the collection's own tag, verbatim - a function of this
    collection alone (seeded C08_5 mixed the tags of nested collections into it)."""

    def ensures(resource, el):
        return el.text == res_ctag(resource) and len(el) == old(len(el)) and effect_names() == []


@contract("xandikos.sync.SyncTokenProperty.get_value",
          params={"self": "obj:xandikos.sync.SyncTokenProperty", "href": "str", "resource": "opaque:Resource",
                  "el": "obj:xml.Element", "environ": "dict[str,str]"}, modifies=["el"])
class SyncTokenProperty_get_value_c:
    def ensures(resource, el):
        return el.text == res_sync_token(resource) and len(el) == old(len(el)) and effect_names() == []
