"""C01/C03: the PUT / DELETE handlers as guarded commands over the abstract Resource
interface (DESIGN B.5)."""

fields("xandikos.webdav.WebDAVApp", {
    "backend": "obj:xandikos.web.XandikosBackend", "strict": "bool",
})
fields("xandikos.webdav.Response", {"status": "int", "reason": "str", "ghost_inner": "opt[str]"})


@contract("xandikos.webdav.WebDAVApp._get_allowed_methods",
          params={"self": "obj:xandikos.webdav.WebDAVApp", "request": "opaque:Request"}, returns="list[str]")
class App_get_allowed_methods:
    pass


@contract("xandikos.webdav._send_simple_dav_error",
          params={"request": "opaque:Request", "statuscode": "str", "error": "none", "description": "str"},
          returns="obj:xandikos.webdav.Response")
class send_simple_dav_error:
    """A 207 Multi-Status whose single response carries `statuscode` and the DAV:error element
    (a *refusal* in the sense of DESIGN B.5)."""

    def ensures(statuscode, result):
        return result.status == 207 and result.ghost_inner == statuscode


opaque("Element")


def req_path(request):
    pi = path_info(request.match_info)
    return pi if pi.startswith("/") else "/" + pi


def target(request):
    return resource_at(posixpath.normpath(req_path(request)))


def current_etag(request):
    return res_etag(target(request)) if target(request) is not None else None


def precondition_failed(request):
    im = header(request.headers, "If-Match")
    inm = header(request.headers, "If-None-Match")
    cur = current_etag(request)
    return ((im is not None and not spec_etag_matches(im, cur))
            or (inm is not None and inm != "" and spec_etag_matches(inm, cur)))


@contract("xandikos.webdav.PutMethod.handle",
          params={"self": "obj:xandikos.webdav.PutMethod", "request": "opaque:Request", "environ": "dict[str,str]",
                  "app": "obj:xandikos.webdav.WebDAVApp"},
          returns="obj:xandikos.webdav.Response", may_raise=["ValueError", "KeyError", "AssertionError"])
class Put_handle:
    def requires(self, app):
        return app.backend.path != ""

    def ensures_conditional(self, request, result):
        # C03: a failing If-Match / If-None-Match is answered 412 and nothing is written
        return implies(precondition_failed(request), result.status == 412 and effect_names() == [])

    def ensures_update(self, request, result):
        r = target(request)
        body = body_of(request.content)
        cur = current_etag(request)
        ok = not precondition_failed(request) and r is not None
        return implies(ok, effect_names() == ["set_body"]
                       and effect_arg(0, 1) == r and joined(effect_arg(0, 2)) == body and effect_arg(0, 3) == cur
                       and (result.status == 204) == (sb_outcome(r, effect_arg(0, 2), cur) not in (1, 2, 3))
                       and implies(sb_outcome(r, effect_arg(0, 2), cur) == 2, result.status == 423)
                       and implies(sb_outcome(r, effect_arg(0, 2), cur) == 1, result.status == 207)
                       and implies(sb_outcome(r, effect_arg(0, 2), cur) == 3, result.status == 405))

    def ensures_create(self, request, result):
        r = target(request)
        body = body_of(request.content)
        p = req_path(request)
        parent = resource_at(posixpath.normpath(posixpath.split(p)[0]))
        name = posixpath.split(p)[1]
        go = not precondition_failed(request) and r is None
        is_coll = parent is not None and "{DAV:}collection" in parent.resource_types
        return (implies(go and parent is None, result.status == 404 and effect_names() == [])
                and implies(go and parent is not None and not is_coll, result.status == 405 and effect_names() == [])
                and implies(go and is_coll,
                            effect_names() == ["create_member"]
                            and effect_arg(0, 1) == parent and effect_arg(0, 2) == name
                            and joined(effect_arg(0, 3)) == body and effect_arg(0, 4) == request.content_type
                            and (result.status == 201) == (cm_outcome(parent, name, effect_arg(0, 3), request.content_type)
                                                           not in (1, 2, 3))))
