"""C01/C03: the PUT / DELETE handlers as guarded commands over the abstract Resource
interface (DESIGN B.5)."""

fields("xandikos.webdav.WebDAVApp", {
    "backend": "obj:xandikos.web.XandikosBackend", "strict": "bool",
    "properties": "opaque:Registry", "reporters": "opaque:ReporterRegistry", "methods": "opaque:Registry",
})
opaque("Registry")
fields("xandikos.webdav.Response", {"status": "int", "reason": "str", "ghost_inner": "opt[str]", "headers": "list[tuple[str,str]]", "body": "opaque:Chunks"})


@contract("xandikos.webdav.WebDAVApp._get_allowed_methods",
          params={"self": "obj:xandikos.webdav.WebDAVApp", "request": "opaque:Request"}, returns="list[str]")
class App_get_allowed_methods:
    pass


@contract("xandikos.webdav._send_simple_dav_error",
          params={"request": "opaque:Request", "statuscode": "str", "error": "obj:xml.Element", "description": "str"},
          returns="obj:xandikos.webdav.Response")
class send_simple_dav_error:
    """A 207 Multi-Status whose single response carries `statuscode` and the DAV:error element
    (a *refusal* in the sense of DESIGN B.5)."""

    def ensures(statuscode, result):
        return result.status == 207

    def names_result(statuscode, result):
        # ghost: the status carried inside the multistatus body (the body itself is serialised by
        # xml.etree, outside the model)
        return result.ghost_inner == statuscode



def req_path(request):
    pi = path_info(request.match_info)
    return pi if pi.startswith("/") else "/" + pi


def target(request):
    return resource_at(posixpath.normpath(req_path(request)))


def current_etag(request):
    return res_etag(target(request)) if target(request) is not None else None


def precondition_failed(request):
    im = header(request.headers, "If-Match")
    inm = header(request.headers, "If-None-Match")
    cur = current_etag(request)
    return ((im is not None and not spec_etag_matches(im, cur))
            or (inm is not None and inm != "" and spec_etag_matches(inm, cur)))


@contract("xandikos.webdav.PutMethod.handle",
          params={"self": "obj:xandikos.webdav.PutMethod", "request": "opaque:Request", "environ": "dict[str,str]",
                  "app": "obj:xandikos.webdav.WebDAVApp"},
          returns="obj:xandikos.webdav.Response", may_raise=["ValueError", "KeyError", "AssertionError"])
class Put_handle:
    def requires(self, app):
        return app.backend.path != ""

    def ensures_conditional(self, request, result):
        # C03: a failing If-Match / If-None-Match is answered 412 and nothing is written
        return implies(precondition_failed(request), result.status == 412 and effect_names() == [])

    def ensures_update(self, request, result):
        r = target(request)
        body = body_of(request.content)
        cur = current_etag(request)
        ok = not precondition_failed(request) and r is not None
        return implies(ok, effect_names() == ["set_body"]
                       and effect_arg(0, 1) == r and joined(effect_arg(0, 2)) == body and effect_arg(0, 3) == cur
                       and (result.status == 204) == (sb_outcome(r, effect_arg(0, 2), cur) not in (1, 2, 3))
                       and implies(sb_outcome(r, effect_arg(0, 2), cur) == 2, result.status == 423)
                       and implies(sb_outcome(r, effect_arg(0, 2), cur) == 1, result.status == 207)
                       and implies(sb_outcome(r, effect_arg(0, 2), cur) == 3, result.status == 405))

    def ensures_create(self, request, result):
        r = target(request)
        body = body_of(request.content)
        p = req_path(request)
        parent = resource_at(posixpath.normpath(posixpath.split(p)[0]))
        name = posixpath.split(p)[1]
        go = not precondition_failed(request) and r is None
        is_coll = parent is not None and "{DAV:}collection" in parent.resource_types
        return (implies(go and parent is None, result.status == 404 and effect_names() == [])
                and implies(go and parent is not None and not is_coll, result.status == 405 and effect_names() == [])
                and implies(go and is_coll,
                            effect_names() == ["create_member"]
                            and effect_arg(0, 1) == parent and effect_arg(0, 2) == name
                            and joined(effect_arg(0, 3)) == body and effect_arg(0, 4) == request.content_type
                            and (result.status == 201) == (cm_outcome(parent, name, effect_arg(0, 3), request.content_type)
                                                           not in (1, 2, 3))))


@contract("xandikos.webdav.DeleteMethod.handle",
          params={"self": "obj:xandikos.webdav.DeleteMethod", "request": "opaque:Request", "environ": "dict[str,str]",
                  "app": "obj:xandikos.webdav.WebDAVApp"},
          returns="obj:xandikos.webdav.Response", may_raise=["ValueError", "KeyError", "AssertionError"])
class Delete_handle:
    def requires(self, app):
        return app.backend.path != ""

    def ensures(self, request, result):
        r = target(request)
        p = req_path(request)
        parent = resource_at(posixpath.normpath(posixpath.split(p.rstrip("/"))[0]))
        name = posixpath.split(p.rstrip("/"))[1]
        im = header(request.headers, "If-Match")
        refused = im is not None and not spec_etag_matches(im, current_etag(request))
        return (implies(r is None or parent is None, result.status == 404 and effect_names() == [])
                # C03: a failing If-Match is answered 412 and nothing is deleted
                and implies(r is not None and parent is not None and refused,
                            result.status == 412 and effect_names() == [])
                and implies(r is not None and parent is not None and not refused,
                            result.status == 204 and effect_names() == ["delete_member"]
                            and effect_arg(0, 1) == parent and effect_arg(0, 2) == name
                            and effect_arg(0, 3) == current_etag(request)))


opaque("Params")
opaque("PropStat")


@contract("xandikos.webdav.parse_type", params={"content_type": "str"}, returns="tuple[str,opaque:Params]")
class parse_type_c:
    """Not verified here (loop over ';'-separated parameters): only the shape is used."""


@contract("xandikos.webdav._readXmlBody",
          params={"request": "opaque:Request", "expected_tag": "opt[str]", "strict": "bool"},
          defaults={"expected_tag": None, "strict": True},
          returns="opaque:Element", may_raise=["BadRequestError", "UnsupportedMediaType"], effects=[["read_body"]])
class readXmlBody_c:
    def names_result(request, result):
        # the parsed body is a function of the request (named, not defined)
        return result == xml_body(request)


ghost("xml_body", ["opaque:Request"], "opaque:Element")


@contract("xandikos.webdav.propstat_as_xml", params={"propstat": "list[tuple[str,opt[str],opaque:XmlOut]]"}, returns="list[opaque:Element]")
class propstat_as_xml_c:
    pass


@contract("xandikos.webdav._send_xml_response", params={"status": "str", "et": "none", "out_encoding": "str"},
          returns="obj:xandikos.webdav.Response")
class send_xml_response_c:
    """Not verified (ET.tostring): the numeric status is the one named in the status line."""

    def ensures(status, result):
        return (implies(status == "201 Created", result.status == 201)
                and implies(status == "207 Multi-Status", result.status == 207))


@contract("xandikos.webdav.nonfatal_bad_request", params={"message": "str", "strict": "bool"},
          defaults={"strict": False})
class nonfatal_bad_request_c:
    def raises_BadRequestError(strict):
        return strict


@contract("xandikos.webdav.MkcolMethod.handle",
          params={"self": "obj:xandikos.webdav.MkcolMethod", "request": "opaque:Request", "environ": "dict[str,str]",
                  "app": "obj:xandikos.webdav.WebDAVApp"},
          returns="obj:xandikos.webdav.Response",
          may_raise=["ValueError", "KeyError", "AssertionError", "BadRequestError", "UnsupportedMediaType",
                     "FileExistsError"],
          modifies_on_raise=["fs()"],
          locals={"propstat": "list[tuple[str,opt[str],opaque:XmlOut]]"}, loop_modifies={0: ["propstat"]})
class Mkcol_handle:
    """C13: the collection is created at the normalised request path (obligation
    #pre:create_collection).  C01: a request that is refused (400/415) creates nothing."""

    def requires(self, app):
        return app.backend.path != ""

    def ensures(self, request, result):
        return (implies(target(request) is not None, result.status == 405 and "create_collection" not in effect_names())
                and implies(result.status != 201, "created" not in effect_names()))

    def ensures_raise(self):
        # nothing is created before the request body has been read and accepted
        return implies("created" in effect_names(), effect_names()[0] == "read_body")

    def ensures_raise_nothing_created(self):
        # C01 in full: a request answered with an error creates nothing (what it had created is
        # removed again before the error leaves the handler)
        return implies("created" in effect_names(), "destroyed" in effect_names())

    def inv_0(self, propstat, _i, _seq):
        return True

    def inv_1(self, _i, _seq):
        return True


@contract("xandikos.webdav.PostMethod.handle",
          params={"self": "obj:xandikos.webdav.PostMethod", "request": "opaque:Request", "environ": "dict[str,str]",
                  "app": "obj:xandikos.webdav.WebDAVApp"},
          returns="obj:xandikos.webdav.Response", may_raise=["ValueError", "KeyError", "AssertionError"])
class Post_handle:
    """RFC 5995 add-member.  C01: exactly one create_member on the addressed collection, or
    nothing.  C16: the Location of the new member is the (percent-quoted) request path of the
    collection followed by the new member's name, so it dereferences to that member."""

    def requires(self, app):
        return app.backend.path != ""

    def ensures(self, request, result):
        r = target(request)
        body = body_of(request.content)
        return (implies(r is None, result.status == 404 and effect_names() == [])
                and implies(r is not None and "{DAV:}collection" not in r.resource_types,
                            result.status == 405 and effect_names() == [])
                and implies(r is not None and "{DAV:}collection" in r.resource_types,
                            effect_names() == ["create_member"] and effect_arg(0, 1) == r and effect_arg(0, 2) is None
                            and joined(effect_arg(0, 3)) == body))

    def ensures_location(self, request, result):
        r = target(request)
        ok = (r is not None and "{DAV:}collection" in r.resource_types
              and cm_outcome(r, None, effect_arg(0, 3), effect_arg(0, 4)) not in (1, 2, 3))
        coll = request.path if request.path.endswith("/") else request.path + "/"
        return implies(ok, result.status == 200 and result.headers[0][0] == "Location"
                       and result.headers[0][1] == urllib.parse.quote(coll + cm_name(r, None, effect_arg(0, 3), effect_arg(0, 4))))


opaque("AcceptList")
ghost("render_body", ["opaque:Resource"], "opaque:Chunks")
ghost("render_etag", ["opaque:Resource"], "opt[str]")


@contract("xandikos.webdav.parse_accept_header", params={"accept": "str"}, returns="opaque:AcceptList")
class parse_accept_header_c:
    """Not verified here; only passed through to Resource.render."""


@contract("iface:Resource.render",
          params={"self": "opaque:Resource", "self_url": "str", "accepted_content_types": "opaque:AcceptList",
                  "accepted_content_languages": "opaque:AcceptList"},
          returns="tuple[opaque:Chunks,int,opt[str],opt[str],opt[list[str]]]", may_raise=["NotAcceptableError"],
          assumed=True)
class Resource_render:
    def ensures(self, result):
        return result[0] == render_body(self) and result[2] == render_etag(self)


@contract("iface:Resource.get_last_modified", params={"self": "opaque:Resource"}, returns="str",
          may_raise=["KeyError"], assumed=True)
class Resource_get_last_modified:
    pass


@contract("xandikos.webdav._do_get",
          params={"request": "opaque:Request", "environ": "dict[str,str]", "app": "obj:xandikos.webdav.WebDAVApp",
                  "send_body": "bool"},
          returns="obj:xandikos.webdav.Response",
          may_raise=["ValueError", "KeyError", "AssertionError", "NotAcceptableError"])
class do_get_c:
    """C03: GET/HEAD with a matching If-None-Match answer 304 without a body.
    C02: otherwise the ETag header is the resource's etag and the body is what it renders."""

    def requires(app):
        return app.backend.path != ""

    def ensures(request, send_body, result):
        r = target(request)
        inm = header(request.headers, "If-None-Match")
        cur = render_etag(r)
        not_modified = inm is not None and inm != "" and cur is not None and spec_etag_matches(inm, cur)
        return (effect_names() == []
                and implies(r is None, result.status == 404)
                and implies(r is not None and not_modified, result.status == 304 and result.body == [])
                and implies(r is not None and not not_modified,
                            result.status == 200
                            and implies(cur is not None, ("ETag", cur) in result.headers)
                            and implies(send_body, result.body == render_body(r))
                            and implies(not send_body, result.body == [])))
