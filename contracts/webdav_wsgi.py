"""C03/C16: the WSGI request adapter hands the handlers the same request the aiohttp front
end would: header lookups by their HTTP names, and the decoded path."""

opaque("Stream")

WSGI_ENV = ('constdict:{"REQUEST_METHOD": "str", "SCRIPT_NAME": "str", "PATH_INFO": "str", "CONTENT_TYPE": "str", '
            '"CONTENT_LENGTH": "str", "wsgi.input": "opaque:Stream", "HTTP_IF_MATCH": "str", "HTTP_IF_NONE_MATCH": "str", '
            '"HTTP_DEPTH": "str", "HTTP_ACCEPT": "str", "HTTP_ACCEPT_LANGUAGES": "str"}')


@contract("xandikos.webdav.WSGIRequest.__init__",
          params={"self": "obj:xandikos.webdav.WSGIRequest",
                  "environ": 'constdict:{"REQUEST_METHOD": "str", "SCRIPT_NAME": "str", "PATH_INFO": "str", "CONTENT_TYPE": "str", "CONTENT_LENGTH": "str", "wsgi.input": "opaque:Stream", "HTTP_IF_MATCH": "str", "HTTP_IF_NONE_MATCH": "str", "HTTP_DEPTH": "str", "HTTP_ACCEPT": "str", "HTTP_ACCEPT_LANGUAGES": "str"}'},
          may_raise=["UnicodeEncodeError", "UnicodeDecodeError"],
          modifies=["self.method", "self.raw_path", "self.path", "self.content_type", "self.content_length",
                    "self.headers", "self.url", "self.content", "self.match_info", "self._environ"])
class WSGIRequest_init:
    """Every header a handler reads (request.headers.get(<HTTP name>)) is the value the WSGI
    server put under HTTP_<NAME with - replaced by _> (ground obligations, one per header)."""

    def ensures_headers(self, environ):
        return (self.headers.get("If-Match", None) == environ["HTTP_IF_MATCH"]
                and self.headers.get("If-None-Match", None) == environ["HTTP_IF_NONE_MATCH"]
                and self.headers.get("Depth", None) == environ["HTTP_DEPTH"]
                and self.headers.get("Accept", None) == environ["HTTP_ACCEPT"]
                and self.headers.get("Accept-Languages", None) == environ["HTTP_ACCEPT_LANGUAGES"])
