"""C06: the uid cache of GitStore (and the same code in VdirStore).

Ghost view: self.ghost_M : name -> etag is the current member map (tree of the ref /
index).  stored_uid(self, n, e) is the UID of blob e opened under name n, or None."""

fields("xandikos.store.git.GitStore", {
    "_uid_to_fname": "dict[str,tuple[str,str]]",
    "_fname_to_uid": "dict[str,tuple[str,opt[str]]]",
    "_check_for_duplicate_uids": "bool",
    "repo": "obj:abstract.Repo",
    "extra_file_handlers": "opaque:Handlers",
    "ghost_M": "dict[str,str]",
    "ghost_locked": "bool",
    "ghost_cfg": "opt[str]",
    "ghost_subdirs": "set[str]",
    "path": "str",
    "ref": "bytes",
    "index_manager": "obj:xandikos.store.index.AutoIndexManager",
})


view("xandikos.store.git.GitStore", "ghost_trees", "abs_trees_view")


def uid_ok(f):
    return uid_outcome(f) != 1 and uid_outcome(f) != 2 and uid_outcome(f) != 3


def stored_uid(self, name, etag):
    f = file_of(blob_of(etag.encode("ascii")).chunked, name, self.extra_file_handlers)
    return uid_val(f) if uid_ok(f) else None


def cache_consistent(self, F, U):
    """F and U describe the same name<->uid relation and every cached uid is right for the
    etag it was computed from."""
    return (forall("str", lambda u: implies(u in U, U[u][0] in F and F[U[u][0]][1] == u))
            and forall("str", lambda n: implies(n in F and F[n][1] is not None,
                                                F[n][1] in U and U[F[n][1]][0] == n))
            and forall("str", lambda n: implies(n in F, F[n][1] == stored_uid(self, n, F[n][0]))))


def cache_exact(self, F, U, M):
    return (forall("str", lambda n: (n in F) == (n in M))
            and forall("str", lambda n: implies(n in M, F[n][0] == M[n]))
            and cache_consistent(self, F, U))


def uids_unique(self, M):
    return forall("str", "str", lambda n, m: implies(
        n in M and m in M and n != m and stored_uid(self, n, M[n]) is not None,
        stored_uid(self, n, M[n]) != stored_uid(self, m, M[m])))


def no_cross_uid(self, F, M):
    """A cached uid of one name is never the current uid of a different member.  Holds
    because between two scans there is at most one write, and that write passed the
    duplicate check against the state the cache describes (DESIGN B.1)."""
    return forall("str", "str", lambda n, m: implies(
        n in F and m in M and n != m and F[n][1] is not None,
        F[n][1] != stored_uid(self, m, M[m])))


def members_in_store(self, M):
    return forall("str", lambda n: implies(n in M, in_store(self.repo.object_store, M[n].encode("ascii"))))


def store_inv(self):
    return (cache_consistent(self, self._fname_to_uid, self._uid_to_fname)
            and no_cross_uid(self, self._fname_to_uid, self.ghost_M)
            and uids_unique(self, self.ghost_M)
            and members_in_store(self, self.ghost_M))


def tree_for(self, ctag):
    """The member map a ctag denotes: the current one for None, a recorded one otherwise."""
    return self.ghost_M if ctag is None else self.ghost_trees[ctag]


def enumerates(result, T):
    """result lists the entries of map T, each once, in T's (unspecified) enumeration order."""
    return (len(result) == len(keys_list(T))
            and forall("int", lambda j: implies(
                0 <= j and j < len(result),
                result[j][0] == keys_list(T)[j]
                and result[j][2].decode("ascii") == T[result[j][0]])))


@contract("xandikos.store.git.GitStore._iterblobs",
          params={"self": "obj:xandikos.store.git.GitStore", "ctag": "opt[str]"},
          returns="list[tuple[str,int,bytes]]")
class GitStore_iterblobs:
    """Interface contract (BareGitStore / TreeGitStore): the members of the tree `ctag`
    denotes, each once, in an unspecified order; unknown ctag -> InvalidCTag."""

    def raises_InvalidCTag(self, ctag):
        return ctag is not None and ctag not in self.ghost_trees

    def ensures(self, ctag, result):
        return enumerates(result, tree_for(self, ctag))


@contract("xandikos.store.open_by_extension",
          params={"content": "opaque:Chunks", "name": "str", "extra_file_handlers": "opaque:Handlers"},
          returns="opaque:File")
class open_by_extension_c:
    """file_of(content, name, handlers) names the file object a name resolves to: the one its
    guessed (or the default) MIME type selects (definition, unfolded here)."""

    def define_file_of(content, name, extra_file_handlers):
        return forall("opaque:Chunks", lambda c: forall("str", lambda n: forall("opaque:Handlers", lambda h:
                      file_of(c, n, h) == file_by_ct(c, default_mime(n), h))))

    def ensures(content, name, extra_file_handlers, result):
        return result == file_of(content, name, extra_file_handlers)


def processed(M, n, i):
    return n in M and idx_of(M, n) < i


@contract("xandikos.store.git.GitStore._scan_uids",
          params={"self": "obj:xandikos.store.git.GitStore"},
          modifies=["self._fname_to_uid", "self._uid_to_fname"])
class GitStore_scan_uids:
    def requires(self):
        return store_inv(self)

    def ensures(self):
        return cache_exact(self, self._fname_to_uid, self._uid_to_fname, self.ghost_M)

    def inv_0(self, removed, _i, _seq):
        F = self._fname_to_uid
        U = self._uid_to_fname
        F0 = old(self._fname_to_uid)
        M = self.ghost_M
        return (
            enumerates(_seq, M)
            and forall("str", lambda n: implies(processed(M, n, _i), n in F and F[n][0] == M[n]))
            and forall("str", lambda n: implies(not processed(M, n, _i),
                                                (n in F) == (n in F0) and implies(n in F0, F[n] == F0[n])))
            and forall("str", lambda n: (n in removed) == (n in F0 and not processed(M, n, _i)))
            and cache_consistent(self, F, U)
        )

    def inv_1(self, removed, _i, _seq):
        F = self._fname_to_uid
        U = self._uid_to_fname
        M = self.ghost_M
        return (
            forall("str", lambda n: implies(n in removed, n not in M))
            and forall("str", lambda n: implies(n in M, n in F and F[n][0] == M[n]))
            and forall("str", lambda n: implies(n not in M, (n in F) == (n in removed and idx_of(removed, n) >= _i)))
            and cache_consistent(self, F, U)
        )
