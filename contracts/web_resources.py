"""C01/C02/C03/C06/C14: xandikos.web resource classes over the store contracts."""

fields("xandikos.web.ObjectResource", {
    "store": "obj:xandikos.store.git.GitStore", "name": "str", "etag": "str", "content_type": "str",
    "_file": "opt[opaque:File]",
})
fields("xandikos.web.StoreBasedCollection", {
    "store": "obj:xandikos.store.git.GitStore", "relpath": "str", "backend": "opaque:Backend",
})
fields("xandikos.store.InvalidFileContents", {"error": "str", "content_type": "str"})
fields("xandikos.store.DuplicateUidError", {"uid": "str", "existing_name": "str", "new_name": "str"})
fields("xandikos.store.InvalidCTag", {"ctag": "str"})
fields("xandikos.store.LockedError", {"path": "str"})
fields("xandikos.store.NoSuchItem", {"name": "str"})
fields("xandikos.store.InvalidETag", {"name": "str", "expected_etag": "opt[str]", "got_etag": "opt[str]"})
fields("xandikos.webdav.PreconditionFailure", {"precondition": "str", "description": "str"})
opaque("Backend")

CALDAV_NS = "urn:ietf:params:xml:ns:caldav"


def import_pre(store, name, content_type):
    return (store_inv(store) and forall("opaque:File", lambda f: implies(valid_file(f), uid_outcome(f) != 2))
            # a generated name (uuid4 + extension) is never the reserved metadata name
            and implies(name is None, effective_name(name, content_type) != ".xandikos"))


def put_refused(store, name, content_type, data):
    """The upload is refused as a precondition failure: not well formed (C14) or a UID conflict (C06)."""
    return not accepted_upload(store, name, content_type, data) or refused_dup(store, name, content_type, data)


def etag_mismatch(store, name, content_type, replace_etag):
    return replace_etag is not None and store.ghost_M.get(effective_name(name, content_type)) != replace_etag.strip('"')


def new_etag(store, name, content_type, data):
    return blob_id(normalized_of(upload_file(store, name, content_type, data))).decode("ascii")


@contract("xandikos.web.ObjectResource.set_body",
          params={"self": "obj:xandikos.web.ObjectResource", "data": "opaque:Chunks", "replace_etag": "opt[str]"},
          returns="str",
          modifies=["self.store._fname_to_uid", "self.store._uid_to_fname", "self.store.ghost_M"],
          modifies_on_raise=["self.store._fname_to_uid", "self.store._uid_to_fname"])
class ObjectResource_set_body:
    def requires(self):
        return import_pre(self.store, self.name, self.content_type)

    def raises_PreconditionFailure(self, data):
        return put_refused(self.store, self.name, self.content_type, data)

    def exc_PreconditionFailure(self, data, exc):
        return exc.precondition == ("{urn:ietf:params:xml:ns:caldav}valid-calendar-data"
                                    if not accepted_upload(self.store, self.name, self.content_type, data)
                                    else "{urn:ietf:params:xml:ns:caldav}no-uid-conflict")

    def raises_InvalidETag(self, data, replace_etag):
        return (not put_refused(self.store, self.name, self.content_type, data)
                and etag_mismatch(self.store, self.name, self.content_type, replace_etag))

    def raises_ResourceLocked(self, data, replace_etag):
        return (not put_refused(self.store, self.name, self.content_type, data)
                and not etag_mismatch(self.store, self.name, self.content_type, replace_etag)
                and self.store.ghost_locked)

    def ensures(self, data, result):
        e = new_etag(self.store, self.name, self.content_type, data)
        return (result == '"' + e + '"'
                and self.store.ghost_M == old(self.store.ghost_M).put(self.name, e))


@contract("xandikos.web.ObjectResource.get_etag", params={"self": "obj:xandikos.web.ObjectResource"}, returns="str")
class ObjectResource_get_etag:
    def ensures(self, result):
        return result == '"' + self.etag + '"'


@contract("xandikos.web.StoreBasedCollection.create_member",
          params={"self": "obj:xandikos.web.StoreBasedCollection", "name": "opt[str]", "contents": "opaque:Chunks",
                  "content_type": "str"},
          returns="tuple[str,str]",
          modifies=["self.store._fname_to_uid", "self.store._uid_to_fname", "self.store.ghost_M"],
          modifies_on_raise=["self.store._fname_to_uid", "self.store._uid_to_fname"])
class Collection_create_member:
    def requires(self, name, content_type):
        return import_pre(self.store, name, content_type)

    def raises_PreconditionFailure(self, name, contents, content_type):
        return put_refused(self.store, name, content_type, contents)

    def exc_PreconditionFailure(self, name, contents, content_type, exc):
        return exc.precondition == ("{urn:ietf:params:xml:ns:caldav}valid-calendar-data"
                                    if not accepted_upload(self.store, name, content_type, contents)
                                    else "{urn:ietf:params:xml:ns:caldav}no-uid-conflict")

    def raises_ResourceLocked(self, name, contents, content_type):
        return not put_refused(self.store, name, content_type, contents) and self.store.ghost_locked

    def ensures(self, name, contents, content_type, result):
        e = new_etag(self.store, name, content_type, contents)
        return (result[0] == effective_name(name, content_type)
                and result[1] == '"' + e + '"'
                and self.store.ghost_M == old(self.store.ghost_M).put(result[0], e))


@contract("xandikos.web.StoreBasedCollection.delete_member",
          params={"self": "obj:xandikos.web.StoreBasedCollection", "name": "str", "etag": "opt[str]"},
          modifies=["self.store.ghost_M", "fs()"])
class Collection_delete_member:
    def requires(self, name):
        # call site (DeleteMethod): the addressed resource exists as a member or a listed sub-collection
        return (name != "" and (name in self.store.ghost_M or name in self.store.ghost_subdirs)
                # ghost_subdirs are the directories below the store's path
                and forall("str", lambda n: (n in self.store.ghost_subdirs) == (n in fs_subdirs(self.store.path))))

    def raises_InvalidETag(self, name, etag):
        return name in self.store.ghost_M and etag is not None and self.store.ghost_M[name] != etag.strip('"')

    def raises_LockedError(self, name, etag):
        return (name in self.store.ghost_M
                and not (etag is not None and self.store.ghost_M[name] != etag.strip('"'))
                and self.store.ghost_locked)

    def ensures(self, name):
        return (implies(name in old(self.store.ghost_M),
                        self.store.ghost_M == old(self.store.ghost_M).without(name)
                        and effect_names() == [])
                and implies(name not in old(self.store.ghost_M),
                            self.store.ghost_M == old(self.store.ghost_M)
                            and effect_names() == ["Rmtree"]))


@contract("xandikos.web.StoreBasedCollection.get_ctag", params={"self": "obj:xandikos.web.StoreBasedCollection"},
          returns="str", modifies=["self.store.ghost_trees"])
class Collection_get_ctag:
    def ensures(self, result):
        return result == tag_hash(self.store.ghost_M, self.store.ghost_cfg)


@contract("xandikos.web.StoreBasedCollection.get_sync_token", params={"self": "obj:xandikos.web.StoreBasedCollection"},
          returns="str", modifies=["self.store.ghost_trees"])
class Collection_get_sync_token:
    def ensures(self, result):
        return (result == tag_hash(self.store.ghost_M, self.store.ghost_cfg)
                and result in self.store.ghost_trees and self.store.ghost_trees[result] == self.store.ghost_M)


@contract("xandikos.web.StoreBasedCollection.get_etag", params={"self": "obj:xandikos.web.StoreBasedCollection"},
          returns="str", modifies=["self.store.ghost_trees"])
class Collection_get_etag:
    def ensures(self, result):
        return result == '"' + tag_hash(self.store.ghost_M, self.store.ghost_cfg) + '"'


def diff_record(r, A, has_old, B):
    """r = (name, old_resource, new_resource): the resources carry the etags of name in A / B."""
    a = A.get(r[0]) if has_old else None
    b = B.get(r[0])
    return (a != b
            and (r[1] is None) == (a is None) and (r[2] is None) == (b is None)
            and implies(a is not None, r[1].name == r[0] and r[1].etag == a and r[1].content_type == default_mime(r[0]))
            and implies(b is not None, r[2].name == r[0] and r[2].etag == b and r[2].content_type == default_mime(r[0])))


RES = "struct:xandikos.web.ObjectResource"


@contract("xandikos.web.StoreBasedCollection.iter_differences_since",
          params={"self": "obj:xandikos.web.StoreBasedCollection", "old_token": "opt[str]", "new_token": "str"},
          returns="list[tuple[str,opt[struct:xandikos.web.ObjectResource],opt[struct:xandikos.web.ObjectResource]]]",
          yields="tuple[str,opt[struct:xandikos.web.ObjectResource],opt[struct:xandikos.web.ObjectResource]]",
          modifies=["self.store.ghost_trees"], modifies_on_raise=["self.store.ghost_trees"],
          inline_calls=["xandikos.web.StoreBasedCollection._get_resource"])
class Collection_iter_differences_since:
    """C07: one record per member whose etag differs between the two token states, each once,
    nothing else; an unknown token is InvalidToken (never a successful wrong list)."""

    def raises_InvalidToken(self, old_token, new_token):
        T = self.store.ghost_trees
        return ((old_token is not None and old_token not in T)
                or (new_token not in T and not (old_token is None and new_token == empty_tag())))

    def ensures(self, old_token, new_token, result):
        T = self.store.ghost_trees
        A = T[old_token]
        B = T[new_token]
        has_old = old_token is not None
        return (forall("int", lambda j: implies(0 <= j and j < len(result), diff_record(result[j], A, has_old, B)))
                and forall("int", "int", lambda i, j: implies(0 <= i and i < j and j < len(result),
                                                             result[i][0] != result[j][0]))
                and forall("str", lambda n: implies((A.get(n) if has_old else None) != B.get(n),
                                                    exists("int", lambda j: 0 <= j and j < len(result)
                                                           and result[j][0] == n))))

    def inv_0(self, old_token, new_token, _i, _seq, _yielded):
        T = self.store.ghost_trees
        A = T[old_token]
        B = T[new_token]
        has_old = old_token is not None
        return (change_list(_seq, A, has_old, B)
                and len(_yielded) == _i
                and forall("int", lambda j: implies(0 <= j and j < _i, _yielded[j][0] == _seq[j][0]
                                                    and diff_record(_yielded[j], A, has_old, B))))
