"""C01/C02/C03/C06/C14: xandikos.web resource classes over the store contracts."""

fields("xandikos.web.ObjectResource", {
    "store": "obj:xandikos.store.git.GitStore", "name": "str", "etag": "str", "content_type": "str",
    "_file": "opt[opaque:File]",
})
fields("xandikos.web.StoreBasedCollection", {
    "store": "obj:xandikos.store.git.GitStore", "relpath": "str", "backend": "opaque:Backend",
})
fields("xandikos.store.InvalidFileContents", {"error": "str", "content_type": "str"})
fields("xandikos.store.DuplicateUidError", {"uid": "str", "existing_name": "str", "new_name": "str"})
fields("xandikos.store.InvalidCTag", {"ctag": "str"})
fields("xandikos.store.LockedError", {"path": "str"})
fields("xandikos.store.NoSuchItem", {"name": "str"})
fields("xandikos.store.InvalidETag", {"name": "str", "expected_etag": "opt[str]", "got_etag": "opt[str]"})
fields("xandikos.webdav.PreconditionFailure", {"precondition": "str", "description": "str"})
opaque("Backend")

CALDAV_NS = "urn:ietf:params:xml:ns:caldav"


def import_pre(store):
    return store_inv(store) and forall("opaque:File", lambda f: implies(valid_file(f), uid_outcome(f) != 2))


def put_refused(store, name, content_type, data):
    """The upload is refused as a precondition failure: not well formed (C14) or a UID conflict (C06)."""
    f = upload_file(store, name, content_type, data)
    return not valid_file(f) or refused_dup(store, name, content_type, data)


def etag_mismatch(store, name, content_type, replace_etag):
    return replace_etag is not None and store.ghost_M.get(effective_name(name, content_type)) != replace_etag.strip('"')


def new_etag(store, name, content_type, data):
    return blob_id(normalized_of(upload_file(store, name, content_type, data))).decode("ascii")


@contract("xandikos.web.ObjectResource.set_body",
          params={"self": "obj:xandikos.web.ObjectResource", "data": "opaque:Chunks", "replace_etag": "opt[str]"},
          returns="str",
          modifies=["self.store._fname_to_uid", "self.store._uid_to_fname", "self.store.ghost_M"],
          modifies_on_raise=["self.store._fname_to_uid", "self.store._uid_to_fname"])
class ObjectResource_set_body:
    def requires(self):
        return import_pre(self.store)

    def raises_PreconditionFailure(self, data):
        return put_refused(self.store, self.name, self.content_type, data)

    def exc_PreconditionFailure(self, data, exc):
        f = upload_file(self.store, self.name, self.content_type, data)
        return exc.precondition == ("{urn:ietf:params:xml:ns:caldav}valid-calendar-data" if not valid_file(f)
                                    else "{urn:ietf:params:xml:ns:caldav}no-uid-conflict")

    def raises_InvalidETag(self, data, replace_etag):
        return (not put_refused(self.store, self.name, self.content_type, data)
                and etag_mismatch(self.store, self.name, self.content_type, replace_etag))

    def raises_ResourceLocked(self, data, replace_etag):
        return (not put_refused(self.store, self.name, self.content_type, data)
                and not etag_mismatch(self.store, self.name, self.content_type, replace_etag)
                and self.store.ghost_locked)

    def ensures(self, data, result):
        e = new_etag(self.store, self.name, self.content_type, data)
        return (result == '"' + e + '"'
                and self.store.ghost_M == old(self.store.ghost_M).put(self.name, e))


@contract("xandikos.web.ObjectResource.get_etag", params={"self": "obj:xandikos.web.ObjectResource"}, returns="str")
class ObjectResource_get_etag:
    def ensures(self, result):
        return result == '"' + self.etag + '"'
