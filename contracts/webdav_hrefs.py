"""C16/C17: href construction and parsing.

emit:  text = quote(path)                     (create_href)
parse: path = unquote(path-component(text))   (read_href_element), then SCRIPT_NAME is
       stripped (href_to_path).   Round trip: parse(emit(p)) == p for every plain absolute
       path p (member names with ' ', '%', '#', '?', ';', '+', non-ASCII included)."""


def plain_abs_path(p):
    return p.startswith("/") and not p.startswith("//")


@contract("xandikos.webdav.ensure_trailing_slash", params={"href": "str"}, returns="str")
class ensure_trailing_slash_c:
    def ensures(href, result):
        return result == (href if href.endswith("/") else href + "/")


@contract("xandikos.webdav.create_href", params={"href": "str", "base_href": "none"}, defaults={"base_href": None},
          returns="obj:xml.Element")
class create_href_c:
    """Without a base (see contracts/webdav_props.py for the variant with one)."""

    def ensures(href, result):
        return result.tag == "{DAV:}href" and result.text == urllib.parse.quote(href)


@contract("xandikos.webdav.read_href_element", params={"et": "opaque:Element"}, returns="opt[str]")
class read_href_element_c:
    """The path the reference denotes: the path component of the reference (everything
    before the first '?' or '#', after scheme://authority), percent-decoded."""

    def ensures(et, result):
        return ((et.text is None) == (result is None)
                and implies(et.text is not None,
                            result == urllib.parse.unquote(urllib.parse.urlsplit(et.text).path)))

    def ensures_roundtrip(et, result):
        # Lemma C16/C17: what create_href emits for a plain absolute path parses back to it
        return forall("str", lambda p: implies(plain_abs_path(p) and et.text == urllib.parse.quote(p), result == p))


def spec_href_to_path(environ, href):
    script = environ["SCRIPT_NAME"].rstrip("/")
    rest = href[len(script):]
    return None if (href is None or href == "" or not href.startswith(script)) else (
        rest if rest.startswith("/") else "/" + rest)


@contract("xandikos.webdav.href_to_path", params={"environ": "dict[str,str]", "href": "opt[str]"},
          returns="opt[str]")
class href_to_path_c:
    def requires(environ):
        return "SCRIPT_NAME" in environ

    def ensures(environ, href, result):
        return result == spec_href_to_path(environ, href)

    def ensures_roundtrip(environ, href, result):
        # an href the server emitted for relative path p (SCRIPT_NAME-stripped + p) maps back to p
        script = environ["SCRIPT_NAME"].rstrip("/")
        return forall("str", lambda p: implies(p.startswith("/") and href == script + p, result == p))

    def names_result(environ, href, result):
        # path_of(script, href) names this (deterministic, read-only) function's result, so that
        # callers' contracts need no string reasoning
        return result == path_of(environ["SCRIPT_NAME"], href)


ghost("path_of", ["str", "opt[str]"], "opt[str]")


@contract("xandikos.webdav.Backend.get_resources",
          params={"self": "obj:xandikos.web.XandikosBackend", "relpaths": "dict[str,opt[str]]"},
          returns="list[tuple[str,opt[opaque:Resource]]]", yields="tuple[str,opt[opaque:Resource]]",
          may_raise=["ValueError", "KeyError", "AssertionError"])
class Backend_get_resources_c:
    """One (relpath, resource-or-None) per key, in the dictionary's enumeration order; the
    resource is what get_resource returns for that path (named resource_at)."""

    def requires(self):
        return self.path != ""

    def ensures(self, relpaths, result):
        return (len(result) == len(keys_list(relpaths))
                and forall("int", lambda j: implies(
                    0 <= j and j < len(result),
                    result[j][0] == keys_list(relpaths)[j]
                    and result[j][1] == resource_at(posixpath.normpath(result[j][0])))))

    def inv_0(self, relpaths, _i, _seq, _yielded):
        return (_seq == keys_list(relpaths) and len(_yielded) == _i
                and forall("int", lambda j: implies(
                    0 <= j and j < _i,
                    _yielded[j][0] == _seq[j] and _yielded[j][1] == resource_at(posixpath.normpath(_seq[j])))))


@contract("xandikos.webdav._get_resources_by_hrefs",
          params={"backend": "obj:xandikos.web.XandikosBackend", "environ": "dict[str,str]", "hrefs": "list[opt[str]]"},
          returns="list[tuple[opt[str],opt[opaque:Resource]]]", yields="tuple[opt[str],opt[opaque:Resource]]",
          locals={"paths": "dict[str,opt[str]]", "unmapped": "set[opt[str]]"}, loop_modifies={0: ["paths", "unmapped"]},
          may_raise=["ValueError", "KeyError", "AssertionError"])
class get_resources_by_hrefs_c:
    """C17: every answer is for a requested href and carries exactly the resource that href
    addresses (None when it is outside the server's namespace or nothing is there) - so the
    answer for one href cannot depend on the others - and no href is answered twice.
    NOT discharged here: 'every requested href is answered at least once' (a forall-exists
    alternation over two loops that left z3 undecided or unstable, DESIGN 6/C17); that half is
    covered by the bounded HTTP stand-in only."""

    def requires(backend, environ):
        return "SCRIPT_NAME" in environ and backend.path != ""

    def ensures_each_answer_is_right(backend, environ, hrefs, result):
        return forall("int", lambda j: implies(
            0 <= j and j < len(result),
            exists("int", lambda i: 0 <= i and i < len(hrefs) and hrefs[i] == result[j][0])
            and result[j][1] == (None if path_of(environ["SCRIPT_NAME"], result[j][0]) is None
                                 else resource_at(posixpath.normpath(path_of(environ["SCRIPT_NAME"], result[j][0]))))))

    def ensures_no_href_answered_twice(result):
        return forall("int", lambda i: forall("int", lambda j: implies(
            0 <= i and i < j and j < len(result), result[i][0] != result[j][0])))

    def inv_0(backend, environ, hrefs, paths, unmapped, _i, _seq, _yielded):
        return (
            forall("int", lambda j: implies(0 <= j and j < len(_yielded), _yielded[j][0] in unmapped))
            and forall("int", lambda i: forall("int", lambda j: implies(
                0 <= i and i < j and j < len(_yielded), _yielded[i][0] != _yielded[j][0])))
            and forall("int", lambda j: implies(0 <= j and j < len(_yielded),
                                            _yielded[j][1] is None
                                            and path_of(environ["SCRIPT_NAME"], _yielded[j][0]) is None
                                            and exists("int", lambda i: 0 <= i and i < _i and hrefs[i] == _yielded[j][0])))
            and forall("str", lambda p: implies(p in paths,
                                                path_of(environ["SCRIPT_NAME"], paths[p]) == p
                                                and exists("int", lambda i: 0 <= i and i < _i and hrefs[i] == paths[p]))))

    def inv_1(backend, environ, hrefs, paths, _i, _seq, _yielded):
        return (
            len(_yielded) >= _i
            # the answers given before this loop are for hrefs outside the namespace, pairwise distinct;
            # the k-th answer of this loop is for the href recorded for the k-th path
            and forall("int", lambda j: implies(0 <= j and j < len(_yielded) - _i,
                                                path_of(environ["SCRIPT_NAME"], _yielded[j][0]) is None))
            and forall("int", lambda i: forall("int", lambda j: implies(
                0 <= i and i < j and j < len(_yielded) - _i, _yielded[i][0] != _yielded[j][0])))
            and forall("int", lambda j: implies(len(_yielded) - _i <= j and j < len(_yielded),
                                                _yielded[j][0] == paths[_seq[j - (len(_yielded) - _i)][0]]))
            and len(_seq) == len(keys_list(paths))
            and forall("int", lambda j: implies(0 <= j and j < len(_seq),
                                                _seq[j][0] == keys_list(paths)[j]
                                                and _seq[j][1] == resource_at(posixpath.normpath(_seq[j][0]))))
            and forall("str", lambda p: implies(p in paths,
                                                path_of(environ["SCRIPT_NAME"], paths[p]) == p
                                                and exists("int", lambda i: 0 <= i and i < len(hrefs) and hrefs[i] == paths[p])))
            and forall("int", lambda j: implies(
                0 <= j and j < len(_yielded),
                exists("int", lambda i: 0 <= i and i < len(hrefs) and hrefs[i] == _yielded[j][0])
                and _yielded[j][1] == (None if path_of(environ["SCRIPT_NAME"], _yielded[j][0]) is None
                                       else resource_at(posixpath.normpath(path_of(environ["SCRIPT_NAME"], _yielded[j][0])))))))


# ---------------------------------------------------------------------------- traversal (C16)
ghost("members_of", ["opaque:Resource"], "list[tuple[str,opaque:Resource]]")


@contract("iface:Resource.members", params={"self": "opaque:Resource"},
          returns="list[tuple[str,opaque:Resource]]", assumed=True)
class Resource_members:
    def ensures(self, result):
        return result == members_of(self)


def is_collection(r):
    return "{DAV:}collection" in r.resource_types


def own_href(r, h):
    return (h if h.endswith("/") else h + "/") if is_collection(r) else h


@contract("xandikos.webdav.traverse_resource",
          params={"base_resource": "opaque:Resource", "base_href": "str", "depth": "str", "members": "none"},
          defaults={"members": None},
          returns="list[tuple[str,opaque:Resource]]", yields="tuple[str,opaque:Resource]",
          locals={"todo": "list[tuple[str,opaque:Resource,str]]", "href": "str", "resource": "opaque:Resource",
                  "nextdepth": "str", "child_href": "str", "child_name": "str", "child_resource": "opaque:Resource"},
          loop_modifies={0: ["todo"], 1: ["todo"]})
class traverse_resource_c:
    """C16: Depth 0 describes exactly the addressed resource; Depth 1 additionally exactly its
    direct members, each once, in members() order; collection hrefs end in '/'; the href of a
    member is the collection's href followed by the member's name (so that, percent-quoted
    by create_href and decoded by the server, it addresses that member: Lemma C16)."""

    def requires(base_resource, base_href, depth):
        return depth == "0" or depth == "1"

    def ensures(base_resource, base_href, depth, result):
        h = own_href(base_resource, base_href)
        ms = members_of(base_resource)
        deep = depth == "1" and is_collection(base_resource)
        return (len(result) == (1 + len(ms) if deep else 1)
                and result[0][0] == h and result[0][1] == base_resource
                and implies(deep, forall("int", lambda k: implies(
                    0 <= k and k < len(ms),
                    result[1 + k][0] == own_href(ms[k][1], h + ms[k][0]) and result[1 + k][1] == ms[k][1]))))

    def inv_0(base_resource, base_href, depth, todo, _yielded):
        h = own_href(base_resource, base_href)
        ms = members_of(base_resource)
        k = len(_yielded) - 1
        return ((len(_yielded) == 0 and len(todo) == 1 and todo[0][0] == base_href and todo[0][1] == base_resource
                 and todo[0][2] == old(depth))
                or (len(_yielded) >= 1
                    and _yielded[0][0] == h and _yielded[0][1] == base_resource
                    and (len(todo) == 0 and k == 0 if not (old(depth) == "1" and is_collection(base_resource))
                         else (k <= len(ms) and len(todo) == len(ms) - k
                               and forall("int", lambda j: implies(0 <= j and j < len(todo),
                                                                   todo[j][0] == h + ms[k + j][0]
                                                                   and todo[j][1] == ms[k + j][1] and todo[j][2] == "0"))))
                    and forall("int", lambda j: implies(0 <= j and j < k,
                                                        _yielded[1 + j][0] == own_href(ms[j][1], h + ms[j][0])
                                                        and _yielded[1 + j][1] == ms[j][1]))))

    def inv_1(base_resource, base_href, depth, todo, href, resource, nextdepth, _i, _seq, _yielded):
        h = own_href(base_resource, base_href)
        return (_seq == members_of(base_resource) and resource == base_resource and href == h and nextdepth == "0"
                and len(_yielded) == 1 and _yielded[0][0] == h and _yielded[0][1] == base_resource
                and len(todo) == _i
                and forall("int", lambda j: implies(0 <= j and j < _i,
                                                    todo[j][0] == h + _seq[j][0] and todo[j][1] == _seq[j][1]
                                                    and todo[j][2] == "0")))
