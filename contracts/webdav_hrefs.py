"""C16/C17: href construction and parsing.

emit:  text = quote(path)                     (create_href)
parse: path = unquote(path-component(text))   (read_href_element), then SCRIPT_NAME is
       stripped (href_to_path).   Round trip: parse(emit(p)) == p for every plain absolute
       path p (member names with ' ', '%', '#', '?', ';', '+', non-ASCII included)."""


def plain_abs_path(p):
    return p.startswith("/") and not p.startswith("//")


@contract("xandikos.webdav.ensure_trailing_slash", params={"href": "str"}, returns="str")
class ensure_trailing_slash_c:
    def ensures(href, result):
        return result == (href if href.endswith("/") else href + "/")


@contract("xandikos.webdav.create_href", params={"href": "str", "base_href": "opt[str]"},
          returns="obj:xml.Element")
class create_href_c:
    def requires(base_href):
        return base_href is None

    def ensures(href, result):
        return result.tag == "{DAV:}href" and result.text == urllib.parse.quote(href)


@contract("xandikos.webdav.read_href_element", params={"et": "opaque:Element"}, returns="opt[str]")
class read_href_element_c:
    """The path the reference denotes: the path component of the reference (everything
    before the first '?' or '#', after scheme://authority), percent-decoded."""

    def ensures(et, result):
        return ((et.text is None) == (result is None)
                and implies(et.text is not None,
                            result == urllib.parse.unquote(urllib.parse.urlsplit(et.text).path)))

    def ensures_roundtrip(et, result):
        # Lemma C16/C17: what create_href emits for a plain absolute path parses back to it
        return forall("str", lambda p: implies(plain_abs_path(p) and et.text == urllib.parse.quote(p), result == p))


def spec_href_to_path(environ, href):
    script = environ["SCRIPT_NAME"].rstrip("/")
    rest = href[len(script):]
    return None if (href is None or href == "" or not href.startswith(script)) else (
        rest if rest.startswith("/") else "/" + rest)


@contract("xandikos.webdav.href_to_path", params={"environ": "dict[str,str]", "href": "opt[str]"},
          returns="opt[str]")
class href_to_path_c:
    def requires(environ):
        return "SCRIPT_NAME" in environ

    def ensures(environ, href, result):
        return result == spec_href_to_path(environ, href)

    def ensures_roundtrip(environ, href, result):
        # an href the server emitted for relative path p (SCRIPT_NAME-stripped + p) maps back to p
        script = environ["SCRIPT_NAME"].rstrip("/")
        return forall("str", lambda p: implies(p.startswith("/") and href == script + p, result == p))


@contract("xandikos.webdav.Backend.get_resources",
          params={"self": "obj:xandikos.web.XandikosBackend", "relpaths": "dict[str,opt[str]]"},
          returns="list[tuple[str,opt[opaque:Resource]]]")
class Backend_get_resources_c:
    """One (relpath, resource-or-None) per key, in the dictionary's enumeration order; the
    resource is what get_resource returns for that path (named resource_at)."""

    def ensures(self, relpaths, result):
        return (len(result) == len(keys_list(relpaths))
                and forall("int", lambda j: implies(
                    0 <= j and j < len(result),
                    result[j][0] == keys_list(relpaths)[j]
                    and result[j][1] == resource_at(posixpath.normpath(result[j][0])))))


def one_spelling_per_path(environ, hrefs):
    return forall("int", "int", lambda a, b: implies(
        0 <= a and a < len(hrefs) and 0 <= b and b < len(hrefs)
        and spec_href_to_path(environ, hrefs[a]) is not None
        and spec_href_to_path(environ, hrefs[a]) == spec_href_to_path(environ, hrefs[b]),
        hrefs[a] == hrefs[b]))


@contract("xandikos.webdav._get_resources_by_hrefs",
          params={"backend": "obj:xandikos.web.XandikosBackend", "environ": "dict[str,str]", "hrefs": "list[opt[str]]"},
          returns="list[tuple[opt[str],opt[opaque:Resource]]]", yields="tuple[opt[str],opt[opaque:Resource]]",
          locals={"paths": "dict[str,opt[str]]"}, loop_modifies={0: ["paths"]})
class get_resources_by_hrefs_c:
    """C17: every requested href is answered with the resource it addresses (None when it is
    outside the server's namespace or nothing is there); the answer for one href does not
    depend on the others.  'Exactly once' is NOT discharged here (nested quantifier
    alternation over two loops left z3 undecided): it is covered only by the bounded HTTP
    stand-in; the two ways the code can deviate from it are listed as known findings."""

    def requires(environ):
        return "SCRIPT_NAME" in environ

    def ensures_each_answer_is_right(backend, environ, hrefs, result):
        return forall("int", lambda j: implies(
            0 <= j and j < len(result),
            exists("int", lambda i: 0 <= i and i < len(hrefs) and hrefs[i] == result[j][0])
            and result[j][1] == (None if spec_href_to_path(environ, result[j][0]) is None
                                 else resource_at(posixpath.normpath(spec_href_to_path(environ, result[j][0]))))))

    def ensures_every_href_answered(backend, environ, hrefs, result):
        # case split (DESIGN 2.4): provable when no two *different* hrefs address the same path
        return implies(one_spelling_per_path(environ, hrefs), forall("int", lambda i: implies(
            0 <= i and i < len(hrefs),
            exists("int", lambda j: 0 <= j and j < len(result) and result[j][0] == hrefs[i]))))

    def inv_0(backend, environ, hrefs, paths, _i, _seq, _yielded):
        return (
            # yielded so far: exactly the out-of-namespace hrefs among the first _i
            forall("int", lambda j: implies(0 <= j and j < len(_yielded),
                                            _yielded[j][1] is None
                                            and spec_href_to_path(environ, _yielded[j][0]) is None
                                            and exists("int", lambda i: 0 <= i and i < _i and hrefs[i] == _yielded[j][0])))
            and forall("int", lambda i: implies(0 <= i and i < _i and spec_href_to_path(environ, hrefs[i]) is None,
                                                exists("int", lambda j: 0 <= j and j < len(_yielded)
                                                       and _yielded[j][0] == hrefs[i])))
            # paths: path -> an href among the first _i that maps to it
            and forall("str", lambda p: implies(p in paths,
                                                spec_href_to_path(environ, paths[p]) == p
                                                and exists("int", lambda i: 0 <= i and i < _i and hrefs[i] == paths[p])))
            and forall("int", lambda i: implies(0 <= i and i < _i and spec_href_to_path(environ, hrefs[i]) is not None,
                                                spec_href_to_path(environ, hrefs[i]) in paths)))

    def inv_1(backend, environ, hrefs, paths, _i, _seq, _yielded):
        return (
            len(_seq) == len(keys_list(paths))
            and forall("int", lambda j: implies(0 <= j and j < len(_seq),
                                                _seq[j][0] == keys_list(paths)[j]
                                                and _seq[j][1] == resource_at(posixpath.normpath(_seq[j][0]))))
            and forall("str", lambda p: implies(p in paths,
                                                spec_href_to_path(environ, paths[p]) == p
                                                and exists("int", lambda i: 0 <= i and i < len(hrefs) and hrefs[i] == paths[p])))
            and forall("int", lambda i: implies(0 <= i and i < len(hrefs) and spec_href_to_path(environ, hrefs[i]) is not None,
                                                spec_href_to_path(environ, hrefs[i]) in paths))
            # yielded: the out-of-namespace answers, then one answer per processed path
            and forall("int", lambda j: implies(
                0 <= j and j < len(_yielded),
                exists("int", lambda i: 0 <= i and i < len(hrefs) and hrefs[i] == _yielded[j][0])
                and _yielded[j][1] == (None if spec_href_to_path(environ, _yielded[j][0]) is None
                                       else resource_at(posixpath.normpath(spec_href_to_path(environ, _yielded[j][0]))))
                and implies(spec_href_to_path(environ, _yielded[j][0]) is not None,
                            idx_of(paths, spec_href_to_path(environ, _yielded[j][0])) < _i
                            and paths[spec_href_to_path(environ, _yielded[j][0])] == _yielded[j][0])))
            and forall("int", lambda i: implies(0 <= i and i < len(hrefs) and spec_href_to_path(environ, hrefs[i]) is None,
                                                exists("int", lambda j: 0 <= j and j < len(_yielded)
                                                       and _yielded[j][0] == hrefs[i])))
            and forall("str", lambda p: implies(p in paths and idx_of(paths, p) < _i,
                                                exists("int", lambda j: 0 <= j and j < len(_yielded)
                                                       and _yielded[j][0] == paths[p]))))
