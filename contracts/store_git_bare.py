"""C01/C02/C08/C09: BareGitStore against the dulwich repository model.

For a BareGitStore the abstract member map is *defined* from the repository:
ghost_M = bare_view(self) = the entries of the tree of the commit the ref points to
(without the .xandikos metadata entry), names and ids decoded.  The interface contracts
of GitStore (stated over ghost_M) therefore read, for this class, as statements about
the repository."""

fields("xandikos.store.git.BareGitStore", {
    "repo": "obj:dulwich.repo.Repo",
    "ref": "bytes",
    "extra_file_handlers": "opaque:Handlers",
    "_uid_to_fname": "dict[str,tuple[str,str]]",
    "_fname_to_uid": "dict[str,tuple[str,opt[str]]]",
    "_check_for_duplicate_uids": "bool",
})
view("xandikos.store.git.BareGitStore", "ghost_M", "bare_view")


def rep_bare(repo):
    """RepBare: the ref's commit, its tree and every blob the tree lists are in the object
    store (`git fsck` finds nothing missing)."""
    return ((repo_head(repo) is None) == (repo_ncommits(repo) == 0)
            and repo_ncommits(repo) >= 0
            and implies(repo_head(repo) is not None,
                        repo_has(repo, repo_head(repo)) and kind_of(repo_head(repo)) == 3
                        and repo_has(repo, commit_tree(repo_head(repo)))
                        and kind_of(commit_tree(repo_head(repo))) == 2)
            and forall("bytes", lambda k: implies(k in head_tree_entries(repo),
                                                  repo_has(repo, head_tree_entries(repo)[k][0])
                                                  and kind_of(head_tree_entries(repo)[k][0]) == 1
                                                  # every entry is a regular file, as xandikos writes them
                                                  and head_tree_entries(repo)[k][1] == 33188)))


@contract("xandikos.store.git.BareGitStore._import_one",
          params={"self": "obj:xandikos.store.git.BareGitStore", "name": "str", "data": "opaque:Chunks",
                  "message": "str", "author": "opt[str]"},
          returns="bytes", modifies=["self.repo"])
class Bare_import_one:
    def requires(self, name):
        return rep_bare(self.repo) and name != ".xandikos"

    def ensures(self, name, data, result):
        # the interface contract GitStore._import_one with ghost_M = bare_view(self)
        return (result == blob_id(data)
                and repo_has(self.repo, result)
                and self.ghost_M == old(self.ghost_M).put(name, result.decode("ascii")))

    def ensures_history(self, name, data, result):
        # C09: exactly one commit iff the tree changed; parent = previous head; nothing dropped
        changed = old(self.ghost_M).get(name) != result.decode("ascii")
        return (rep_bare(self.repo)
                and forall("bytes", lambda o: implies(o in old(repo_objects(self.repo)), o in repo_objects(self.repo)))
                and implies(not changed, repo_head(self.repo) == old(repo_head(self.repo))
                            and repo_ncommits(self.repo) == old(repo_ncommits(self.repo)))
                and implies(changed, repo_ncommits(self.repo) == old(repo_ncommits(self.repo)) + 1
                            and commit_parent(repo_head(self.repo)) == old(repo_head(self.repo))))


def repo_unchanged_but_objects(self):
    """Reads may add the (empty) tree object to the store; nothing observable changes."""
    return (self.ghost_M == old(self.ghost_M)
            and repo_head(self.repo) == old(repo_head(self.repo))
            and repo_ncommits(self.repo) == old(repo_ncommits(self.repo))
            and forall("bytes", lambda o: implies(o in old(repo_objects(self.repo)), o in repo_objects(self.repo))))


@contract("xandikos.store.git.BareGitStore._get_etag",
          params={"self": "obj:xandikos.store.git.BareGitStore", "name": "str"}, returns="str",
          modifies=["self.repo"], modifies_on_raise=["self.repo"])
class Bare_get_etag:
    """Refines GitStore._get_etag with ghost_M = bare_view(self)."""

    def requires(self, name):
        return rep_bare(self.repo) and name != ".xandikos"

    def raises_KeyError(self, name):
        return name not in self.ghost_M

    def ensures(self, name, result):
        return result == self.ghost_M[name] and repo_unchanged_but_objects(self)

    def ensures_raise(self):
        return repo_unchanged_but_objects(self)


@contract("xandikos.store.git.BareGitStore.get_ctag",
          params={"self": "obj:xandikos.store.git.BareGitStore"}, returns="str", modifies=["self.repo"])
class Bare_get_ctag:
    """C08: the tag is the hash of the whole current tree (members and metadata entry).
    C07: the tree it names is in the object store, so the tag can be presented later."""

    def requires(self):
        return rep_bare(self.repo)

    def ensures(self, result):
        return (result == tree_id_of(head_tree_entries(self.repo)).decode("ascii")
                and repo_has(self.repo, tree_id_of(head_tree_entries(self.repo)))
                and self.ghost_M == old(self.ghost_M)
                and repo_head(self.repo) == old(repo_head(self.repo))
                and repo_ncommits(self.repo) == old(repo_ncommits(self.repo))
                and forall("bytes", lambda o: implies(o in old(repo_objects(self.repo)), o in repo_objects(self.repo))))


@contract("xandikos.store.git.BareGitStore.delete_one",
          params={"self": "obj:xandikos.store.git.BareGitStore", "name": "str", "message": "opt[str]",
                  "author": "opt[str]", "etag": "opt[str]"},
          modifies=["self.repo"], modifies_on_raise=["self.repo"])
class Bare_delete_one:
    def requires(self, name, etag):
        # etag arguments are object ids (ASCII hex) taken from an earlier listing (call sites:
        # StoreBasedCollection.delete_member passes the resource's current etag)
        return rep_bare(self.repo) and name != ".xandikos" and (etag is None or is_ascii(etag))

    def raises_NoSuchItem(self, name):
        return name not in self.ghost_M

    def raises_InvalidETag(self, name, etag):
        return name in self.ghost_M and etag is not None and self.ghost_M[name] != etag

    def ensures(self, name):
        return self.ghost_M == old(self.ghost_M).without(name)

    def ensures_raise(self):
        # a refused delete changes nothing (C01/C03)
        return repo_unchanged_but_objects(self) and rep_bare(self.repo)

    def ensures_history(self, name):
        return (rep_bare(self.repo)
                and forall("bytes", lambda o: implies(o in old(repo_objects(self.repo)), o in repo_objects(self.repo)))
                and repo_ncommits(self.repo) == old(repo_ncommits(self.repo)) + 1
                and commit_parent(repo_head(self.repo)) == old(repo_head(self.repo)))

view("xandikos.store.git.BareGitStore", "ghost_locked", "false_view")

view("xandikos.store.git.BareGitStore", "ghost_trees", "trees_view")


view("xandikos.store.git.BareGitStore", "ghost_cfg", "bare_cfg_view")


@contract("xandikos.store.git.BareGitStore._import_one", variant="metadata", when={"name": ".xandikos"},
          params={"self": "obj:xandikos.store.git.BareGitStore", "name": "str", "data": "opaque:Chunks",
                  "message": "str", "author": "opt[str]"},
          returns="bytes", modifies=["self.repo"])
class Bare_import_one_metadata:
    """C15 (persist step of the versioned metadata file): storing `.xandikos` makes exactly
    these bytes the collection's metadata entry, changes no member, and is one commit iff the
    bytes differ from what is stored."""

    def requires(self, name):
        return rep_bare(self.repo) and name == ".xandikos"

    def ensures(self, name, data, result):
        return (result == blob_id(data)
                and repo_has(self.repo, result)
                and self.ghost_cfg == result.decode("ascii")
                and self.ghost_M == old(self.ghost_M))

    def ensures_history(self, name, data, result):
        changed = old(self.ghost_cfg) != result.decode("ascii")
        return (rep_bare(self.repo)
                and forall("bytes", lambda o: implies(o in old(repo_objects(self.repo)), o in repo_objects(self.repo)))
                and implies(not changed, repo_head(self.repo) == old(repo_head(self.repo))
                            and repo_ncommits(self.repo) == old(repo_ncommits(self.repo)))
                and implies(changed, repo_ncommits(self.repo) == old(repo_ncommits(self.repo)) + 1
                            and commit_parent(repo_head(self.repo)) == old(repo_head(self.repo))))
