"""C01/C02/C04/C08/C09: TreeGitStore (non-bare repository: index + work tree + HEAD).

ghost_M = tree_view(self) = the on-disk index without the .xandikos entry, decoded."""

fields("xandikos.store.git.TreeGitStore", {
    "repo": "obj:dulwich.repo.Repo",
    "ref": "bytes",
    "extra_file_handlers": "opaque:Handlers",
    "_uid_to_fname": "dict[str,tuple[str,str]]",
    "_fname_to_uid": "dict[str,tuple[str,opt[str]]]",
    "_check_for_duplicate_uids": "bool",
})
view("xandikos.store.git.TreeGitStore", "ghost_M", "tree_view")


def rep_tree(repo):
    """RepTree: index, HEAD and work tree agree and nothing is missing from the object store
    (this is what a clean `git status` and `git fsck` mean)."""
    return ((repo_head(repo) is None) == (repo_ncommits(repo) == 0)
            and repo_ncommits(repo) >= 0
            and implies(repo_head(repo) is not None,
                        repo_has(repo, repo_head(repo)) and kind_of(repo_head(repo)) == 3
                        and repo_has(repo, commit_tree(repo_head(repo)))
                        and commit_tree(repo_head(repo)) == tree_id_of(index_entries(repo)))
            and implies(repo_head(repo) is None, forall("bytes", lambda k: k not in index_entries(repo)))
            and forall("bytes", lambda k: implies(
                k in index_entries(repo),
                repo_has(repo, index_entries(repo)[k][0]) and kind_of(index_entries(repo)[k][0]) == 1
                and index_entries(repo)[k][1] == 33188
                and fs_has(repo.path, k.decode("utf-8"))
                and blob_id_bytes(fs_data(repo.path, k.decode("utf-8"))) == index_entries(repo)[k][0])))


@contract("xandikos.store.git.TreeGitStore._import_one",
          params={"self": "obj:xandikos.store.git.TreeGitStore", "name": "str", "data": "opaque:Chunks",
                  "message": "str", "author": "opt[str]"},
          returns="bytes", modifies=["self.repo", "fs()"])
class Tree_import_one:
    def requires(self, name):
        return (rep_tree(self.repo) and name != ".xandikos"
                and name not in fs_subdirs(self.repo.path))

    def raises_LockedError(self):
        # index.lock exists: answered 423, and (frame) nothing at all has changed
        return repo_locked(self.repo)

    def ensures(self, name, data, result):
        return (result == blob_id(data)
                and repo_has(self.repo, result)
                and self.ghost_M == old(self.ghost_M).put(name, result.decode("ascii")))

    def ensures_history(self, name, data, result):
        changed = old(self.ghost_M).get(name) != result.decode("ascii")
        return (rep_tree(self.repo)
                and not repo_locked(self.repo)
                and forall("bytes", lambda o: implies(o in old(repo_objects(self.repo)), o in repo_objects(self.repo)))
                and implies(not changed, repo_head(self.repo) == old(repo_head(self.repo))
                            and repo_ncommits(self.repo) == old(repo_ncommits(self.repo)))
                and implies(changed, repo_ncommits(self.repo) == old(repo_ncommits(self.repo)) + 1
                            and commit_parent(repo_head(self.repo)) == old(repo_head(self.repo))))

    def ensures_order(self, name, data, result):
        # C04: objects are in the store before the ref moves; the index is rewritten last
        changed = old(self.ghost_M).get(name) != result.decode("ascii")
        return (implies(changed, effect_names() == ["Acquire", "WriteFile", "AddObject", "AddObject", "Commit",
                                                    "WriteIndex", "Release"])
                and implies(not changed, effect_names() == ["Acquire", "WriteFile", "WriteIndex", "Release"]))
