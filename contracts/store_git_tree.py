"""C01/C02/C04/C08/C09: TreeGitStore (non-bare repository: index + work tree + HEAD).

ghost_M = tree_view(self) = the on-disk index without the .xandikos entry, decoded."""

fields("xandikos.store.git.TreeGitStore", {
    "repo": "obj:dulwich.repo.Repo",
    "ref": "bytes",
    "extra_file_handlers": "opaque:Handlers",
    "_uid_to_fname": "dict[str,tuple[str,str]]",
    "_fname_to_uid": "dict[str,tuple[str,opt[str]]]",
    "_check_for_duplicate_uids": "bool",
})
view("xandikos.store.git.TreeGitStore", "ghost_M", "tree_view")


def rep_tree(repo):
    """RepTree: index, HEAD and work tree agree and nothing is missing from the object store
    (this is what a clean `git status` and `git fsck` mean)."""
    return ((repo_head(repo) is None) == (repo_ncommits(repo) == 0)
            and repo_ncommits(repo) >= 0
            and implies(repo_head(repo) is not None,
                        repo_has(repo, repo_head(repo)) and kind_of(repo_head(repo)) == 3
                        and repo_has(repo, commit_tree(repo_head(repo)))
                        and commit_tree(repo_head(repo)) == tree_id_of(index_entries(repo)))
            and implies(repo_head(repo) is None, forall("bytes", lambda k: k not in index_entries(repo)))
            and forall("bytes", lambda k: implies(
                k in index_entries(repo),
                repo_has(repo, index_entries(repo)[k][0]) and kind_of(index_entries(repo)[k][0]) == 1
                and index_entries(repo)[k][1] == 33188
                and fs_has(repo.path, k.decode("utf-8"))
                and blob_id_bytes(fs_data(repo.path, k.decode("utf-8"))) == index_entries(repo)[k][0]))
            # no untracked files in the work tree
            and forall("str", lambda n: implies(fs_has(repo.path, n), n.encode("utf-8") in index_entries(repo))))


@contract("xandikos.store.git.TreeGitStore._import_one",
          params={"self": "obj:xandikos.store.git.TreeGitStore", "name": "str", "data": "opaque:Chunks",
                  "message": "str", "author": "opt[str]"},
          returns="bytes", modifies=["self.repo", "fs()"])
class Tree_import_one:
    def requires(self, name):
        return (rep_tree(self.repo) and name != ".xandikos"
                and name not in fs_subdirs(self.repo.path))

    def raises_LockedError(self):
        # index.lock exists: answered 423, and (frame) nothing at all has changed
        return repo_locked(self.repo)

    def ensures(self, name, data, result):
        return (result == blob_id(data)
                and repo_has(self.repo, result)
                and self.ghost_M == old(self.ghost_M).put(name, result.decode("ascii")))

    def ensures_history(self, name, data, result):
        changed = old(self.ghost_M).get(name) != result.decode("ascii")
        return (rep_tree(self.repo)
                and not repo_locked(self.repo)
                and forall("bytes", lambda o: implies(o in old(repo_objects(self.repo)), o in repo_objects(self.repo)))
                and implies(not changed, repo_head(self.repo) == old(repo_head(self.repo))
                            and repo_ncommits(self.repo) == old(repo_ncommits(self.repo)))
                and implies(changed, repo_ncommits(self.repo) == old(repo_ncommits(self.repo)) + 1
                            and commit_parent(repo_head(self.repo)) == old(repo_head(self.repo))))

    def ensures_order(self, name, data, result):
        # C04: objects are in the store before the ref moves; the index is rewritten last
        changed = old(self.ghost_M).get(name) != result.decode("ascii")
        return (implies(changed, effect_names() == ["Acquire", "ReadIndex", "WriteFile", "AddObject", "AddObject",
                                                    "Commit", "WriteIndex", "Release"])
                and implies(not changed, effect_names() == ["Acquire", "ReadIndex", "WriteFile", "WriteIndex",
                                                            "Release"]))


@contract("xandikos.store.git.TreeGitStore._get_etag",
          params={"self": "obj:xandikos.store.git.TreeGitStore", "name": "str"}, returns="str")
class Tree_get_etag:
    def requires(self, name):
        return rep_tree(self.repo) and name != ".xandikos"

    def raises_KeyError(self, name):
        return name not in self.ghost_M

    def ensures(self, name, result):
        return result == self.ghost_M[name]


@contract("xandikos.store.git.TreeGitStore.get_ctag",
          params={"self": "obj:xandikos.store.git.TreeGitStore"}, returns="str", modifies=["self.repo"])
class Tree_get_ctag:
    """C08 + C07: the tag is the hash of the index as a tree, and that tree is in the object
    store afterwards (so the token can be presented later)."""

    def requires(self):
        return rep_tree(self.repo)

    def ensures(self, result):
        return (result == tree_id_of(index_entries(self.repo)).decode("ascii")
                and repo_has(self.repo, tree_id_of(index_entries(self.repo)))
                and self.ghost_M == old(self.ghost_M)
                and index_entries(self.repo) == old(index_entries(self.repo))
                and repo_head(self.repo) == old(repo_head(self.repo))
                and repo_ncommits(self.repo) == old(repo_ncommits(self.repo))
                and forall("bytes", lambda o: implies(o in old(repo_objects(self.repo)), o in repo_objects(self.repo))))


@contract("xandikos.store.git.TreeGitStore.delete_one",
          params={"self": "obj:xandikos.store.git.TreeGitStore", "name": "str", "message": "opt[str]",
                  "author": "opt[str]", "etag": "opt[str]"},
          modifies=["self.repo", "fs()"])
class Tree_delete_one:
    def requires(self, name, etag):
        return (rep_tree(self.repo) and name != ".xandikos"
                and (etag is None or is_ascii(etag)))

    def raises_NoSuchItem(self, name):
        return name not in self.ghost_M

    def raises_InvalidETag(self, name, etag):
        return name in self.ghost_M and etag is not None and self.ghost_M[name] != etag

    def raises_LockedError(self, name, etag):
        return (name in self.ghost_M and not (etag is not None and self.ghost_M[name] != etag)
                and repo_locked(self.repo))

    def ensures(self, name):
        return self.ghost_M == old(self.ghost_M).without(name)

    def ensures_history(self, name):
        return (rep_tree(self.repo)
                and not repo_locked(self.repo)
                and forall("bytes", lambda o: implies(o in old(repo_objects(self.repo)), o in repo_objects(self.repo)))
                and repo_ncommits(self.repo) == old(repo_ncommits(self.repo)) + 1
                and commit_parent(repo_head(self.repo)) == old(repo_head(self.repo)))

view("xandikos.store.git.TreeGitStore", "ghost_locked", "tree_locked_view")

view("xandikos.store.git.TreeGitStore", "ghost_trees", "trees_view")


view("xandikos.store.git.TreeGitStore", "ghost_cfg", "tree_cfg_view")


@contract("xandikos.store.git.TreeGitStore._import_one", variant="metadata", when={"name": ".xandikos"},
          params={"self": "obj:xandikos.store.git.TreeGitStore", "name": "str", "data": "opaque:Chunks",
                  "message": "str", "author": "opt[str]"},
          returns="bytes", modifies=["self.repo", "fs()"])
class Tree_import_one_metadata:
    """C15 (persist step of the versioned metadata file), C04 (same write order as a member)."""

    def requires(self, name):
        return (rep_tree(self.repo) and name == ".xandikos"
                and name not in fs_subdirs(self.repo.path))

    def raises_LockedError(self):
        return repo_locked(self.repo)

    def ensures(self, name, data, result):
        return (result == blob_id(data)
                and repo_has(self.repo, result)
                and self.ghost_cfg == result.decode("ascii")
                and self.ghost_M == old(self.ghost_M))

    def ensures_history(self, name, data, result):
        changed = old(self.ghost_cfg) != result.decode("ascii")
        return (rep_tree(self.repo)
                and not repo_locked(self.repo)
                and forall("bytes", lambda o: implies(o in old(repo_objects(self.repo)), o in repo_objects(self.repo)))
                and implies(not changed, repo_head(self.repo) == old(repo_head(self.repo))
                            and repo_ncommits(self.repo) == old(repo_ncommits(self.repo)))
                and implies(changed, repo_ncommits(self.repo) == old(repo_ncommits(self.repo)) + 1
                            and commit_parent(repo_head(self.repo)) == old(repo_head(self.repo))))

    def ensures_order(self, name, data, result):
        changed = old(self.ghost_cfg) != result.decode("ascii")
        return (implies(changed, effect_names() == ["Acquire", "ReadIndex", "WriteFile", "AddObject", "AddObject",
                                                    "Commit", "WriteIndex", "Release"])
                and implies(not changed, effect_names() == ["Acquire", "ReadIndex", "WriteFile", "WriteIndex",
                                                            "Release"]))
