"""C14: a calendar object with a forbidden control character in any text value of any
(sub-)component, at any depth, is refused."""

opaque("ICalComp", attrs={"subcomponents": "list[opaque:ICalComp]", "required": "list[str]", "errors": "list[str]"})
opaque("PropVal")
ghost("comp_items", ["opaque:ICalComp"], "list[tuple[str,opaque:PropVal]]")
ghost("has_char", ["opaque:PropVal", "str"], "bool")
ghost("tree_clean", ["opaque:ICalComp"], "bool")


@contract("iface:ICalComp.items", params={"self": "opaque:ICalComp"}, returns="list[tuple[str,opaque:PropVal]]",
          assumed=True)
class ICalComp_items:
    def ensures(self, result):
        return result == comp_items(self)


@contract("iface:PropVal.__contains__", params={"self": "opaque:PropVal", "c": "str"}, returns="bool", assumed=True)
class PropVal_contains:
    def ensures(self, c, result):
        return result == has_char(self, c)


def value_clean(v):
    return not (is_instance(v, "icalendar.prop.vText") and (has_char(v, "\x0c") or has_char(v, "\x01")))


def own_clean(comp):
    return all(value_clean(item[1]) for item in comp_items(comp))


@contract("xandikos.icalendar.validate_component",
          params={"comp": "opaque:ICalComp", "strict": "bool"}, defaults={"strict": False},
          returns="list[str]", yields="str")
class validate_component_c:
    """Returns no error message  <=>  this component and all its sub-components, recursively,
    are free of forbidden control characters (tree_clean, defined by unfolding below)."""

    def requires(strict):
        return not strict

    def define_tree_clean(comp):
        return forall("opaque:ICalComp", lambda c: tree_clean(c) == (
            own_clean(c) and all(tree_clean(s) for s in c.subcomponents)))

    def ensures(comp, result):
        return (len(result) == 0) == tree_clean(comp)

    def inv_0(comp, _i, _seq, _yielded):
        return (_seq == comp_items(comp)
                and (len(_yielded) == 0) == all(value_clean(item[1]) for item in _seq[:_i]))

    # loop 1 (over the two forbidden characters, a concrete list) is unrolled; loop 2 is the
    # strict-mode branch (excluded by requires)
    def inv_3(comp, _i, _seq, _yielded):
        return (_seq == comp.subcomponents
                and (len(_yielded) == 0) == (own_clean(comp) and all(tree_clean(s) for s in _seq[:_i])))


fields("xandikos.icalendar.ICalendarFile", {"content": "opaque:Chunks", "content_type": "str",
                                            "_calendar": "opt[opaque:ICalComp]"})
ghost("ical_parses", ["bytes"], "bool")
ghost("ical_parsed", ["bytes"], "opaque:ICalComp")


@contract("xandikos.icalendar.ICalendarFile.validate", params={"self": "obj:xandikos.icalendar.ICalendarFile"},
          modifies=["self._calendar"], modifies_on_raise=["self._calendar"])
class ICalendarFile_validate_c:
    """C14: refused (InvalidFileContents) unless the body parses as an iCalendar object without
    parser errors and no text value anywhere in it contains a forbidden control character."""

    def requires(self):
        return self._calendar is None

    def define_tree_clean(self):
        return forall("opaque:ICalComp", lambda c: tree_clean(c) == (
            own_clean(c) and all(tree_clean(s) for s in c.subcomponents)))

    def raises_InvalidFileContents(self):
        b = joined(self.content)
        return not (ical_parses(b) and len(ical_parsed(b).errors) == 0 and tree_clean(ical_parsed(b)))


fields("xandikos.vcard.VCardFile", {"content": "opaque:Chunks", "content_type": "str", "_addressbook": "opt[opaque:VObj]"})
opaque("VObj")
ghost("vobj_parses", ["str"], "bool")
ghost("vobj_parsed", ["str"], "opaque:VObj")
ghost("vobj_valid", ["opaque:VObj"], "bool")


@contract("iface:VObj.validate", params={"self": "opaque:VObj"}, returns="bool", assumed=True)
class VObj_validate:
    def ensures(self, result):
        return result == vobj_valid(self)


def vcard_framed(c):
    return (c.startswith(b"BEGIN:VCARD\r\n") or c.startswith(b"BEGIN:VCARD\n")) and c.endswith(b"\nEND:VCARD")


@contract("xandikos.vcard.VCardFile.validate", params={"self": "obj:xandikos.vcard.VCardFile"},
          modifies=["self._addressbook"], modifies_on_raise=["self._addressbook"])
class VCardFile_validate_c:
    """C14: a card without BEGIN:VCARD / END:VCARD framing, or one vobject cannot parse or
    validate, is refused."""

    def requires(self):
        return self._addressbook is None

    def raises_InvalidFileContents(self):
        raw = joined(self.content)
        text = raw.decode("utf-8", "surrogateescape")
        return not (vcard_framed(raw.strip()) and vobj_parses(text) and vobj_valid(vobj_parsed(text)))


opaque("ICalSub", attrs={})
ghost("comp_uid", ["opaque:ICalComp"], "opt[str]")


@contract("iface:ICalComp.__getitem__", params={"self": "opaque:ICalComp", "key": "str"}, returns="str", assumed=True)
class ICalComp_getitem:
    def requires(self, key):
        return key == "UID"

    def raises_KeyError(self, key):
        return comp_uid(self) is None

    def ensures(self, key, result):
        return result == comp_uid(self)


@contract("xandikos.icalendar.ICalendarFile.get_uid", params={"self": "obj:xandikos.icalendar.ICalendarFile"},
          returns="str", modifies=["self._calendar"], modifies_on_raise=["self._calendar"],
          may_raise=["InvalidFileContents"])
class ICalendarFile_get_uid_c:
    """C06: *the* UID of a calendar object resource is the UID of the first sub-component that
    has one; KeyError when none has."""

    def requires(self):
        return self._calendar is None

    def raises_KeyError(self):
        b = joined(self.content)
        return ical_parses(b) and all(comp_uid(c) is None for c in ical_parsed(b).subcomponents)

    def ensures(self, result):
        subs = ical_parsed(joined(self.content)).subcomponents
        return exists("int", lambda j: 0 <= j and j < len(subs) and comp_uid(subs[j]) == result
                      and all(comp_uid(c) is None for c in subs[:j]))

    def inv_0(self, _i, _seq):
        return (_seq == ical_parsed(joined(self.content)).subcomponents
                and all(comp_uid(c) is None for c in _seq[:_i]))
