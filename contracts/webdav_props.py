"""C02 / C16 / C18: live properties that carry an etag or an href.

create_href(href, base): the emitted text is quote(urljoin(base + '/', href)); for a relative
reference that is a plain path (what the principal / home-set properties pass) and a plain
absolute base (SCRIPT_NAME, the principal's href) that is base/ + href - so a client resolving
and unquoting it arrives below the route prefix (ASSUMED urljoin axiom, conformance checked)."""


def slash(s):
    return s if s.endswith("/") else s + "/"


def plain_base(b):
    return (b.startswith("/") and not b.startswith("//") and "?" not in b and "#" not in b and ";" not in b
            and not has_dotdot_seg(b) and not has_dot_seg(b))


@contract("xandikos.webdav.create_href", variant="based", params={"href": "str", "base_href": "str"},
          returns="obj:xml.Element")
class create_href_based_c:
    def requires(href, base_href):
        return plain_base(slash(base_href)) and looks_relative_segment(href)

    def ensures(href, base_href, result):
        return result.tag == "{DAV:}href" and result.text == urllib.parse.quote(slash(base_href) + href)


@contract("xandikos.webdav.GetETagProperty.get_value",
          params={"self": "obj:xandikos.webdav.GetETagProperty", "href": "str", "resource": "opaque:Resource",
                  "el": "obj:xml.Element", "environ": "dict[str,str]"}, modifies=["el"])
class GetETagProperty_get_value_c:
    """C02: the getetag a PROPFIND shows is the resource's etag, verbatim."""

    def ensures(resource, el):
        return el.text == res_etag(resource) and effect_names() == []


opaque("PrincipalFn")
ghost("cup_of", ["opaque:PrincipalFn", "dict[str,str]"], "opt[str]")
fields("xandikos.webdav.CurrentUserPrincipalProperty", {"get_current_user_principal": "opaque:PrincipalFn"})


@contract("iface:PrincipalFn.__call__", params={"self": "opaque:PrincipalFn", "environ": "dict[str,str]"}, returns="opt[str]",
          assumed=True)
class PrincipalFn_call:
    def ensures(self, environ, result):
        return result == cup_of(self, environ)


def principal_ref(cup):
    # the configured principal path relative to the route prefix, as a collection reference
    return slash(cup.lstrip("/"))


@contract("xandikos.webdav.CurrentUserPrincipalProperty.get_value",
          params={"self": "obj:xandikos.webdav.CurrentUserPrincipalProperty", "href": "str", "resource": "opaque:Resource",
                  "el": "obj:xml.Element", "environ": "dict[str,str]"}, modifies=["el"])
class CurrentUserPrincipalProperty_get_value_c:
    """C16 / C18: current-user-principal is the configured principal path *below the route
    prefix* (SCRIPT_NAME), whatever the prefix is."""

    def requires(self, el, environ):
        cup = cup_of(self.get_current_user_principal, environ)
        return ("SCRIPT_NAME" in environ and len(el) == 0
                and implies(cup is not None,
                            plain_base(slash(environ["SCRIPT_NAME"])) and looks_relative_segment(principal_ref(cup))))

    def ensures_shape(self, el, environ):
        cup = cup_of(self.get_current_user_principal, environ)
        return len(el) == 1 and el[0].tag == ("{DAV:}unauthenticated" if cup is None else "{DAV:}href")

    def ensures_a_text(self, el, environ):
        # (stated separately and first: the href clause below is then discharged by the abstraction alone)
        cup = cup_of(self.get_current_user_principal, environ)
        return implies(cup is not None, el[0].text is not None)

    def ensures_href(self, el, environ):
        cup = cup_of(self.get_current_user_principal, environ)
        return implies(cup is not None,
                       el[0].text == urllib.parse.quote(slash(environ["SCRIPT_NAME"]) + principal_ref(cup)))
