"""RFC 4791 section 9.9 time-range tables as specification functions, and the
contracts of xandikos.icalendar.apply_time_range_*.

Top-level postconditions are the tables of DESIGN.md Appendix A (transcribed from
the RFC), not the code."""


def has(comp, name):
    return prop_of(comp, name) is not None


def ts(comp, name):
    return ts_of(prop_of(comp, name).dt)


def is_datetime(comp, name):
    return prop_of(comp, name).dt.time is not None


def dur(comp):
    return seconds(prop_of(comp, "DURATION").dt)


def rfc4791_vevent(start, end, comp):
    # rows with both DTEND and DURATION are invalid iCalendar: unconstrained (see requires)
    if has(comp, "DTEND"):
        return start < ts(comp, "DTEND") and end > ts(comp, "DTSTART")
    if has(comp, "DURATION"):
        if dur(comp) > 0:
            return start < ts(comp, "DTSTART") + dur(comp) and end > ts(comp, "DTSTART")
        return start <= ts(comp, "DTSTART") and end > ts(comp, "DTSTART")
    if is_datetime(comp, "DTSTART"):
        return start <= ts(comp, "DTSTART") and end > ts(comp, "DTSTART")
    return start < ts(comp, "DTSTART") + 86400 and end > ts(comp, "DTSTART")


def rfc4791_vjournal(start, end, comp):
    if is_datetime(comp, "DTSTART"):
        return start <= ts(comp, "DTSTART") and end > ts(comp, "DTSTART")
    return start < ts(comp, "DTSTART") + 86400 and end > ts(comp, "DTSTART")


def rfc4791_vtodo(start, end, comp):
    if has(comp, "DTSTART"):
        if has(comp, "DURATION") and not has(comp, "DUE"):
            return start <= ts(comp, "DTSTART") + dur(comp) and (
                end > ts(comp, "DTSTART") or end >= ts(comp, "DTSTART") + dur(comp))
        if has(comp, "DUE") and not has(comp, "DURATION"):
            return (start < ts(comp, "DUE") or start <= ts(comp, "DTSTART")) and (
                end > ts(comp, "DTSTART") or end >= ts(comp, "DUE"))
        return start <= ts(comp, "DTSTART") and end > ts(comp, "DTSTART")
    if has(comp, "DUE"):
        return start < ts(comp, "DUE") and end >= ts(comp, "DUE")
    if has(comp, "COMPLETED"):
        if has(comp, "CREATED"):
            return (start <= ts(comp, "CREATED") or start <= ts(comp, "COMPLETED")) and (
                end >= ts(comp, "CREATED") or end >= ts(comp, "COMPLETED"))
        return start <= ts(comp, "COMPLETED") and end >= ts(comp, "COMPLETED")
    if has(comp, "CREATED"):
        return end > ts(comp, "CREATED")
    return True


@contract("xandikos.icalendar.apply_time_range_vevent",
          params={"start": "int", "end": "int", "comp": "opaque:PropSource", "tzify": "opaque:Tzify"},
          returns="bool")
class vevent:
    def requires(start, end, comp):
        # start < end is asserted by caldav._parse_time_range; DTEND+DURATION is invalid iCalendar
        return start < end and not (has(comp, "DTEND") and has(comp, "DURATION"))

    def raises_MissingProperty(comp):
        return not has(comp, "DTSTART")

    def ensures(start, end, comp, result):
        return result == rfc4791_vevent(start, end, comp)


@contract("xandikos.icalendar.apply_time_range_vjournal",
          params={"start": "int", "end": "int", "comp": "opaque:PropSource", "tzify": "opaque:Tzify"},
          returns="bool")
class vjournal:
    def requires(start, end, comp):
        return start < end

    def raises_MissingProperty(comp):
        return not has(comp, "DTSTART")

    def ensures(start, end, comp, result):
        return result == rfc4791_vjournal(start, end, comp)


@contract("xandikos.icalendar.apply_time_range_vtodo",
          params={"start": "int", "end": "int", "comp": "opaque:PropSource", "tzify": "opaque:Tzify"},
          returns="bool")
class vtodo:
    def requires(start, end, comp):
        # rows the RFC table does not contain (invalid iCalendar): DURATION together with DUE,
        # DURATION without DTSTART
        return start < end and not (has(comp, "DURATION") and has(comp, "DUE")) and not (
            has(comp, "DURATION") and not has(comp, "DTSTART"))

    def ensures(start, end, comp, result):
        return result == rfc4791_vtodo(start, end, comp)


def rfc4791_vfreebusy(start, end, comp):
    # RFC 4791 9.9, VFREEBUSY: DTSTART and DTEND present -> (start <= DTEND) AND (end > DTSTART);
    # else some FREEBUSY period with (start < period-end) AND (end > period-start); else FALSE
    if has(comp, "DTSTART") and has(comp, "DTEND"):
        return start <= ts(comp, "DTEND") and end > ts(comp, "DTSTART")
    if has(comp, "FREEBUSY"):
        return any(start < p.end and end > p.start for p in periods_of(comp))
    return False


@contract("xandikos.icalendar.apply_time_range_vfreebusy",
          params={"start": "int", "end": "int", "comp": "opaque:PropSource", "tzify": "opaque:Tzify"},
          returns="bool", locals={"period": "opaque:Period"})
class vfreebusy:
    def requires(start, end):
        return start < end

    def ensures(start, end, comp, result):
        return result == rfc4791_vfreebusy(start, end, comp)

    def inv_0(start, end, comp, _i, _seq):
        return (_seq == (periods_of(comp) if has(comp, "FREEBUSY") else [])
                and not (has(comp, "DTSTART") and has(comp, "DTEND"))
                and not any(start < p.end and end > p.start for p in _seq[:_i]))
