"""C15: the property handlers between PROPFIND / PROPPATCH and a collection's metadata.

get_value puts exactly what the resource's getter answers into the element (KeyError = 404 for
the property, decided by the caller); set_value hands exactly the element's text to the
resource's setter, once, and does nothing else.  Resources are opaque here: res_meta names
what a getter answers, a setter call is recorded as the effect set_meta:<key> (the collection
classes' getters / setters are under contract in contracts/web_metadata.py)."""

ghost("res_meta", ["opaque:Resource", "str"], "opt[str]")


@contract("iface:Resource.get_displayname", params={"self": "opaque:Resource"}, returns="opt[str]", assumed=True)
class Resource_get_displayname_iface:
    def raises_KeyError(self):
        return res_meta(self, "displayname") is None

    def ensures(self, result):
        return result == res_meta(self, "displayname")


@contract("xandikos.webdav.DisplayNameProperty.get_value",
          params={"self": "obj:xandikos.webdav.DisplayNameProperty", "href": "str", "resource": "opaque:Resource",
                  "el": "obj:xml.Element", "environ": "dict[str,str]"}, modifies=["el"])
class DisplayNameProperty_get_value_c:
    def raises_KeyError(resource):
        return res_meta(resource, "displayname") is None

    def ensures(resource, el):
        return el.text == res_meta(resource, "displayname") and len(el) == old(len(el)) and effect_names() == []


@contract("iface:Resource.set_displayname", params={"self": "opaque:Resource", "value": "opt[str]"},
          effects=[["set_meta:displayname", "self", "value"]], assumed=True)
class Resource_set_displayname_iface:
    pass


@contract("xandikos.webdav.DisplayNameProperty.set_value",
          params={"self": "obj:xandikos.webdav.DisplayNameProperty", "href": "str", "resource": "opaque:Resource", "el": "obj:xml.Element"})
class DisplayNameProperty_set_value_c:
    def ensures(resource, el):
        return (effect_names() == ["set_meta:displayname"] and effect_arg(0, 1) == resource and effect_arg(0, 2) == el.text)


@contract("iface:Resource.get_comment", params={"self": "opaque:Resource"}, returns="opt[str]", assumed=True)
class Resource_get_comment_iface:
    def raises_KeyError(self):
        return res_meta(self, "comment") is None

    def ensures(self, result):
        return result == res_meta(self, "comment")


@contract("xandikos.webdav.CommentProperty.get_value",
          params={"self": "obj:xandikos.webdav.CommentProperty", "href": "str", "resource": "opaque:Resource",
                  "el": "obj:xml.Element", "environ": "dict[str,str]"}, modifies=["el"])
class CommentProperty_get_value_c:
    def raises_KeyError(resource):
        return res_meta(resource, "comment") is None

    def ensures(resource, el):
        return el.text == res_meta(resource, "comment") and len(el) == old(len(el)) and effect_names() == []


@contract("iface:Resource.set_comment", params={"self": "opaque:Resource", "value": "opt[str]"},
          effects=[["set_meta:comment", "self", "value"]], assumed=True)
class Resource_set_comment_iface:
    pass


@contract("xandikos.webdav.CommentProperty.set_value",
          params={"self": "obj:xandikos.webdav.CommentProperty", "href": "str", "resource": "opaque:Resource", "el": "obj:xml.Element"})
class CommentProperty_set_value_c:
    def ensures(resource, el):
        return (effect_names() == ["set_meta:comment"] and effect_arg(0, 1) == resource and effect_arg(0, 2) == el.text)


@contract("iface:Resource.get_calendar_order", params={"self": "opaque:Resource"}, returns="opt[str]", assumed=True)
class Resource_get_calendar_order_iface:
    def raises_KeyError(self):
        return res_meta(self, "calendar-order") is None

    def ensures(self, result):
        return result == res_meta(self, "calendar-order")


@contract("xandikos.caldav.CalendarOrderProperty.get_value",
          params={"self": "obj:xandikos.caldav.CalendarOrderProperty", "base_href": "str", "resource": "opaque:Resource",
                  "el": "obj:xml.Element", "environ": "dict[str,str]"}, modifies=["el"])
class CalendarOrderProperty_get_value_c:
    def raises_KeyError(resource):
        return res_meta(resource, "calendar-order") is None

    def ensures(resource, el):
        return el.text == res_meta(resource, "calendar-order") and len(el) == old(len(el)) and effect_names() == []


@contract("iface:Resource.set_calendar_order", params={"self": "opaque:Resource", "value": "opt[str]"},
          effects=[["set_meta:calendar-order", "self", "value"]], assumed=True)
class Resource_set_calendar_order_iface:
    pass


@contract("xandikos.caldav.CalendarOrderProperty.set_value",
          params={"self": "obj:xandikos.caldav.CalendarOrderProperty", "href": "str", "resource": "opaque:Resource", "el": "obj:xml.Element"})
class CalendarOrderProperty_set_value_c:
    def ensures(resource, el):
        return (effect_names() == ["set_meta:calendar-order"] and effect_arg(0, 1) == resource and effect_arg(0, 2) == el.text)


@contract("iface:Resource.get_calendar_color", params={"self": "opaque:Resource"}, returns="opt[str]", assumed=True)
class Resource_get_calendar_color_iface:
    def raises_KeyError(self):
        return res_meta(self, "calendar-color") is None

    def ensures(self, result):
        return result == res_meta(self, "calendar-color")


@contract("xandikos.caldav.CalendarColorProperty.get_value",
          params={"self": "obj:xandikos.caldav.CalendarColorProperty", "href": "str", "resource": "opaque:Resource",
                  "el": "obj:xml.Element", "environ": "dict[str,str]"}, modifies=["el"])
class CalendarColorProperty_get_value_c:
    def raises_KeyError(resource):
        return res_meta(resource, "calendar-color") is None

    def ensures(resource, el):
        return el.text == res_meta(resource, "calendar-color") and len(el) == old(len(el)) and effect_names() == []


@contract("iface:Resource.set_calendar_color", params={"self": "opaque:Resource", "value": "opt[str]"},
          effects=[["set_meta:calendar-color", "self", "value"]], assumed=True)
class Resource_set_calendar_color_iface:
    pass


@contract("xandikos.caldav.CalendarColorProperty.set_value",
          params={"self": "obj:xandikos.caldav.CalendarColorProperty", "href": "str", "resource": "opaque:Resource", "el": "obj:xml.Element"})
class CalendarColorProperty_set_value_c:
    def ensures(resource, el):
        return (effect_names() == ["set_meta:calendar-color"] and effect_arg(0, 1) == resource and effect_arg(0, 2) == el.text)


@contract("iface:Resource.get_addressbook_description", params={"self": "opaque:Resource"}, returns="opt[str]", assumed=True)
class Resource_get_addressbook_description_iface:
    def raises_KeyError(self):
        return res_meta(self, "addressbook-description") is None

    def ensures(self, result):
        return result == res_meta(self, "addressbook-description")


@contract("xandikos.carddav.AddressbookDescriptionProperty.get_value",
          params={"self": "obj:xandikos.carddav.AddressbookDescriptionProperty", "href": "str", "resource": "opaque:Resource",
                  "el": "obj:xml.Element", "environ": "dict[str,str]"}, modifies=["el"])
class AddressbookDescriptionProperty_get_value_c:
    def raises_KeyError(resource):
        return res_meta(resource, "addressbook-description") is None

    def ensures(resource, el):
        return el.text == res_meta(resource, "addressbook-description") and len(el) == old(len(el)) and effect_names() == []


@contract("iface:Resource.set_addressbook_description", params={"self": "opaque:Resource", "value": "opt[str]"},
          effects=[["set_meta:addressbook-description", "self", "value"]], assumed=True)
class Resource_set_addressbook_description_iface:
    pass


@contract("xandikos.carddav.AddressbookDescriptionProperty.set_value",
          params={"self": "obj:xandikos.carddav.AddressbookDescriptionProperty", "href": "str", "resource": "opaque:Resource", "el": "obj:xml.Element"})
class AddressbookDescriptionProperty_set_value_c:
    def ensures(resource, el):
        return (effect_names() == ["set_meta:addressbook-description"] and effect_arg(0, 1) == resource and effect_arg(0, 2) == el.text)


@contract("iface:Resource.get_addressbook_color", params={"self": "opaque:Resource"}, returns="opt[str]", assumed=True)
class Resource_get_addressbook_color_iface:
    def raises_KeyError(self):
        return res_meta(self, "addressbook-color") is None

    def ensures(self, result):
        return result == res_meta(self, "addressbook-color")


@contract("xandikos.infit.AddressbookColorProperty.get_value",
          params={"self": "obj:xandikos.infit.AddressbookColorProperty", "href": "str", "resource": "opaque:Resource",
                  "el": "obj:xml.Element", "environ": "dict[str,str]"}, modifies=["el"])
class AddressbookColorProperty_get_value_c:
    def raises_KeyError(resource):
        return res_meta(resource, "addressbook-color") is None

    def ensures(resource, el):
        return el.text == res_meta(resource, "addressbook-color") and len(el) == old(len(el)) and effect_names() == []


@contract("iface:Resource.set_addressbook_color", params={"self": "opaque:Resource", "value": "opt[str]"},
          effects=[["set_meta:addressbook-color", "self", "value"]], assumed=True)
class Resource_set_addressbook_color_iface:
    pass


@contract("xandikos.infit.AddressbookColorProperty.set_value",
          params={"self": "obj:xandikos.infit.AddressbookColorProperty", "href": "str", "resource": "opaque:Resource", "el": "obj:xml.Element"})
class AddressbookColorProperty_set_value_c:
    def ensures(resource, el):
        return (effect_names() == ["set_meta:addressbook-color"] and effect_arg(0, 1) == resource and effect_arg(0, 2) == el.text)


@contract("iface:Resource.get_calendar_description", params={"self": "opaque:Resource"}, returns="opt[str]", assumed=True)
class Resource_get_calendar_description_iface:
    def raises_KeyError(self):
        return res_meta(self, "calendar-description") is None

    def ensures(self, result):
        return result == res_meta(self, "calendar-description")


@contract("xandikos.caldav.CalendarDescriptionProperty.get_value",
          params={"self": "obj:xandikos.caldav.CalendarDescriptionProperty", "base_href": "str", "resource": "opaque:Resource",
                  "el": "obj:xml.Element", "environ": "dict[str,str]"}, modifies=["el"])
class CalendarDescriptionProperty_get_value_c:
    def raises_KeyError(resource):
        return res_meta(resource, "calendar-description") is None

    def ensures(resource, el):
        return el.text == res_meta(resource, "calendar-description") and len(el) == old(len(el)) and effect_names() == []
