"""C11 / C17: the calendar-data a report returns for a resource is the resource's content.

CalendarDataProperty.get_value_ext without a sub-selection (<C:calendar-data/> empty): the
element text is exactly the UTF-8 decoding of the stored body - nothing is stripped, escaped
or re-serialised here (XML escaping is the serialiser's job)."""

ghost("res_body", ["opaque:Resource"], "opaque:Chunks")


@contract("iface:Resource.get_body", params={"self": "opaque:Resource"}, returns="opaque:Chunks", assumed=True)
class Resource_get_body:
    def ensures(self, result):
        return result == res_body(self)


@contract("xandikos.caldav.CalendarDataProperty.get_value_ext",
          params={"self": "obj:xandikos.caldav.CalendarDataProperty", "base_href": "str", "resource": "opaque:Resource",
                  "el": "obj:xml.Element", "environ": "dict[str,str]", "requested": "opaque:Element"},
          modifies=["el"])
class CalendarDataProperty_get_value_ext_c:
    def requires(requested):
        # the partial-retrieval branch (extract_from_calendar) is outside this contract
        return len(requested) == 0

    def ensures(self, resource, el):
        return el.text == joined(res_body(resource)).decode("utf-8") and effect_names() == []
