"""C12: RFC 4790 collations and the four RFC 6352 match types."""


def spec_match(a, b, k):
    return (a == b if k == "equals" else
            (b in a) if k == "contains" else
            a.startswith(b) if k == "starts-with" else
            a.endswith(b))


@contract("xandikos.collation._match", params={"a": "str", "b": "str", "k": "str"}, returns="bool")
class match_c:
    def raises_NotImplementedError(k):
        return k != "equals" and k != "contains" and k != "starts-with" and k != "ends-with"

    def ensures(a, b, k, result):
        return result == spec_match(a, b, k)


@contract("xandikos.collation._match", variant="bytes", params={"a": "bytes", "b": "bytes", "k": "str"}, returns="bool")
class match_bytes_c:
    def raises_NotImplementedError(k):
        return k != "equals" and k != "contains" and k != "starts-with" and k != "ends-with"

    def ensures(a, b, k, result):
        return result == spec_match(a, b, k)
