"""C03/C02: etag_matches, strong-etag codec."""


def spec_etag_matches(condition, actual_etag):
    # RFC 7232 If-Match / If-None-Match list semantics as the property states them:
    # a missing resource matches nothing; otherwise '*' or the listed etag matches.
    return actual_etag is not None and any(
        part.strip(" ") == "*" or part.strip(" ") == actual_etag for part in condition.split(","))


@contract("xandikos.webdav.etag_matches", params={"condition": "str", "actual_etag": "opt[str]"}, returns="bool")
class etag_matches:
    def requires(condition, actual_etag):
        # An empty header value never reaches etag_matches for If-None-Match (the handlers
        # test truthiness first); for If-Match "" with a missing resource see #post.
        return True

    def ensures(condition, actual_etag, result):
        return result == spec_etag_matches(condition, actual_etag)

    def inv_0(condition, actual_etag, _i, _seq):
        return (actual_etag is not None or condition == "") and all(
            p.strip(" ") != "*" and p.strip(" ") != actual_etag for p in _seq[:_i])


@contract("xandikos.web.create_strong_etag", params={"etag": "str"}, returns="str")
class create_strong_etag:
    def ensures(etag, result):
        return result == '"' + etag + '"'


@contract("xandikos.web.extract_strong_etag", params={"etag": "opt[str]"}, returns="opt[str]")
class extract_strong_etag:
    def ensures(etag, result):
        return (etag is None and result is None) or (
            etag is not None and result is not None and result == etag.strip('"'))
