"""C10: the in-memory index and the automatic index manager.

MemoryIndex maps an etag to the values that were extracted from the file with that etag, per
key.  Abstract view: (keys, covered etags, value of (key, etag)); reset() forgets every etag;
add_values() records all given keys for one etag; get_values() returns exactly what was
recorded (or [] for a key recorded without that etag)."""

fields("xandikos.store.index.MemoryIndex", {"_indexes": "dict[str,dict[str,list[bytes]]]", "_in_index": "set[str]"})


@contract("xandikos.store.index.MemoryIndex.reset",
          params={"self": "obj:xandikos.store.index.MemoryIndex", "keys": "set[str]"},
          modifies=["self._indexes", "self._in_index"])
class MemoryIndex_reset_c:
    """After a reset nothing is covered any more and exactly `keys` are indexed (seeded change
    C10_1: keeping covered etags across an extension of the key set)."""

    def ensures(self, keys):
        return (len(self._in_index) == 0
                and forall("str", lambda k: (k in self._indexes) == (k in keys))
                and forall("str", lambda k: implies(k in keys, len(self._indexes[k]) == 0)))

    def inv_0(self, keys, _i, _seq):
        return (_seq == keys_list(keys) and len(self._in_index) == 0
                and forall("str", lambda k: (k in self._indexes) == (k in keys and idx_of(keys, k) < _i))
                and forall("str", lambda k: implies(k in self._indexes, len(self._indexes[k]) == 0)))


@contract("xandikos.store.index.MemoryIndex.add_values",
          params={"self": "obj:xandikos.store.index.MemoryIndex", "name": "str", "etag": "str",
                  "values": "dict[str,list[bytes]]"},
          modifies=["self._indexes", "self._in_index"])
class MemoryIndex_add_values_c:
    """Records `values` (one list per key) for `etag` and marks the etag as covered; nothing
    else changes."""

    def requires(self, values):
        return forall("str", lambda k: implies(k in values, k in self._indexes))

    def ensures(self, etag, values):
        return (forall("str", lambda e: (e in self._in_index) == (e == etag or e in old(self._in_index)))
                and forall("str", lambda k: (k in self._indexes) == (k in old(self._indexes)))
                and forall("str", lambda k: implies(
                    k in self._indexes,
                    self._indexes[k] == (old(self._indexes)[k].put(etag, values[k]) if k in values else old(self._indexes)[k]))))

    def inv_0(self, etag, values, _i, _seq):
        return (_seq == items_list(values) and self._in_index == old(self._in_index)
                and forall("str", lambda k: (k in self._indexes) == (k in old(self._indexes)))
                and forall("str", lambda k: implies(
                    k in self._indexes,
                    self._indexes[k] == (old(self._indexes)[k].put(etag, values[k])
                                         if (k in values and idx_of(values, k) < _i) else old(self._indexes)[k]))))


def recorded(self, k, etag):
    return self._indexes[k][etag] if etag in self._indexes[k] else []


@contract("xandikos.store.index.MemoryIndex.get_values",
          params={"self": "obj:xandikos.store.index.MemoryIndex", "name": "str", "etag": "str", "keys": "list[str]"},
          returns="dict[str,list[bytes]]", locals={"indexes": "dict[str,list[bytes]]"}, loop_modifies={0: ["indexes"]})
class MemoryIndex_get_values_c:
    """KeyError exactly for an etag that is not covered; otherwise, for every requested key, what
    add_values recorded for this etag."""

    def requires(self, keys):
        return all(k in self._indexes for k in keys)

    def raises_KeyError(self, etag):
        return etag not in self._in_index

    def ensures(self, etag, keys, result):
        return (forall("str", lambda k: (k in result) == any(k == x for x in keys))
                and forall("str", lambda k: implies(k in result, result[k] == recorded(self, k, etag))))

    def inv_0(self, etag, keys, indexes, _i, _seq):
        return (_seq == keys and etag in self._in_index
                and forall("str", lambda k: (k in indexes) == any(k == x for x in _seq[:_i]))
                and forall("str", lambda k: implies(k in indexes, indexes[k] == recorded(self, k, etag))))


@contract("xandikos.store.index.MemoryIndex.available_keys", params={"self": "obj:xandikos.store.index.MemoryIndex"},
          returns="set[str]")
class MemoryIndex_available_keys_c:
    def ensures(self, result):
        return forall("str", lambda k: (k in result) == (k in self._indexes))


fields("xandikos.store.index.AutoIndexManager", {"index": "obj:xandikos.store.index.MemoryIndex", "desired": "dict[str,int]",
                                                  "indexing_threshold": "int"})


def index_untouched(self):
    return self.index._indexes == old(self.index._indexes) and self.index._in_index == old(self.index._in_index)


def index_reset_to_superset(self):
    return (len(self.index._in_index) == 0
            and forall("str", lambda k: implies(k in old(self.index._indexes), k in self.index._indexes))
            and forall("str", lambda k: implies(k in self.index._indexes, len(self.index._indexes[k]) == 0)))


@contract("xandikos.store.index.AutoIndexManager.find_present_keys",
          params={"self": "obj:xandikos.store.index.AutoIndexManager", "necessary_keys": "list[list[str]]"},
          returns="opt[list[str]]",
          modifies=["self.desired", "self.index._indexes", "self.index._in_index"],
          locals={"needed_keys": "list[str]", "missing_keys": "list[str]", "new_index_keys": "set[str]", "found": "bool"},
          loop_modifies={0: ["needed_keys", "missing_keys", "new_index_keys", "found", "self.desired"],
                         1: ["needed_keys", "found"], 2: ["new_index_keys", "self.desired"]})
class AutoIndexManager_find_present_keys_c:
    """C10: the index path is chosen (a key list is returned) only when every alternative group
    of the filter has a key in the index, every returned key is in the index, and then the index
    is left exactly as it was.  Otherwise (None) the index is either untouched or was reset to
    a superset of its keys with nothing covered - never a state in which covered files lack the
    values of an indexed key."""

    def requires(self, necessary_keys):
        # `desired` is a defaultdict(int): total for reading; every alternative group a filter
        # asks for names at least one key (Filter.index_keys)
        return forall("str", lambda k: k in self.desired) and all(len(g) > 0 for g in necessary_keys)

    def ensures(self, necessary_keys, result):
        return (implies(result is not None,
                        index_untouched(self)
                        and all(k in self.index._indexes for k in result)
                        and all(any(k in self.index._indexes for k in g) for g in necessary_keys))
                and implies(result is None, index_untouched(self) or index_reset_to_superset(self)))

    def inv_0(self, necessary_keys, needed_keys, missing_keys, _i, _seq):
        return (_seq == necessary_keys and index_untouched(self) and forall("str", lambda k: k in self.desired)
                and all(k in self.index._indexes for k in needed_keys)
                and implies(len(missing_keys) == 0, all(any(k in self.index._indexes for k in g) for g in _seq[:_i])))

    def inv_1(self, necessary_keys, needed_keys, missing_keys, found, keys, _i, _seq):
        return (_seq == keys and index_untouched(self) and forall("str", lambda k: k in self.desired)
                and all(k in self.index._indexes for k in needed_keys)
                and found == any(k in self.index._indexes for k in _seq[:_i]))

    def inv_2(self, necessary_keys, needed_keys, missing_keys, keys, _i, _seq):
        return (_seq == keys and index_untouched(self) and forall("str", lambda k: k in self.desired)
                and all(k in self.index._indexes for k in needed_keys))


# ---------------------------------------------------------------------------- choice of the evaluation path
opaque("FilterObj", attrs={"content_type": "str"})
ghost("filter_index_keys", ["opaque:FilterObj"], "opt[list[list[str]]]")    # None: the filter cannot be evaluated from an index


@contract("iface:FilterObj.index_keys", params={"self": "opaque:FilterObj"}, returns="list[list[str]]", assumed=True)
class FilterObj_index_keys:
    def raises_NotImplementedError(self):
        return filter_index_keys(self) is None

    def ensures(self, result):
        return result == filter_index_keys(self) and all(len(g) > 0 for g in result)


@contract("xandikos.store.Store._iter_with_filter_naive",
          params={"self": "obj:xandikos.store.git.GitStore", "filter": "opaque:FilterObj"},
          returns="opaque:FilterResult", effects=[["use_naive", "filter"]], assumed=True)
class Store_iter_with_filter_naive_c:
    """ASSUMED interface (the object-side evaluation of every member; bounded: index explorer)."""


@contract("xandikos.store.Store._iter_with_filter_indexes",
          params={"self": "obj:xandikos.store.git.GitStore", "filter": "opaque:FilterObj", "keys": "list[str]"},
          returns="opaque:FilterResult", effects=[["use_indexes", "filter", "keys"]], assumed=True)
class Store_iter_with_filter_indexes_c:
    """ASSUMED interface (index-side evaluation; bounded: index explorer).  Its precondition is
    what makes it meaningful: every key it is given is in the index."""

    def requires(self, keys):
        return all(k in self.index_manager.index._indexes for k in keys)


opaque("FilterResult")


@contract("xandikos.store.Store.iter_with_filter",
          params={"self": "obj:xandikos.store.git.GitStore", "filter": "opaque:FilterObj"}, returns="opaque:FilterResult",
          modifies=["self.index_manager.desired", "self.index_manager.index._indexes", "self.index_manager.index._in_index"])
class Store_iter_with_filter_c:
    """C10: exactly one of the two evaluations runs; the index-side one only with keys that are
    all in the index (obligation #pre:_iter_with_filter_indexes) and only when the manager found
    every key group of the filter there; otherwise the object-side one."""

    def requires(self):
        # (Store.__init__ always installs an index manager)
        return forall("str", lambda k: k in self.index_manager.desired)

    def ensures(self, filter):
        return ((effect_names() == ["use_naive"] or effect_names() == ["use_indexes"])
                and implies(filter_index_keys(filter) is None, effect_names() == ["use_naive"]))
