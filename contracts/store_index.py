"""C10: the in-memory index and the automatic index manager.

MemoryIndex maps an etag to the values that were extracted from the file with that etag, per
key.  Abstract view: (keys, covered etags, value of (key, etag)); reset() forgets every etag;
add_values() records all given keys for one etag; get_values() returns exactly what was
recorded (or [] for a key recorded without that etag)."""

fields("xandikos.store.index.MemoryIndex", {"_indexes": "dict[str,dict[str,list[bytes]]]", "_in_index": "set[str]"})


@contract("xandikos.store.index.MemoryIndex.reset",
          params={"self": "obj:xandikos.store.index.MemoryIndex", "keys": "set[str]"},
          modifies=["self._indexes", "self._in_index"])
class MemoryIndex_reset_c:
    """After a reset nothing is covered any more and exactly `keys` are indexed (seeded change
    C10_1: keeping covered etags across an extension of the key set)."""

    def ensures(self, keys):
        return (len(self._in_index) == 0
                and forall("str", lambda k: (k in self._indexes) == (k in keys))
                and forall("str", lambda k: implies(k in keys, len(self._indexes[k]) == 0)))

    def inv_0(self, keys, _i, _seq):
        return (_seq == keys_list(keys) and len(self._in_index) == 0
                and forall("str", lambda k: (k in self._indexes) == (k in keys and idx_of(keys, k) < _i))
                and forall("str", lambda k: implies(k in self._indexes, len(self._indexes[k]) == 0)))


@contract("xandikos.store.index.MemoryIndex.add_values",
          params={"self": "obj:xandikos.store.index.MemoryIndex", "name": "str", "etag": "str",
                  "values": "dict[str,list[bytes]]"},
          modifies=["self._indexes", "self._in_index"])
class MemoryIndex_add_values_c:
    """Records `values` (one list per key) for `etag` and marks the etag as covered; nothing
    else changes."""

    def requires(self, values):
        return forall("str", lambda k: implies(k in values, k in self._indexes))

    def ensures(self, etag, values):
        return (forall("str", lambda e: (e in self._in_index) == (e == etag or e in old(self._in_index)))
                and forall("str", lambda k: (k in self._indexes) == (k in old(self._indexes)))
                and forall("str", lambda k: implies(
                    k in self._indexes,
                    self._indexes[k] == (old(self._indexes)[k].put(etag, values[k]) if k in values else old(self._indexes)[k]))))

    def inv_0(self, etag, values, _i, _seq):
        return (_seq == items_list(values) and self._in_index == old(self._in_index)
                and forall("str", lambda k: (k in self._indexes) == (k in old(self._indexes)))
                and forall("str", lambda k: implies(
                    k in self._indexes,
                    self._indexes[k] == (old(self._indexes)[k].put(etag, values[k])
                                         if (k in values and idx_of(values, k) < _i) else old(self._indexes)[k]))))


def recorded(self, k, etag):
    return self._indexes[k][etag] if etag in self._indexes[k] else []


@contract("xandikos.store.index.MemoryIndex.get_values",
          params={"self": "obj:xandikos.store.index.MemoryIndex", "name": "str", "etag": "str", "keys": "list[str]"},
          returns="dict[str,list[bytes]]", locals={"indexes": "dict[str,list[bytes]]"}, loop_modifies={0: ["indexes"]})
class MemoryIndex_get_values_c:
    """KeyError exactly for an etag that is not covered; otherwise, for every requested key, what
    add_values recorded for this etag."""

    def requires(self, keys):
        return all(k in self._indexes for k in keys)

    def raises_KeyError(self, etag):
        return etag not in self._in_index

    def ensures(self, etag, keys, result):
        return (forall("str", lambda k: (k in result) == any(k == x for x in keys))
                and forall("str", lambda k: implies(k in result, result[k] == recorded(self, k, etag))))

    def inv_0(self, etag, keys, indexes, _i, _seq):
        return (_seq == keys and etag in self._in_index
                and forall("str", lambda k: (k in indexes) == any(k == x for x in _seq[:_i]))
                and forall("str", lambda k: implies(k in indexes, indexes[k] == recorded(self, k, etag))))
