"""C15: what PROPFIND shows for a collection's colour / order is the stored value.

The colour getters of the three collection kinds add a leading '#' to a stored code that lacks
one (codes stored by older versions) and change nothing else - in particular a '#RRGGBBAA'
code is shown with its alpha digits; an unset or empty code is 'no such property'."""


def stored_color(store):
    return store_opt(store, b"xandikos/color", "DEFAULT/color")


def shown_color(c):
    return c if c[0] == "#" else "#" + c


@contract("xandikos.web.CalendarCollection.get_calendar_color", params={"self": "obj:xandikos.web.CalendarCollection"}, returns="str")
class Calendar_get_calendar_color_c:
    def requires(self):
        return cfg_ok(self.store)

    def raises_KeyError(self):
        return stored_color(self.store) is None or stored_color(self.store) == ""

    def ensures(self, result):
        return result == shown_color(stored_color(self.store)) and effect_names() == []


@contract("xandikos.web.SubscriptionCollection.get_calendar_color", params={"self": "obj:xandikos.web.SubscriptionCollection"},
          returns="str")
class Subscription_get_calendar_color_c:
    def requires(self):
        return cfg_ok(self.store)

    def raises_KeyError(self):
        return stored_color(self.store) is None or stored_color(self.store) == ""

    def ensures(self, result):
        return result == shown_color(stored_color(self.store)) and effect_names() == []


@contract("xandikos.web.AddressbookCollection.get_addressbook_color", params={"self": "obj:xandikos.web.AddressbookCollection"},
          returns="str")
class Addressbook_get_addressbook_color_c:
    def requires(self):
        return cfg_ok(self.store)

    def raises_KeyError(self):
        return stored_color(self.store) is None or stored_color(self.store) == ""

    def ensures(self, result):
        return result == shown_color(stored_color(self.store)) and effect_names() == []


def stored_order(store):
    return (git_opt(repo_gitconfig(store.repo).get(b"xandikos/calendar-order")) if repo_has_meta(store.repo)
            else stored_cfg(store).get("calendar/order"))


@contract("xandikos.web.CalendarCollection.get_calendar_order", params={"self": "obj:xandikos.web.CalendarCollection"}, returns="str",
          may_raise=["KeyError"], inline_calls=["xandikos.store.git.GitStore.config"])
class Calendar_get_calendar_order_c:
    """Whenever an order is reported it is the stored one, unchanged (KeyError = no such property)."""

    def requires(self):
        return cfg_ok(self.store)

    def ensures(self, result):
        return result == stored_order(self.store) and result != "" and effect_names() == []


def stored_description(store):
    return (git_opt(repo_description(store.repo)) if repo_has_meta(store.repo)
            else stored_cfg(store).get("DEFAULT/description"))


@contract("xandikos.web.CalendarCollection.get_calendar_description", params={"self": "obj:xandikos.web.CalendarCollection"},
          returns="opt[str]")
class Calendar_get_calendar_description_c:
    def requires(self):
        return cfg_ok(self.store)

    def ensures(self, result):
        return result == stored_description(self.store) and effect_names() == []


@contract("xandikos.web.AddressbookCollection.get_addressbook_description", params={"self": "obj:xandikos.web.AddressbookCollection"},
          returns="opt[str]")
class Addressbook_get_addressbook_description_c:
    def requires(self):
        return cfg_ok(self.store)

    def ensures(self, result):
        return result == stored_description(self.store) and effect_names() == []


# ---------------------------------------------------------------------------- GitStore setters
# (modifies lists ghost_cfg although the bodies reach the metadata file only through the opaque
# save callback: a caller must not assume the metadata entry is unchanged after a set)
def set_value(v):
    """What a getter answers after set(v): v itself; None and "" both mean 'unset'."""
    return None if (v is None or v == "") else v


@contract("xandikos.store.git.GitStore.set_displayname", params={"self": "obj:xandikos.store.git.GitStore", "displayname": "opt[str]"},
          modifies=["self.repo", "self.ghost_cfg"], may_raise=["KeyError"], inline_calls=["xandikos.store.git.GitStore.config"],
          effects=[["metadata_write", "self"]])
class GitStore_set_displayname_c:
    """One metadata write, through whichever form the collection uses; with the git-config form
    the value reads back at once (the file form's persist step is the save_config contract)."""

    def requires(self):
        return cfg_ok(self)

    def ensures(self, displayname):
        return (effect_names() == ["metadata_write"]
                and implies(repo_has_meta(self.repo),
                            store_opt(self, b"xandikos/displayname", "DEFAULT/displayname") == set_value(displayname)))


@contract("xandikos.store.git.GitStore.set_comment", params={"self": "obj:xandikos.store.git.GitStore", "comment": "opt[str]"},
          modifies=["self.repo", "self.ghost_cfg"], may_raise=["KeyError"], inline_calls=["xandikos.store.git.GitStore.config"],
          effects=[["metadata_write", "self"]])
class GitStore_set_comment_c:
    def requires(self):
        return cfg_ok(self)

    def ensures(self, comment):
        return (effect_names() == ["metadata_write"]
                and implies(repo_has_meta(self.repo),
                            store_opt(self, b"xandikos/comment", "DEFAULT/comment") == set_value(comment)))


@contract("xandikos.store.git.GitStore.set_color", params={"self": "obj:xandikos.store.git.GitStore", "color": "opt[str]"},
          modifies=["self.repo", "self.ghost_cfg"], may_raise=["KeyError"], inline_calls=["xandikos.store.git.GitStore.config"],
          effects=[["metadata_write", "self"]])
class GitStore_set_color_c:
    def requires(self):
        return cfg_ok(self)

    def ensures(self, color):
        return (effect_names() == ["metadata_write"]
                and implies(repo_has_meta(self.repo),
                            store_opt(self, b"xandikos/color", "DEFAULT/color") == set_value(color)))


@contract("xandikos.store.git.GitStore.set_source_url", params={"self": "obj:xandikos.store.git.GitStore", "url": "opt[str]"},
          modifies=["self.repo", "self.ghost_cfg"], may_raise=["KeyError"], inline_calls=["xandikos.store.git.GitStore.config"],
          effects=[["metadata_write", "self"]])
class GitStore_set_source_url_c:
    def requires(self):
        return cfg_ok(self)

    def ensures(self, url):
        return (effect_names() == ["metadata_write"]
                and implies(repo_has_meta(self.repo),
                            store_opt(self, b"xandikos/source", "DEFAULT/source") == set_value(url)))


@contract("xandikos.store.git.GitStore.set_description", params={"self": "obj:xandikos.store.git.GitStore", "description": "opt[str]"},
          modifies=["self.repo", "self.ghost_cfg"], may_raise=["KeyError"], inline_calls=["xandikos.store.git.GitStore.config"],
          effects=[["metadata_write", "self"]])
class GitStore_set_description_c:
    def requires(self):
        return cfg_ok(self)

    def ensures(self, description):
        return (effect_names() == ["metadata_write"]
                and implies(repo_has_meta(self.repo), stored_description(self) == set_value(description)))


# ---------------------------------------------------------------------------- collection setters
@contract("xandikos.web.StoreBasedCollection.set_displayname", params={"self": "obj:xandikos.web.StoreBasedCollection", "displayname": "opt[str]"},
          modifies=["self.store.repo", "self.store.ghost_cfg"], may_raise=["KeyError"])
class Collection_set_displayname_c:
    def requires(self):
        return cfg_ok(self.store)

    def ensures(self, displayname):
        return (effect_names() == ["metadata_write"] and effect_arg(0, 1) == self.store
                and implies(repo_has_meta(self.store.repo),
                            store_opt(self.store, b"xandikos/displayname", "DEFAULT/displayname") == set_value(displayname)))


@contract("xandikos.web.StoreBasedCollection.set_comment", params={"self": "obj:xandikos.web.StoreBasedCollection", "comment": "opt[str]"},
          modifies=["self.store.repo", "self.store.ghost_cfg"], may_raise=["KeyError"])
class Collection_set_comment_c:
    def requires(self):
        return cfg_ok(self.store)

    def ensures(self, comment):
        return (effect_names() == ["metadata_write"] and effect_arg(0, 1) == self.store
                and implies(repo_has_meta(self.store.repo),
                            store_opt(self.store, b"xandikos/comment", "DEFAULT/comment") == set_value(comment)))


@contract("xandikos.web.CalendarCollection.set_calendar_color", params={"self": "obj:xandikos.web.CalendarCollection", "color": "opt[str]"},
          modifies=["self.store.repo", "self.store.ghost_cfg"], may_raise=["KeyError"])
class Calendar_set_calendar_color_c:
    def requires(self):
        return cfg_ok(self.store)

    def ensures(self, color):
        return (effect_names() == ["metadata_write"] and effect_arg(0, 1) == self.store
                and implies(repo_has_meta(self.store.repo), stored_color(self.store) == set_value(color)))


@contract("xandikos.web.SubscriptionCollection.set_calendar_color", params={"self": "obj:xandikos.web.SubscriptionCollection", "color": "opt[str]"},
          modifies=["self.store.repo", "self.store.ghost_cfg"], may_raise=["KeyError"])
class Subscription_set_calendar_color_c:
    def requires(self):
        return cfg_ok(self.store)

    def ensures(self, color):
        return (effect_names() == ["metadata_write"] and effect_arg(0, 1) == self.store
                and implies(repo_has_meta(self.store.repo), stored_color(self.store) == set_value(color)))


@contract("xandikos.web.AddressbookCollection.set_addressbook_color", params={"self": "obj:xandikos.web.AddressbookCollection", "color": "opt[str]"},
          modifies=["self.store.repo", "self.store.ghost_cfg"], may_raise=["KeyError"])
class Addressbook_set_addressbook_color_c:
    def requires(self):
        return cfg_ok(self.store)

    def ensures(self, color):
        return (effect_names() == ["metadata_write"] and effect_arg(0, 1) == self.store
                and implies(repo_has_meta(self.store.repo), stored_color(self.store) == set_value(color)))


@contract("xandikos.web.AddressbookCollection.set_addressbook_description",
          params={"self": "obj:xandikos.web.AddressbookCollection", "description": "opt[str]"},
          modifies=["self.store.repo", "self.store.ghost_cfg"], may_raise=["KeyError"])
class Addressbook_set_addressbook_description_c:
    def requires(self):
        return cfg_ok(self.store)

    def ensures(self, description):
        return (effect_names() == ["metadata_write"] and effect_arg(0, 1) == self.store
                and implies(repo_has_meta(self.store.repo), stored_description(self.store) == set_value(description)))


@contract("xandikos.web.CalendarCollection.set_calendar_order", params={"self": "obj:xandikos.web.CalendarCollection", "order": "opt[str]"},
          modifies=["self.store.repo", "self.store.ghost_cfg"], modifies_on_raise=["self.store.repo"], may_raise=["KeyError"],
          inline_calls=["xandikos.store.git.GitStore.config"])
class Calendar_set_calendar_order_c:
    def requires(self):
        return cfg_ok(self.store)

    def ensures(self, order):
        return (effect_names() == ["metadata_write"]
                and implies(repo_has_meta(self.store.repo), stored_order(self.store) == set_value(order)))
