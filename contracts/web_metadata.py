"""C15: what PROPFIND shows for a collection's colour / order is the stored value.

The colour getters of the three collection kinds add a leading '#' to a stored code that lacks
one (codes stored by older versions) and change nothing else - in particular a '#RRGGBBAA'
code is shown with its alpha digits; an unset or empty code is 'no such property'."""


def stored_color(store):
    return store_opt(store, b"xandikos/color", "DEFAULT/color")


def shown_color(c):
    return c if c[0] == "#" else "#" + c


@contract("xandikos.web.CalendarCollection.get_calendar_color", params={"self": "obj:xandikos.web.CalendarCollection"}, returns="str")
class Calendar_get_calendar_color_c:
    def requires(self):
        return cfg_ok(self.store)

    def raises_KeyError(self):
        return stored_color(self.store) is None or stored_color(self.store) == ""

    def ensures(self, result):
        return result == shown_color(stored_color(self.store)) and effect_names() == []


@contract("xandikos.web.SubscriptionCollection.get_calendar_color", params={"self": "obj:xandikos.web.SubscriptionCollection"},
          returns="str")
class Subscription_get_calendar_color_c:
    def requires(self):
        return cfg_ok(self.store)

    def raises_KeyError(self):
        return stored_color(self.store) is None or stored_color(self.store) == ""

    def ensures(self, result):
        return result == shown_color(stored_color(self.store)) and effect_names() == []


@contract("xandikos.web.AddressbookCollection.get_addressbook_color", params={"self": "obj:xandikos.web.AddressbookCollection"},
          returns="str")
class Addressbook_get_addressbook_color_c:
    def requires(self):
        return cfg_ok(self.store)

    def raises_KeyError(self):
        return stored_color(self.store) is None or stored_color(self.store) == ""

    def ensures(self, result):
        return result == shown_color(stored_color(self.store)) and effect_names() == []


def stored_order(store):
    return (git_opt(repo_gitconfig(store.repo).get(b"xandikos/calendar-order")) if repo_has_meta(store.repo)
            else stored_cfg(store).get("calendar/order"))


@contract("xandikos.web.CalendarCollection.get_calendar_order", params={"self": "obj:xandikos.web.CalendarCollection"}, returns="str",
          may_raise=["KeyError"], inline_calls=["xandikos.store.git.GitStore.config"])
class Calendar_get_calendar_order_c:
    """Whenever an order is reported it is the stored one, unchanged (KeyError = no such property)."""

    def requires(self):
        return cfg_ok(self.store)

    def ensures(self, result):
        return result == stored_order(self.store) and result != "" and effect_names() == []


def stored_description(store):
    return (git_opt(repo_description(store.repo)) if repo_has_meta(store.repo)
            else stored_cfg(store).get("DEFAULT/description"))


@contract("xandikos.web.CalendarCollection.get_calendar_description", params={"self": "obj:xandikos.web.CalendarCollection"},
          returns="opt[str]")
class Calendar_get_calendar_description_c:
    def requires(self):
        return cfg_ok(self.store)

    def ensures(self, result):
        return result == stored_description(self.store) and effect_names() == []


@contract("xandikos.web.AddressbookCollection.get_addressbook_description", params={"self": "obj:xandikos.web.AddressbookCollection"},
          returns="opt[str]")
class Addressbook_get_addressbook_description_c:
    def requires(self):
        return cfg_ok(self.store)

    def ensures(self, result):
        return result == stored_description(self.store) and effect_names() == []
