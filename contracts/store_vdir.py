"""C01/C02/C03/C04: VdirStore write and read primitives over the file-system model.
ghost_M = vdir_view(self).  The uid cache (_scan_uids / _check_duplicate, the same code as
GitStore's) and the directory listing are NOT under contract for this back end: they are
covered by the bounded store explorer only (DESIGN 6/C06)."""

fields("xandikos.store.vdir.VdirStore", {
    "path": "str", "_check_for_duplicate_uids": "bool", "extra_file_handlers": "opaque:Handlers",
    "_fname_to_uid": "dict[str,tuple[str,opt[str]]]", "_uid_to_fname": "dict[str,tuple[str,str]]",
})
view("xandikos.store.vdir.VdirStore", "ghost_M", "vdir_view")


def vdir_name(name):
    # a vdir holds only *.ics / *.vcf items (the listing skips everything else)
    return (name.endswith(".ics") or name.endswith(".vcf")) and not name.endswith(".tmp") and name != ".xandikos"


@contract("xandikos.store.vdir.VdirStore._get_etag",
          params={"self": "obj:xandikos.store.vdir.VdirStore", "name": "str"}, returns="str")
class Vdir_get_etag:
    def requires(self, name):
        return name not in fs_subdirs(self.path)

    def raises_KeyError(self, name):
        return not fs_has(self.path, name)

    def ensures(self, name, result):
        return result == md5_hex(fs_data(self.path, name)) and effect_names() == []


@contract("xandikos.store.vdir.VdirStore._get_raw",
          params={"self": "obj:xandikos.store.vdir.VdirStore", "name": "str", "etag": "opt[str]"},
          returns="list[bytes]")
class Vdir_get_raw:
    def requires(self, name):
        return name not in fs_subdirs(self.path)

    def raises_KeyError(self, name):
        return not fs_has(self.path, name)

    def ensures(self, name, result):
        return len(result) == 1 and result[0] == fs_data(self.path, name)


@contract("xandikos.store.vdir.VdirStore._check_duplicate",
          params={"self": "obj:xandikos.store.vdir.VdirStore", "uid": "opt[str]", "name": "str", "replace_etag": "opt[str]"},
          returns="opt[str]", modifies=["self._fname_to_uid", "self._uid_to_fname"],
          modifies_on_raise=["self._fname_to_uid", "self._uid_to_fname"], assumed=True)
class Vdir_check_duplicate:
    """ASSUMED interface (same code as GitStore._check_duplicate, verified there; for vdir only
    the bounded store explorer exercises it): no file-system effect; DuplicateUidError /
    InvalidETag as for the git stores."""

    def raises_DuplicateUidError(self, uid, name):
        return vdir_dup(self, uid, name)

    def raises_InvalidETag(self, uid, name, replace_etag):
        return not vdir_dup(self, uid, name) and replace_etag is not None and self.ghost_M.get(name) != replace_etag

    def ensures(self, name, result):
        return result == self.ghost_M.get(name)


ghost("vdir_dup_in", ["dict[str,str]", "opt[str]", "str"], "bool")


def vdir_dup(self, uid, name):
    # "a different item of this directory holds this uid" - a function of the items (md5 is
    # assumed collision free, so ghost_M determines the contents) - left abstract for vdir
    return uid is not None and self._check_for_duplicate_uids and vdir_dup_in(self.ghost_M, uid, name)


def vdir_refused_dup(self, name, content_type, data):
    f = upload_file(self, name, content_type, data)
    return vdir_dup(self, upload_uid(f), effective_name(name, content_type))


@contract("xandikos.store.vdir.VdirStore.import_one",
          params={"self": "obj:xandikos.store.vdir.VdirStore", "name": "opt[str]", "content_type": "opt[str]",
                  "data": "opaque:Chunks", "message": "opt[str]", "author": "opt[str]", "replace_etag": "opt[str]"},
          returns="tuple[str,str]",
          modifies=["self._fname_to_uid", "self._uid_to_fname", "fs()"],
          modifies_on_raise=["self._fname_to_uid", "self._uid_to_fname"])
class Vdir_import_one:
    """C01/C02/C03/C04 for the vdir back end: the item is first written under <name>.tmp and
    then moved over <name> by one rename, so <name> is never observable half-written; on every
    refusal the directory is unchanged; on success the directory is the old one with <name>
    holding the normalised bytes, and the returned etag is their md5."""

    def requires(self, name, content_type):
        return ((name is not None or content_type is not None)
                and implies(name is not None, vdir_name(name) or name == ".xandikos")
                and implies(name is None, effective_name(name, content_type) != ".xandikos")
                # no sub-directory is in the way of the item or of its temporary file
                and effective_name(name, content_type) not in fs_subdirs(self.path)
                and effective_name(name, content_type) + ".tmp" not in fs_subdirs(self.path)
                and forall("opaque:File", lambda f: implies(valid_file(f), uid_outcome(f) != 2)))

    def raises_InvalidFileContents(self, name, content_type, data):
        return not accepted_upload(self, name, content_type, data)

    def raises_DuplicateUidError(self, name, content_type, data):
        return accepted_upload(self, name, content_type, data) and vdir_refused_dup(self, name, content_type, data)

    def raises_InvalidETag(self, name, content_type, data, replace_etag):
        return (accepted_upload(self, name, content_type, data)
                and not vdir_refused_dup(self, name, content_type, data)
                and replace_etag is not None
                and self.ghost_M.get(effective_name(name, content_type)) != replace_etag)

    def ensures(self, name, content_type, data, result):
        f = upload_file(self, name, content_type, data)
        return (result[0] == effective_name(name, content_type)
                and result[1] == md5_hex(joined(normalized_of(f)))
                and fs_data(self.path, result[0]) == joined(normalized_of(f))
                and implies(name is not None, self.ghost_M == old(self.ghost_M).put(result[0], result[1])))

    def ensures_atomic(self, name, content_type, result):
        # the only write to the final name is the rename
        return (effect_names() == ["WriteFile", "Replace"]
                and effect_arg(0, 1) == result[0] + ".tmp"
                and effect_arg(1, 1) == result[0] + ".tmp" and effect_arg(1, 2) == result[0])


@contract("xandikos.store.vdir.VdirStore.delete_one",
          params={"self": "obj:xandikos.store.vdir.VdirStore", "name": "str", "message": "opt[str]",
                  "author": "opt[str]", "etag": "opt[str]"},
          modifies=["fs()"])
class Vdir_delete_one:
    def requires(self, name):
        return vdir_name(name) and name not in fs_subdirs(self.path)

    def raises_NoSuchItem(self, name):
        return name not in self.ghost_M

    def raises_InvalidETag(self, name, etag):
        return name in self.ghost_M and etag is not None and self.ghost_M[name] != etag

    def ensures(self, name):
        return self.ghost_M == old(self.ghost_M).without(name) and effect_names() == ["Unlink"]
