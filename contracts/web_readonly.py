"""C08 / C15: reading a collection's properties changes nothing.

A PROPFIND must not move the collection's ctag / sync-token: the getters below write neither
the metadata (no `metadata_write` effect - every metadata setter declares one) nor anything
else (empty frame).  Seeded change C08_2 ("store the fallback display name on first read")
is the kind of change these obligations exist for."""


def read_only():
    return effect_names() == []


def git_opt(v):
    return None if (v is None or v == b"") else v.decode("utf-8")


def store_opt(store, gkey, fkey):
    """C15: what a collection's metadata getter answers - the stored value, or None when unset -
    from whichever of the two places the collection keeps its metadata in."""
    return (git_opt(repo_gitconfig(store.repo).get(gkey)) if repo_has_meta(store.repo)
            else stored_cfg(store).get(fkey))


@contract("xandikos.store.git.GitStore.get_displayname", params={"self": "obj:xandikos.store.git.GitStore"}, returns="opt[str]",
          inline_calls=["xandikos.store.git.GitStore.config"])
class GitStore_get_displayname_c:
    def requires(self):
        return cfg_ok(self)

    def ensures(self):
        return read_only()

    def ensures_value(self, result):
        return result == store_opt(self, b"xandikos/displayname", "DEFAULT/displayname")


@contract("xandikos.store.git.GitStore.get_description", params={"self": "obj:xandikos.store.git.GitStore"}, returns="opt[str]",
          inline_calls=["xandikos.store.git.GitStore.config"])
class GitStore_get_description_c:
    def requires(self):
        return cfg_ok(self)

    def ensures(self):
        return read_only()

    def ensures_value(self, result):
        return result == (git_opt(repo_description(self.repo)) if repo_has_meta(self.repo)
                          else stored_cfg(self).get("DEFAULT/description"))


@contract("xandikos.store.git.GitStore.get_comment", params={"self": "obj:xandikos.store.git.GitStore"}, returns="opt[str]",
          inline_calls=["xandikos.store.git.GitStore.config"])
class GitStore_get_comment_c:
    def requires(self):
        return cfg_ok(self)

    def ensures(self):
        return read_only()

    def ensures_value(self, result):
        return result == store_opt(self, b"xandikos/comment", "DEFAULT/comment")


@contract("xandikos.store.git.GitStore.get_color", params={"self": "obj:xandikos.store.git.GitStore"}, returns="opt[str]",
          inline_calls=["xandikos.store.git.GitStore.config"])
class GitStore_get_color_c:
    def requires(self):
        return cfg_ok(self)

    def ensures(self):
        return read_only()

    def ensures_value(self, result):
        return result == store_opt(self, b"xandikos/color", "DEFAULT/color")


@contract("xandikos.store.git.GitStore.get_source_url", params={"self": "obj:xandikos.store.git.GitStore"}, returns="opt[str]",
          inline_calls=["xandikos.store.git.GitStore.config"])
class GitStore_get_source_url_c:
    def requires(self):
        return cfg_ok(self)

    def ensures(self):
        return read_only()

    def ensures_value(self, result):
        return result == store_opt(self, b"xandikos/source", "DEFAULT/source")


@contract("xandikos.web.StoreBasedCollection.get_displayname", params={"self": "obj:xandikos.web.StoreBasedCollection"},
          returns="str")
class Collection_get_displayname_c:
    """The configured display name, else the directory name - computed, never stored."""

    def requires(self):
        return cfg_ok(self.store)

    def ensures(self):
        return read_only()

    def ensures_value(self, result):
        # a stored display name is shown as it is (the fall-back only stands in for an unset one)
        d = store_opt(self.store, b"xandikos/displayname", "DEFAULT/displayname")
        return implies(d is not None, result == d)


@contract("xandikos.web.StoreBasedCollection.get_comment", params={"self": "obj:xandikos.web.StoreBasedCollection"},
          returns="opt[str]")
class Collection_get_comment_c:
    def requires(self):
        return cfg_ok(self.store)

    def ensures(self):
        return read_only()

    def ensures_value(self, result):
        return result == store_opt(self.store, b"xandikos/comment", "DEFAULT/comment")
