"""C08 / C15: reading a collection's properties changes nothing.

A PROPFIND must not move the collection's ctag / sync-token: the getters below write neither
the metadata (no `metadata_write` effect - every metadata setter declares one) nor anything
else (empty frame).  Seeded change C08_2 ("store the fallback display name on first read")
is the kind of change these obligations exist for."""


def read_only():
    return effect_names() == []


@contract("xandikos.store.git.GitStore.get_displayname", params={"self": "obj:xandikos.store.git.GitStore"}, returns="opt[str]")
class GitStore_get_displayname_c:
    def requires(self):
        return self.ghost_cfg is None or is_ascii(self.ghost_cfg)

    def ensures(self):
        return read_only()


@contract("xandikos.store.git.GitStore.get_description", params={"self": "obj:xandikos.store.git.GitStore"}, returns="opt[str]")
class GitStore_get_description_c:
    def requires(self):
        return self.ghost_cfg is None or is_ascii(self.ghost_cfg)

    def ensures(self):
        return read_only()


@contract("xandikos.store.git.GitStore.get_comment", params={"self": "obj:xandikos.store.git.GitStore"}, returns="opt[str]")
class GitStore_get_comment_c:
    def requires(self):
        return self.ghost_cfg is None or is_ascii(self.ghost_cfg)

    def ensures(self):
        return read_only()


@contract("xandikos.store.git.GitStore.get_color", params={"self": "obj:xandikos.store.git.GitStore"}, returns="opt[str]")
class GitStore_get_color_c:
    def requires(self):
        return self.ghost_cfg is None or is_ascii(self.ghost_cfg)

    def ensures(self):
        return read_only()


@contract("xandikos.store.git.GitStore.get_source_url", params={"self": "obj:xandikos.store.git.GitStore"}, returns="opt[str]")
class GitStore_get_source_url_c:
    def requires(self):
        return self.ghost_cfg is None or is_ascii(self.ghost_cfg)

    def ensures(self):
        return read_only()


@contract("xandikos.web.StoreBasedCollection.get_displayname", params={"self": "obj:xandikos.web.StoreBasedCollection"},
          returns="str")
class Collection_get_displayname_c:
    """The configured display name, else the directory name - computed, never stored."""

    def requires(self):
        return self.store.ghost_cfg is None or is_ascii(self.store.ghost_cfg)

    def ensures(self):
        return read_only()


@contract("xandikos.web.StoreBasedCollection.get_comment", params={"self": "obj:xandikos.web.StoreBasedCollection"},
          returns="opt[str]")
class Collection_get_comment_c:
    def requires(self):
        return self.store.ghost_cfg is None or is_ascii(self.store.ghost_cfg)

    def ensures(self):
        return read_only()
