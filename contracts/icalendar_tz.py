"""C11: as_tz_aware_ts - how DATE, floating and zoned values are placed on the time line.

RFC 4791 9.9 / 7.3: a DATE value is the start of that day, and a floating DATE-TIME is the
wall-clock time, *in the time zone the query (or the calendar) specifies*; a value that
carries its own zone (UTC or TZID) is taken as it is."""


@contract("xandikos.icalendar.as_tz_aware_ts", params={"dt": "opaque:DT", "default_timezone": "opaque:TZ"},
          returns="opaque:DT")
class as_tz_aware_ts_c:
    def ensures(dt, default_timezone, result):
        midnight = combine_of(dt, time_value(None))
        return (result == (with_tz(midnight, default_timezone) if dt.time is None else
                           with_tz(dt, default_timezone) if dt.tzinfo is None else dt)
                and result.tzinfo is not None)
